// FACTS — fact extractor for the libprio-rs static checks.
//
// Injected with RUSTC_WORKSPACE_WRAPPER under `cargo +nightly check`. For the crate named in
// PRIO_FACTS_CRATE (default "prio") it dumps, after analysis, one JSON file (PRIO_FACTS_OUT)
// with the type-checked items and the MIR of every local body. Every other crate is compiled
// as usual. Nothing of the analysed crate is executed.
#![feature(rustc_private)]

extern crate rustc_abi;
extern crate rustc_driver;
extern crate rustc_hir;
extern crate rustc_interface;
extern crate rustc_middle;
extern crate rustc_session;
extern crate rustc_span;

mod json;

use json::J;
use rustc_driver::{Callbacks, Compilation};
use rustc_hir::def::DefKind;
use rustc_hir::def_id::{DefId, LocalDefId};
use rustc_middle::mir::{self, *};
use rustc_middle::ty::print::PrintTraitRefExt;
use rustc_middle::ty::{self, GenericArgKind, GenericArgsRef, Instance, Ty, TyCtxt, TypeVisitableExt, TypingEnv};
use rustc_span::Span;
use std::collections::HashMap;

struct Facts;

impl Callbacks for Facts {
    fn after_analysis<'tcx>(
        &mut self,
        _compiler: &rustc_interface::interface::Compiler,
        tcx: TyCtxt<'tcx>,
    ) -> Compilation {
        let out = std::env::var("PRIO_FACTS_OUT").expect("PRIO_FACTS_OUT not set");
        let mut ex = Extract { tcx, types: Vec::new(), type_ix: HashMap::new() };
        let j = ex.run();
        let mut s = String::with_capacity(64 << 20);
        j.write(&mut s);
        let tmp = format!("{}.tmp.{}", out, std::process::id());
        std::fs::write(&tmp, s).expect("write facts");
        std::fs::rename(&tmp, &out).expect("rename facts");
        Compilation::Continue
    }
}

struct Extract<'tcx> {
    tcx: TyCtxt<'tcx>,
    types: Vec<J>,
    type_ix: HashMap<Ty<'tcx>, usize>,
}

fn o(pairs: Vec<(&str, J)>) -> J {
    J::Obj(pairs.into_iter().map(|(k, v)| (k.to_string(), v)).collect())
}
fn s<T: Into<String>>(x: T) -> J {
    J::Str(x.into())
}
fn n(x: usize) -> J {
    J::Num(x as i128)
}

impl<'tcx> Extract<'tcx> {
    fn path(&self, d: DefId) -> String {
        ty::print::with_no_trimmed_paths!(self.tcx.def_path_str(d))
    }

    fn path_args(&self, d: DefId, a: GenericArgsRef<'tcx>) -> String {
        ty::print::with_no_trimmed_paths!(self.tcx.def_path_str_with_args(d, a))
    }

    fn did(&self, d: DefId) -> J {
        match d.as_local() {
            Some(l) => J::Num(l.local_def_index.as_u32() as i128),
            None => J::Null,
        }
    }

    fn span(&self, sp: Span) -> J {
        let sm = self.tcx.sess.source_map();
        let sp0 = sp;
        // Attribute to the outermost call site inside the crate's own source.
        let root = sp.source_callsite();
        let lo = sm.lookup_char_pos(root.lo());
        let hi = sm.lookup_char_pos(root.hi());
        let file = match &lo.file.name {
            rustc_span::FileName::Real(r) => match r.local_path() {
                Some(p) => p.to_string_lossy().to_string(),
                None => format!("{:?}", r),
            },
            other => format!("{:?}", other),
        };
        let mut v = vec![("f", s(file)), ("l", n(lo.line)), ("h", n(hi.line))];
        if sp0.from_expansion() {
            let ed = sp0.ctxt().outer_expn_data();
            let name = match ed.kind {
                rustc_span::ExpnKind::Macro(_, sym) => sym.to_string(),
                rustc_span::ExpnKind::Desugaring(d) => format!("desugar:{:?}", d),
                rustc_span::ExpnKind::AstPass(p) => format!("astpass:{:?}", p),
                rustc_span::ExpnKind::Root => "root".to_string(),
            };
            v.push(("x", s(name)));
        }
        o(v)
    }

    fn line(&self, sp: Span) -> J {
        // compact per-statement span: [line, macro-name-or-null]
        let sm = self.tcx.sess.source_map();
        let root = sp.source_callsite();
        let lo = sm.lookup_char_pos(root.lo());
        if sp.from_expansion() {
            let ed = sp.ctxt().outer_expn_data();
            let name = match ed.kind {
                rustc_span::ExpnKind::Macro(_, sym) => sym.to_string(),
                rustc_span::ExpnKind::Desugaring(d) => format!("desugar:{:?}", d),
                _ => "other".to_string(),
            };
            J::Arr(vec![n(lo.line), s(name)])
        } else {
            n(lo.line)
        }
    }

    fn garg(&mut self, a: ty::GenericArg<'tcx>) -> J {
        match a.kind() {
            GenericArgKind::Type(t) => o(vec![("t", n(self.ty(t)))]),
            GenericArgKind::Const(c) => {
                let mut v = vec![("c", s(format!("{}", c)))];
                if let Some(x) = c.try_to_target_usize(self.tcx) {
                    v.push(("v", J::Num(x as i128)));
                }
                o(v)
            }
            GenericArgKind::Lifetime(_) => o(vec![("r", J::Null)]),
        }
    }

    fn gargs(&mut self, a: GenericArgsRef<'tcx>) -> J {
        J::Arr(a.iter().map(|x| self.garg(x)).collect())
    }

    fn ty(&mut self, t: Ty<'tcx>) -> usize {
        if let Some(&i) = self.type_ix.get(&t) {
            return i;
        }
        let ix = self.types.len();
        self.types.push(J::Null);
        self.type_ix.insert(t, ix);
        let disp = ty::print::with_no_trimmed_paths!(format!("{}", t));
        let mut v: Vec<(&str, J)> = vec![("s", s(disp))];
        match t.kind() {
            ty::Bool => v.push(("k", s("bool"))),
            ty::Char => v.push(("k", s("char"))),
            ty::Int(i) => {
                v.push(("k", s("int")));
                v.push(("sg", J::Bool(true)));
                v.push(("w", n(i.bit_width().unwrap_or(0) as usize)));
            }
            ty::Uint(u) => {
                v.push(("k", s("int")));
                v.push(("sg", J::Bool(false)));
                v.push(("w", n(u.bit_width().unwrap_or(0) as usize)));
            }
            ty::Float(_) => v.push(("k", s("float"))),
            ty::Adt(def, args) => {
                v.push(("k", s("adt")));
                v.push(("path", s(self.path(def.did()))));
                v.push(("did", self.did(def.did())));
                v.push(("args", self.gargs(args)));
                if def.is_enum() {
                    let names: Vec<J> = def.variants().iter().map(|x| s(x.name.to_string())).collect();
                    v.push(("variants", J::Arr(names)));
                    let discrs: Vec<J> = def
                        .discriminants(self.tcx)
                        .map(|(_, d)| J::Str(format!("{}", d.val)))
                        .collect();
                    v.push(("discrs", J::Arr(discrs)));
                }
                v.push((
                    "ak",
                    s(if def.is_enum() {
                        "enum"
                    } else if def.is_union() {
                        "union"
                    } else {
                        "struct"
                    }),
                ));
            }
            ty::Ref(_, inner, m) => {
                v.push(("k", s("ref")));
                v.push(("mut", J::Bool(m.is_mut())));
                v.push(("t", n(self.ty(*inner))));
            }
            ty::RawPtr(inner, m) => {
                v.push(("k", s("ptr")));
                v.push(("mut", J::Bool(m.is_mut())));
                v.push(("t", n(self.ty(*inner))));
            }
            ty::Slice(inner) => {
                v.push(("k", s("slice")));
                v.push(("t", n(self.ty(*inner))));
            }
            ty::Array(inner, len) => {
                v.push(("k", s("array")));
                v.push(("t", n(self.ty(*inner))));
                v.push(("len", s(format!("{}", len))));
                if let Some(x) = len.try_to_target_usize(self.tcx) {
                    v.push(("lenv", J::Num(x as i128)));
                }
            }
            ty::Str => v.push(("k", s("str"))),
            ty::Never => v.push(("k", s("never"))),
            ty::Tuple(ts) => {
                v.push(("k", s("tuple")));
                let a = ts.iter().map(|x| n(self.ty(x))).collect();
                v.push(("ts", J::Arr(a)));
            }
            ty::Param(p) => {
                v.push(("k", s("param")));
                v.push(("name", s(p.name.to_string())));
            }
            ty::Alias(..) => {
                v.push(("k", s("alias")));
            }
            ty::Closure(def, args) => {
                v.push(("k", s("closure")));
                v.push(("path", s(self.path(*def))));
                v.push(("did", self.did(*def)));
                let ups: Vec<J> = args.as_closure().upvar_tys().iter().map(|x| n(self.ty(x))).collect();
                v.push(("upvars", J::Arr(ups)));
            }
            ty::FnDef(def, args) => {
                v.push(("k", s("fndef")));
                v.push(("path", s(self.path(*def))));
                v.push(("did", self.did(*def)));
                v.push(("args", self.gargs(args)));
            }
            ty::FnPtr(..) => v.push(("k", s("fnptr"))),
            ty::Dynamic(..) => v.push(("k", s("dyn"))),
            _ => v.push(("k", s("other"))),
        }
        self.types[ix] = o(v);
        ix
    }

    fn place(&mut self, body: &Body<'tcx>, p: &Place<'tcx>) -> J {
        let mut proj = Vec::new();
        let mut cur = PlaceTy::from_ty(body.local_decls[p.local].ty);
        for e in p.projection.iter() {
            let j = match e {
                ProjectionElem::Deref => s("*"),
                ProjectionElem::Field(f, fty) => {
                    let mut name = J::Null;
                    if let ty::Adt(def, _) = cur.ty.kind() {
                        let vi = cur.variant_index.unwrap_or(rustc_abi::FIRST_VARIANT);
                        if def.is_struct() || def.is_union() || cur.variant_index.is_some() {
                            if let Some(var) = def.variants().get(vi) {
                                if let Some(fd) = var.fields.get(f) {
                                    name = s(fd.name.to_string());
                                }
                            }
                        }
                    }
                    o(vec![("f", n(f.as_usize())), ("n", name), ("t", n(self.ty(fty)))])
                }
                ProjectionElem::Index(l) => o(vec![("ix", n(l.as_usize()))]),
                ProjectionElem::ConstantIndex { offset, min_length, from_end } => o(vec![
                    ("cix", n(offset as usize)),
                    ("min", n(min_length as usize)),
                    ("end", J::Bool(from_end)),
                ]),
                ProjectionElem::Subslice { from, to, from_end } => o(vec![
                    ("sub", n(from as usize)),
                    ("to", n(to as usize)),
                    ("end", J::Bool(from_end)),
                ]),
                ProjectionElem::Downcast(name, vi) => o(vec![
                    ("dc", n(vi.as_usize())),
                    ("n", match name {
                        Some(x) => s(x.to_string()),
                        None => J::Null,
                    }),
                ]),
                ProjectionElem::OpaqueCast(_) => s("opaque"),
                ProjectionElem::UnwrapUnsafeBinder(_) => s("unwrap_binder"),
            };
            proj.push(j);
            cur = cur.projection_ty(self.tcx, e);
        }
        if proj.is_empty() {
            n(p.local.as_usize())
        } else {
            o(vec![("l", n(p.local.as_usize())), ("p", J::Arr(proj))])
        }
    }

    fn constant(&mut self, owner: DefId, c: &ConstOperand<'tcx>) -> J {
        let tcx = self.tcx;
        let cty = c.const_.ty();
        let mut v: Vec<(&str, J)> = vec![("k", s("const")), ("ty", n(self.ty(cty)))];
        match cty.kind() {
            ty::FnDef(def, args) => {
                v.push(("fn", s(self.path(*def))));
                v.push(("did", self.did(*def)));
                let _ = args;
            }
            _ => {
                let env = TypingEnv::post_analysis(tcx, owner);
                let is_scalar = matches!(cty.kind(), ty::Bool | ty::Char | ty::Int(_) | ty::Uint(_));
                if is_scalar {
                    if let Some(si) = c.const_.try_eval_scalar_int(tcx, env) {
                        let bits = si.to_bits_unchecked();
                        let val: i128 = match cty.kind() {
                            ty::Int(_) => {
                                let size = si.size();
                                size.sign_extend(bits) as i128
                            }
                            _ => bits as i128,
                        };
                        if matches!(cty.kind(), ty::Uint(_)) && bits > i128::MAX as u128 {
                            v.push(("vs", s(format!("{}", bits))));
                        } else {
                            v.push(("v", J::Num(val)));
                        }
                    }
                }
                match c.const_ {
                    mir::Const::Unevaluated(u, _) => {
                        v.push(("sym", s(self.path_args(u.def, u.args))));
                        v.push(("symdef", s(self.path(u.def))));
                        if let Some(pidx) = u.promoted {
                            v.push(("promoted", J::Bool(true)));
                            // a promoted `&<scalar literal>`: recover the literal from the promoted body
                            if let Some(ld) = u.def.as_local() {
                                let bodies = tcx.promoted_mir(ld.to_def_id());
                                if let Some(pb) = bodies.get(pidx) {
                                    let mut vals: Vec<i128> = Vec::new();
                                    for bb in pb.basic_blocks.iter() {
                                        for st in &bb.statements {
                                            if let StatementKind::Assign(b) = &st.kind {
                                                if let Rvalue::Use(Operand::Constant(pc), ..) = &b.1 {
                                                    let pty = pc.const_.ty();
                                                    if matches!(pty.kind(), ty::Bool | ty::Int(_) | ty::Uint(_)) {
                                                        let penv = TypingEnv::post_analysis(tcx, u.def);
                                                        if let Some(si) = pc.const_.try_eval_scalar_int(tcx, penv) {
                                                            vals.push(si.to_bits_unchecked() as i128);
                                                        }
                                                    }
                                                }
                                            }
                                        }
                                    }
                                    if vals.len() == 1 {
                                        v.push(("pv", J::Num(vals[0])));
                                    }
                                }
                            }
                        }
                    }
                    mir::Const::Ty(_, ct) => {
                        v.push(("sym", s(format!("{}", ct))));
                    }
                    mir::Const::Val(..) => {}
                }
                if !is_scalar {
                    let d = ty::print::with_no_trimmed_paths!(format!("{}", c.const_));
                    let d: String = d.chars().take(120).collect();
                    v.push(("d", s(d)));
                }
            }
        }
        o(v)
    }

    fn operand(&mut self, owner: DefId, body: &Body<'tcx>, op: &Operand<'tcx>) -> J {
        match op {
            Operand::Copy(p) => o(vec![("k", s("copy")), ("p", self.place(body, p))]),
            Operand::Move(p) => o(vec![("k", s("move")), ("p", self.place(body, p))]),
            Operand::Constant(c) => self.constant(owner, c),
            #[allow(unreachable_patterns)]
            _ => o(vec![("k", s("other")), ("d", s(format!("{:?}", op)))]),
        }
    }

    fn rvalue(&mut self, owner: DefId, body: &Body<'tcx>, rv: &Rvalue<'tcx>) -> J {
        match rv {
            Rvalue::Use(op, ..) => o(vec![("k", s("use")), ("a", self.operand(owner, body, op))]),
            Rvalue::Repeat(op, c) => o(vec![
                ("k", s("repeat")),
                ("a", self.operand(owner, body, op)),
                ("n", s(format!("{}", c))),
            ]),
            Rvalue::Ref(_, bk, p) => o(vec![
                ("k", s("ref")),
                ("mut", J::Bool(matches!(bk, BorrowKind::Mut { .. }))),
                ("p", self.place(body, p)),
            ]),
            Rvalue::RawPtr(k, p) => o(vec![
                ("k", s("rawptr")),
                ("mut", J::Bool(matches!(k, RawPtrKind::Mut))),
                ("p", self.place(body, p)),
            ]),
            Rvalue::ThreadLocalRef(d) => o(vec![("k", s("tls")), ("def", s(self.path(*d)))]),
            Rvalue::Cast(ck, op, t) => o(vec![
                ("k", s("cast")),
                ("ck", s(format!("{:?}", ck).split('(').next().unwrap_or("").to_string())),
                ("a", self.operand(owner, body, op)),
                ("ty", n(self.ty(*t))),
            ]),
            Rvalue::BinaryOp(bop, ab) => o(vec![
                ("k", s("bin")),
                ("op", s(format!("{:?}", bop))),
                ("a", self.operand(owner, body, &ab.0)),
                ("b", self.operand(owner, body, &ab.1)),
            ]),
            Rvalue::UnaryOp(uop, a) => o(vec![
                ("k", s("un")),
                ("op", s(format!("{:?}", uop))),
                ("a", self.operand(owner, body, a)),
            ]),
            Rvalue::Discriminant(p) => o(vec![("k", s("discr")), ("p", self.place(body, p))]),
            Rvalue::Aggregate(kind, ops) => {
                let opsj: Vec<J> = ops.iter().map(|x| self.operand(owner, body, x)).collect();
                let mut v = vec![("k", s("agg")), ("ops", J::Arr(opsj))];
                match &**kind {
                    AggregateKind::Array(t) => {
                        v.push(("ak", s("array")));
                        v.push(("ty", n(self.ty(*t))));
                    }
                    AggregateKind::Tuple => v.push(("ak", s("tuple"))),
                    AggregateKind::Adt(def, vi, args, _, active) => {
                        v.push(("ak", s("adt")));
                        v.push(("path", s(self.path(*def))));
                        v.push(("did", self.did(*def)));
                        v.push(("vi", n(vi.as_usize())));
                        let adt = self.tcx.adt_def(*def);
                        let var = adt.variant(*vi);
                        v.push(("vn", s(var.name.to_string())));
                        let fns: Vec<J> = var.fields.iter().map(|f| s(f.name.to_string())).collect();
                        v.push(("fields", J::Arr(fns)));
                        v.push(("args", self.gargs(args)));
                        if let Some(a) = active {
                            v.push(("active", n(a.as_usize())));
                        }
                    }
                    AggregateKind::Closure(def, _args) => {
                        v.push(("ak", s("closure")));
                        v.push(("path", s(self.path(*def))));
                        v.push(("did", self.did(*def)));
                    }
                    other => {
                        v.push(("ak", s("other")));
                        v.push(("d", s(format!("{:?}", other).chars().take(80).collect::<String>())));
                    }
                }
                o(v)
            }
            Rvalue::CopyForDeref(p) => o(vec![
                ("k", s("use")),
                ("a", o(vec![("k", s("copy")), ("p", self.place(body, p))])),
            ]),
            other => o(vec![
                ("k", s("other")),
                ("d", s(format!("{:?}", other).chars().take(120).collect::<String>())),
            ]),
        }
    }

    fn callee(&mut self, owner: DefId, body: &Body<'tcx>, func: &Operand<'tcx>) -> J {
        let tcx = self.tcx;
        let fty = func.ty(&body.local_decls, tcx);
        match fty.kind() {
            ty::FnDef(def, args) => {
                let mut v: Vec<(&str, J)> = vec![
                    ("path", s(self.path(*def))),
                    ("full", s(self.path_args(*def, args))),
                    ("did", self.did(*def)),
                    ("args", self.gargs(args)),
                    ("name", s(tcx.item_name(*def).to_string())),
                ];
                if let Some(tr) = tcx.trait_of_assoc(*def) {
                    v.push(("trait", s(self.path(tr))));
                }
                if let Some(imp) = tcx.impl_of_assoc(*def) {
                    let st = tcx.type_of(imp).instantiate_identity().skip_norm_wip();
                    v.push(("impl_self", n(self.ty(st))));
                }
                let env = TypingEnv::post_analysis(tcx, owner);
                let has_infer = args.iter().any(|a| match a.kind() {
                    GenericArgKind::Type(t) => t.has_escaping_bound_vars(),
                    _ => false,
                });
                if !has_infer {
                    if let Ok(Some(inst)) = Instance::try_resolve(tcx, env, *def, args) {
                        let rd = inst.def_id();
                        if rd != *def {
                            v.push(("rpath", s(self.path(rd))));
                            v.push(("rdid", self.did(rd)));
                            v.push(("rfull", s(self.path_args(rd, inst.args))));
                            if let Some(imp) = tcx.impl_of_assoc(rd) {
                                let st = tcx.type_of(imp).instantiate_identity().skip_norm_wip();
                                v.push(("rimpl_self", n(self.ty(st))));
                            }
                        }
                        if !matches!(inst.def, ty::InstanceKind::Item(_)) {
                            v.push(("ikind", s(format!("{:?}", inst.def).split('(').next().unwrap_or("").to_string())));
                        }
                    }
                }
                o(v)
            }
            _ => o(vec![("indirect", self.operand(owner, body, func))]),
        }
    }

    fn terminator(&mut self, owner: DefId, body: &Body<'tcx>, t: &Terminator<'tcx>) -> J {
        let ln = self.line(t.source_info.span);
        let mut v: Vec<(&str, J)> = match &t.kind {
            TerminatorKind::Goto { target } => vec![("k", s("goto")), ("t", n(target.as_usize()))],
            TerminatorKind::SwitchInt { discr, targets } => {
                let ts: Vec<J> = targets
                    .iter()
                    .map(|(val, bb)| {
                        J::Arr(vec![
                            if val > i128::MAX as u128 { s(format!("{}", val)) } else { J::Num(val as i128) },
                            n(bb.as_usize()),
                        ])
                    })
                    .collect();
                vec![
                    ("k", s("switch")),
                    ("d", self.operand(owner, body, discr)),
                    ("ts", J::Arr(ts)),
                    ("else", n(targets.otherwise().as_usize())),
                ]
            }
            TerminatorKind::Return => vec![("k", s("return"))],
            TerminatorKind::Unreachable => vec![("k", s("unreachable"))],
            TerminatorKind::UnwindResume => vec![("k", s("resume"))],
            TerminatorKind::UnwindTerminate(_) => vec![("k", s("abort"))],
            TerminatorKind::Drop { place, target, .. } => vec![
                ("k", s("drop")),
                ("p", self.place(body, place)),
                ("t", n(target.as_usize())),
            ],
            TerminatorKind::Call { func, args, destination, target, fn_span, .. } => {
                let a: Vec<J> = args.iter().map(|x| self.operand(owner, body, &x.node)).collect();
                vec![
                    ("k", s("call")),
                    ("f", self.callee(owner, body, func)),
                    ("args", J::Arr(a)),
                    ("dest", self.place(body, destination)),
                    ("t", match target {
                        Some(b) => n(b.as_usize()),
                        None => J::Null,
                    }),
                    ("fl", self.line(*fn_span)),
                ]
            }
            TerminatorKind::TailCall { func, args, .. } => {
                let a: Vec<J> = args.iter().map(|x| self.operand(owner, body, &x.node)).collect();
                vec![("k", s("tailcall")), ("f", self.callee(owner, body, func)), ("args", J::Arr(a))]
            }
            TerminatorKind::Assert { cond, expected, msg, target, .. } => {
                let (mk, ops): (String, Vec<J>) = match &**msg {
                    AssertKind::BoundsCheck { len, index } => (
                        "bounds".into(),
                        vec![self.operand(owner, body, len), self.operand(owner, body, index)],
                    ),
                    AssertKind::Overflow(op, a, b) => (
                        format!("overflow:{:?}", op),
                        vec![self.operand(owner, body, a), self.operand(owner, body, b)],
                    ),
                    AssertKind::OverflowNeg(a) => ("overflow_neg".into(), vec![self.operand(owner, body, a)]),
                    AssertKind::DivisionByZero(a) => ("div_zero".into(), vec![self.operand(owner, body, a)]),
                    AssertKind::RemainderByZero(a) => ("rem_zero".into(), vec![self.operand(owner, body, a)]),
                    other => (format!("other:{:?}", other).chars().take(60).collect(), vec![]),
                };
                vec![
                    ("k", s("assert")),
                    ("c", self.operand(owner, body, cond)),
                    ("e", J::Bool(*expected)),
                    ("m", s(mk)),
                    ("ops", J::Arr(ops)),
                    ("t", n(target.as_usize())),
                ]
            }
            TerminatorKind::FalseEdge { real_target, .. } => vec![("k", s("goto")), ("t", n(real_target.as_usize()))],
            TerminatorKind::FalseUnwind { real_target, .. } => vec![("k", s("goto")), ("t", n(real_target.as_usize()))],
            other => vec![("k", s("other")), ("d", s(format!("{:?}", other).chars().take(80).collect::<String>()))],
        };
        v.push(("ln", ln));
        o(v)
    }

    fn body(&mut self, ldid: LocalDefId) -> J {
        let tcx = self.tcx;
        let did = ldid.to_def_id();
        let body: &Body<'tcx> = tcx.optimized_mir(did);
        let locals: Vec<J> = body.local_decls.iter().map(|d| n(self.ty(d.ty))).collect();
        let mut vars = Vec::new();
        for vdi in &body.var_debug_info {
            if let VarDebugInfoContents::Place(p) = &vdi.value {
                vars.push(o(vec![("n", s(vdi.name.to_string())), ("p", self.place(body, p))]));
            }
        }
        let mut blocks = Vec::new();
        for (_bb, data) in body.basic_blocks.iter_enumerated() {
            let mut stmts = Vec::new();
            for st in &data.statements {
                match &st.kind {
                    StatementKind::Assign(b) => {
                        let (p, rv) = &**b;
                        stmts.push(o(vec![
                            ("k", s("assign")),
                            ("p", self.place(body, p)),
                            ("r", self.rvalue(did, body, rv)),
                            ("ln", self.line(st.source_info.span)),
                        ]));
                    }
                    StatementKind::SetDiscriminant { place, variant_index } => {
                        stmts.push(o(vec![
                            ("k", s("setdiscr")),
                            ("p", self.place(body, place)),
                            ("vi", n(variant_index.as_usize())),
                            ("ln", self.line(st.source_info.span)),
                        ]));
                    }
                    StatementKind::Intrinsic(i) => {
                        stmts.push(o(vec![
                            ("k", s("intrinsic")),
                            ("d", s(format!("{:?}", i).chars().take(80).collect::<String>())),
                        ]));
                    }
                    _ => {}
                }
            }
            let term = self.terminator(did, body, data.terminator());
            blocks.push(o(vec![
                ("s", J::Arr(stmts)),
                ("t", term),
                ("c", J::Bool(data.is_cleanup)),
            ]));
        }
        o(vec![
            ("argc", n(body.arg_count)),
            ("locals", J::Arr(locals)),
            ("vars", J::Arr(vars)),
            ("blocks", J::Arr(blocks)),
        ])
    }

    fn vis(&self, d: DefId) -> J {
        match self.tcx.visibility(d) {
            ty::Visibility::Public => s("pub"),
            ty::Visibility::Restricted(m) => {
                if m.is_crate_root() { s("crate") } else { s(format!("in:{}", self.path(m))) }
            }
        }
    }

    fn run(&mut self) -> J {
        let tcx = self.tcx;
        let eff = tcx.effective_visibilities(());
        let mut fns = Vec::new();
        let mut adts = Vec::new();
        let mut impls = Vec::new();
        let mut consts = Vec::new();
        let mut traits = Vec::new();

        for ldid in tcx.hir_crate_items(()).definitions() {
            let did = ldid.to_def_id();
            let kind = tcx.def_kind(did);
            match kind {
                DefKind::Struct | DefKind::Enum | DefKind::Union => {
                    let adt = tcx.adt_def(did);
                    let mut vars = Vec::new();
                    for var in adt.variants() {
                        let mut fields = Vec::new();
                        for f in var.fields.iter() {
                            let fty = tcx.type_of(f.did).instantiate_identity().skip_norm_wip();
                            fields.push(o(vec![
                                ("n", s(f.name.to_string())),
                                ("t", n(self.ty(fty))),
                                ("vis", self.vis(f.did)),
                            ]));
                        }
                        vars.push(o(vec![("n", s(var.name.to_string())), ("fields", J::Arr(fields))]));
                    }
                    adts.push(o(vec![
                        ("path", s(self.path(did))),
                        ("did", self.did(did)),
                        ("k", s(format!("{:?}", kind))),
                        ("vis", self.vis(did)),
                        ("eff_pub", J::Bool(eff.is_reachable(ldid))),
                        ("variants", J::Arr(vars)),
                        ("span", self.span(tcx.def_span(did))),
                    ]));
                }
                DefKind::Impl { of_trait } => {
                    let st = tcx.type_of(did).instantiate_identity().skip_norm_wip();
                    let mut v = vec![
                        ("did", self.did(did)),
                        ("self", n(self.ty(st))),
                        ("span", self.span(tcx.def_span(did))),
                    ];
                    if of_trait {
                        let tr = tcx.impl_trait_ref(did).instantiate_identity().skip_norm_wip();
                        v.push(("trait", s(self.path(tr.def_id))));
                        v.push(("trait_full", s(ty::print::with_no_trimmed_paths!(format!("{}", tr.print_only_trait_path())))));
                    }
                    let derived = tcx.is_automatically_derived(did);
                    v.push(("derived", J::Bool(derived)));
                    let items: Vec<J> = tcx
                        .associated_item_def_ids(did)
                        .iter()
                        .map(|d| self.did(*d))
                        .collect();
                    v.push(("items", J::Arr(items)));
                    impls.push(o(v));
                }
                DefKind::Trait => {
                    let items: Vec<J> = tcx
                        .associated_item_def_ids(did)
                        .iter()
                        .map(|d| o(vec![("did", self.did(*d)), ("name", s(tcx.item_name(*d).to_string())), ("k", s(format!("{:?}", tcx.def_kind(*d))))]))
                        .collect();
                    traits.push(o(vec![
                        ("path", s(self.path(did))),
                        ("did", self.did(did)),
                        ("items", J::Arr(items)),
                    ]));
                }
                DefKind::Const { .. } | DefKind::AssocConst { .. } => {
                    let generics = tcx.generics_of(did);
                    let mut v = vec![("path", s(self.path(did))), ("did", self.did(did))];
                    let tyc = tcx.type_of(did).instantiate_identity().skip_norm_wip();
                    v.push(("ty", n(self.ty(tyc))));
                    let is_int = matches!(tyc.kind(), ty::Bool | ty::Int(_) | ty::Uint(_));
                    let has_body = tcx.hir_maybe_body_owned_by(ldid).is_some();
                    if generics.count() == 0 && generics.parent_count == 0 && is_int && has_body {
                        if let Ok(val) = tcx.const_eval_poly(did) {
                            if let Some(sc) = val.try_to_scalar_int() {
                                let bits = sc.to_bits_unchecked();
                                v.push(("vs", s(format!("{}", bits))));
                            }
                        }
                    } else if generics.count() == 0 && is_int && has_body {
                        // associated const of a non-generic impl
                        if let Ok(val) = tcx.const_eval_poly(did) {
                            if let Some(sc) = val.try_to_scalar_int() {
                                let bits = sc.to_bits_unchecked();
                                v.push(("vs", s(format!("{}", bits))));
                            }
                        }
                    }
                    // arrays of integers (e.g. tables of roots of unity): element values as decimal strings
                    if let ty::Array(elem, _) = tyc.kind() {
                        let esz: usize = match elem.kind() {
                            ty::Uint(u) => u.bit_width().map(|w| (w / 8) as usize).unwrap_or(0),
                            ty::Int(i) => i.bit_width().map(|w| (w / 8) as usize).unwrap_or(0),
                            _ => 0,
                        };
                        if esz > 0 && generics.count() == 0 && has_body {
                            if let Ok(val) = tcx.const_eval_poly(did) {
                                if let mir::ConstValue::Indirect { alloc_id, offset } = val {
                                    if let rustc_middle::mir::interpret::GlobalAlloc::Memory(mem) = tcx.global_alloc(alloc_id) {
                                        let alloc = mem.inner();
                                        let start = offset.bytes() as usize;
                                        let total = alloc.len();
                                        let bytes = alloc.inspect_with_uninit_and_ptr_outside_interpreter(start..total);
                                        let mut elems: Vec<J> = Vec::new();
                                        for ch in bytes.chunks(esz) {
                                            if ch.len() == esz {
                                                let mut x: u128 = 0;
                                                for (i, b) in ch.iter().enumerate() {
                                                    x |= (*b as u128) << (8 * i);
                                                }
                                                elems.push(s(format!("{}", x)));
                                            }
                                        }
                                        v.push(("va", J::Arr(elems)));
                                    }
                                }
                            }
                        }
                    }
                    if let Some(imp) = tcx.impl_of_assoc(did) {
                        v.push(("impl", self.did(imp)));
                    }
                    consts.push(o(v));
                }
                _ => {}
            }
        }


        let mut keys: Vec<LocalDefId> = tcx.mir_keys(()).iter().copied().collect();
        keys.sort_by_key(|k| k.local_def_index.as_u32());
        for ldid in keys {
            let did = ldid.to_def_id();
            let kind = tcx.def_kind(did);
            if !matches!(kind, DefKind::Fn | DefKind::AssocFn | DefKind::Closure) {
                continue;
            }
            if !tcx.is_mir_available(did) {
                continue;
            }
            {
                    let name = if kind == DefKind::Closure {
                        "{closure}".to_string()
                    } else {
                        tcx.item_name(did).to_string()
                    };
                    let mut v = vec![
                        ("id", s(self.path(did))),
                        ("did", self.did(did)),
                        ("name", s(name)),
                        ("k", s(format!("{:?}", kind))),
                        ("span", self.span(tcx.def_span(did))),
                    ];
                    if kind != DefKind::Closure {
                        v.push(("vis", self.vis(did)));
                        v.push(("eff_pub", J::Bool(eff.is_reachable(ldid))));
                        let sig = tcx.fn_sig(did).instantiate_identity().skip_norm_wip().skip_binder();
                        let ins: Vec<J> = sig.inputs().iter().map(|t| n(self.ty(*t))).collect();
                        v.push(("inputs", J::Arr(ins)));
                        v.push(("output", n(self.ty(sig.output()))));
                        if let Some(imp) = tcx.impl_of_assoc(did) {
                            v.push(("impl", self.did(imp)));
                            let st = tcx.type_of(imp).instantiate_identity().skip_norm_wip();
                            v.push(("impl_self", n(self.ty(st))));
                            if let Some(tr) = tcx.impl_opt_trait_ref(imp) {
                                let tr = tr.instantiate_identity().skip_norm_wip();
                                v.push(("impl_trait", s(self.path(tr.def_id))));
                            }
                        }
                        if let Some(tr) = tcx.trait_of_assoc(did) {
                            v.push(("in_trait", s(self.path(tr))));
                        }
                    } else {
                        let parent = tcx.typeck_root_def_id(did);
                        v.push(("root", self.did(parent)));
                        v.push(("parent", self.did(tcx.parent(did))));
                        let caps: Vec<J> = tcx
                            .closure_captures(ldid)
                            .iter()
                            .map(|c| {
                                o(vec![
                                    ("n", s(c.to_string(tcx))),
                                    ("by", s(format!("{:?}", c.info.capture_kind).chars().take(40).collect::<String>())),
                                ])
                            })
                            .collect();
                        v.push(("captures", J::Arr(caps)));
                    }
                    let gens = tcx.generics_of(did);
                    let mut gnames = Vec::new();
                    let mut g = Some(gens);
                    while let Some(gg) = g {
                        for p in gg.own_params.iter().rev() {
                            gnames.push(s(p.name.to_string()));
                        }
                        g = gg.parent.map(|p| tcx.generics_of(p));
                    }
                    gnames.reverse();
                    v.push(("generics", J::Arr(gnames)));
                    let preds: Vec<J> = tcx
                        .predicates_of(did)
                        .instantiate_identity(tcx)
                        .predicates
                        .iter()
                        .map(|p| s(ty::print::with_no_trimmed_paths!(format!("{}", p.skip_norm_wip()))))
                        .collect();
                    v.push(("preds", J::Arr(preds)));
                    v.push(("mir", self.body(ldid)));
                    fns.push(o(v));
                            }
        }

        let crate_name = tcx.crate_name(rustc_hir::def_id::LOCAL_CRATE).to_string();
        let cfgs: Vec<J> = tcx
            .sess
            .config
            .iter()
            .filter_map(|(k, v)| {
                if k.as_str() == "feature" { v.map(|x| s(x.to_string())) } else { None }
            })
            .collect();
        o(vec![
            ("crate", s(crate_name)),
            ("features", J::Arr(cfgs)),
            ("types", J::Arr(std::mem::take(&mut self.types))),
            ("adts", J::Arr(adts)),
            ("impls", J::Arr(impls)),
            ("traits", J::Arr(traits)),
            ("consts", J::Arr(consts)),
            ("fns", J::Arr(fns)),
        ])
    }
}

fn main() {
    let mut args: Vec<String> = std::env::args().collect();
    // RUSTC_WORKSPACE_WRAPPER: argv[1] is the real rustc path; drop it.
    if args.len() > 1 && (args[1].ends_with("rustc") || args[1].contains("/rustc")) {
        args.remove(1);
    }
    let want = std::env::var("PRIO_FACTS_CRATE").unwrap_or_else(|_| "prio".to_string());
    let mut crate_name = None;
    let mut i = 0;
    while i < args.len() {
        if args[i] == "--crate-name" && i + 1 < args.len() {
            crate_name = Some(args[i + 1].clone());
        }
        i += 1;
    }
    let is_target = crate_name.as_deref() == Some(want.as_str())
        && std::env::var("PRIO_FACTS_OUT").is_ok()
        && !args.iter().any(|a| a == "--test")
        && args.iter().any(|a| a.starts_with("--crate-type") || a == "lib")
        && !args.iter().any(|a| a == "build_script_build");
    if is_target {
        rustc_driver::run_compiler(&args, &mut Facts);
    } else {
        struct Plain;
        impl Callbacks for Plain {}
        rustc_driver::run_compiler(&args, &mut Plain);
    }
}
