#!/usr/bin/env python3
"""False-alarm sweep: rename one private, uniquely named, non-trait function at a time (word-boundary sed over src/)
on a scratch copy of /repo's HEAD and run every check; a harmless rename must leave all of them silent.
usage: tools_rename_fns.py [-j N] [name ...]      prints one line per rename: name -> alarms (or 'silent' / 'no-compile')"""
import sys, os, re, subprocess, tempfile, shutil, json, collections
from concurrent.futures import ThreadPoolExecutor
sys.path.insert(0, os.path.join(os.path.dirname(__file__), "sa"))

COMMON = {"new", "get", "sum", "fill", "sample", "zero", "aggregate", "variant", "convert", "extend", "log2", "ntt", "from_bytes"}


def candidates():
    import extract, ir
    prog = ir.Program(extract.extract("K2"))
    fs = list(prog.fns.values()) if isinstance(prog.fns, dict) else prog.fns
    alln = collections.Counter(f.name for f in fs)
    out = []
    for f in fs:
        if f.kind == "closure" or f.eff_pub or f.impl_trait or f.in_trait or f.macro:
            continue
        if "test" in f.file or "/dummy" in f.file or "higher_degree" in f.file or f.name.startswith("check_"):
            continue
        if alln[f.name] != 1 or f.name in COMMON or len(f.name) < 5:
            continue
        out.append(f.name)
    return sorted(set(out))


def run_one(name):
    d = tempfile.mkdtemp(prefix="verif-rn.")
    try:
        os.makedirs(d + "/repo"); os.makedirs(d + "/ev")
        subprocess.run("git -C /repo archive HEAD | tar -x -C %s/repo" % d, shell=True, check=True)
        new = name + "_rn"
        n = 0
        for root, _, files in os.walk(d + "/repo"):
            if "/target" in root:
                continue
            for fn in files:
                if fn.endswith(".rs"):
                    p = os.path.join(root, fn)
                    s = open(p).read()
                    s2 = re.sub(r"\b%s\b" % re.escape(name), new, s)
                    if s2 != s:
                        open(p, "w").write(s2); n += 1
        ids = [c["property_id"] for c in json.load(open("/verif/MANIFEST.json"))["checks"]]
        alarms = []
        for i in ids:
            r = subprocess.run(["./check", i], cwd="/verif", env=dict(os.environ, PRIO_REPO=d + "/repo", VERIF_EVIDENCE_DIR=d + "/ev"),
                               capture_output=True, text=True)
            txt = r.stdout + r.stderr
            if "INFRA" in txt or r.returncode == 2:
                return "%s -> no-compile/infra (%s)" % (name, i)
            for l in txt.splitlines():
                if "rule=" in l:
                    alarms.append(i + " " + l.strip()[:200])
        return "%s -> %s" % (name, "silent" if not alarms else "\n    " + "\n    ".join(alarms))
    finally:
        shutil.rmtree(d, ignore_errors=True)


if __name__ == "__main__":
    a = sys.argv[1:]
    j = 4
    if a[:1] == ["-j"]:
        j = int(a[1]); a = a[2:]
    names = a or candidates()
    print("%d renames" % len(names), flush=True)
    with ThreadPoolExecutor(j) as ex:
        for r in ex.map(run_one, names):
            print(r, flush=True)
