#!/bin/bash
# run every claimed check on /repo's (clean) working tree and refresh /verif/evidence
[ -z "$(git -C /repo status --porcelain)" ] || { echo "/repo is not clean"; exit 2; }
cd /verif; rc=0
python3 tools_names.py || { echo "undefined names in rule modules"; exit 2; }
for id in $(python3 -c "import json;print(' '.join(c['property_id'] for c in json.load(open('MANIFEST.json'))['checks']))"); do
  ./check $id --tier ${1:-quick} | grep -E "VIOLATION|quick:|thorough:|INFRA" ; [ ${PIPESTATUS[0]} -eq 0 ] || rc=1
done
exit $rc
