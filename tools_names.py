#!/usr/bin/env python3
"""undefined-name check for the rule modules (a NameError in a rarely taken branch would be an INFRA failure at the
worst moment): every Name loaded in rules/*.py and sa/*.py must be bound in the module (def/class/import/assignment/
argument/comprehension/for/with/except), a builtin, or exported by a star-imported module of this tree."""
import ast, builtins, glob, os, sys
HERE = os.path.dirname(os.path.abspath(__file__))
sys.path.insert(0, os.path.join(HERE, "sa")); sys.path.insert(0, HERE)


def bound_names(tree):
    out = set()
    for n in ast.walk(tree):
        if isinstance(n, (ast.FunctionDef, ast.ClassDef, ast.AsyncFunctionDef)):
            out.add(n.name)
            if not isinstance(n, ast.ClassDef):
                a = n.args
                for x in a.args + a.kwonlyargs + a.posonlyargs:
                    out.add(x.arg)
                if a.vararg: out.add(a.vararg.arg)
                if a.kwarg: out.add(a.kwarg.arg)
        elif isinstance(n, ast.Lambda):
            a = n.args
            for x in a.args + a.kwonlyargs + a.posonlyargs:
                out.add(x.arg)
            if a.vararg: out.add(a.vararg.arg)
            if a.kwarg: out.add(a.kwarg.arg)
        elif isinstance(n, ast.Name) and isinstance(n.ctx, (ast.Store, ast.Del)):
            out.add(n.id)
        elif isinstance(n, (ast.Import, ast.ImportFrom)):
            for al in n.names:
                if al.name != "*":
                    out.add((al.asname or al.name).split(".")[0])
        elif isinstance(n, ast.ExceptHandler) and n.name:
            out.add(n.name)
        elif isinstance(n, (ast.Global, ast.Nonlocal)):
            out.update(n.names)
    return out


def star_exports(modname):
    import importlib
    m = importlib.import_module(modname)
    return set(getattr(m, "__all__", [k for k in vars(m) if not k.startswith("_")]))


bad = 0
for path in sorted(glob.glob(os.path.join(HERE, "rules", "*.py")) + glob.glob(os.path.join(HERE, "sa", "*.py"))):
    src = open(path).read()
    tree = ast.parse(src)
    names = bound_names(tree) | set(dir(builtins)) | {"__file__", "__name__"}
    for n in ast.walk(tree):
        if isinstance(n, ast.ImportFrom) and any(al.name == "*" for al in n.names):
            try:
                names |= star_exports(n.module)
            except Exception as ex:
                print("%s: cannot import %s for its star-exports: %s" % (path, n.module, ex))
    for n in ast.walk(tree):
        if isinstance(n, ast.Name) and isinstance(n.ctx, ast.Load) and n.id not in names:
            print("%s:%d: undefined name %s" % (os.path.relpath(path, HERE), n.lineno, n.id))
            bad += 1
sys.exit(1 if bad else 0)
