#!/usr/bin/env python3
"""For every /verif/seeded/<ID>-<m>: apply the mutant to /repo, run the property's quick check, record which
rule instances fire, revert, and (re)write meta.json.  Prints the detection table (markdown)."""
import json, os, re, subprocess, sys, glob

HERE = os.path.dirname(os.path.abspath(__file__))
SEEDED = os.path.join(HERE, "seeded")


def sh(cmd, **kw):
    return subprocess.run(cmd, shell=True, capture_output=True, text=True, **kw)


def section(text, pats):
    lines = text.splitlines()
    for i, l in enumerate(lines):
        if l.startswith("#") and any(re.search(p, l, re.I) for p in pats):
            out = []
            for m in lines[i + 1:]:
                if m.startswith("#"):
                    break
                out.append(m)
            return "\n".join(out).strip()
    return ""


def main():
    import tempfile
    os.environ["VERIF_EVIDENCE_DIR"] = tempfile.mkdtemp(prefix="verif-ev.")
    only = sys.argv[1:]
    rows = []
    assert sh("git -C /repo status --porcelain").stdout.strip() == "", "/repo is not clean"
    for d in sorted(glob.glob(os.path.join(SEEDED, "C*-*m[0-9]*"))):
        name = os.path.basename(d)
        if only and not any(name.startswith(o) for o in only):
            continue
        prop = name.split("-")[0]
        patch = os.path.join(d, "patch.current.diff")
        if not os.path.exists(patch):
            patch = os.path.join(d, "patch.diff")
        readme = ""
        for rn in ("AGENT_README.md", "README.md"):
            p = os.path.join(d, rn)
            if os.path.exists(p):
                readme = open(p).read()
                break
        title = readme.splitlines()[0].lstrip("# ").strip() if readme else name
        needs = section(readme, [r"needed", r"manifest", r"trigger"])
        r = sh("git -C /repo apply %s || git -C /repo apply -3 %s" % (patch, patch))
        applied = r.returncode == 0
        fired = []
        status = "patch does not apply"
        if applied:
            c = sh("%s/check %s" % (HERE, prop))
            fired = sorted(set(re.findall(r"rule=(\S+) key=(\S+)", c.stdout)))
            status = "detected" if "VIOLATION property=%s" % prop in c.stdout else ("NOT detected (exit %d)" % c.returncode)
        sh("git -C /repo reset -q --hard")
        conf = {}
        cp = os.path.join(d, "confirm.json")
        if os.path.exists(cp):
            conf = json.load(open(cp))
        meta = {
            "property": prop,
            "mutant": name,
            "title": title,
            "breaks": "property %s (see %s in this directory for the mechanism)" % (prop, "AGENT_README.md"),
            "needs_to_manifest": needs[:1500],
            "files": ["patch.diff"] + (["patch.current.diff (rebased onto the tree after the fix: commits)"] if patch.endswith("current.diff") else []) +
                     sorted(x for x in os.listdir(d) if x.startswith("demo") or x.endswith(".rs")),
            "confirmed_by_me": {
                "how": "scratch worktree of /repo under /tmp: demo on the pristine tree, `cargo test --workspace --offline` with the mutant, demo with the mutant",
                "result": conf,
            },
            "check_run": {"command": "git -C /repo apply <patch>; /verif/check %s; git -C /repo checkout -- ." % prop,
                          "status": status, "rules_fired": ["%s %s" % (a, b[:160]) for a, b in fired][:8]},
        }
        json.dump(meta, open(os.path.join(d, "meta.json"), "w"), indent=1)
        rows.append((name, title[:90], status, ", ".join(sorted(set(a for a, b in fired)))[:80]))
        print("| %s | %s | %s | %s |" % rows[-1], flush=True)
    assert sh("git -C /repo status --porcelain").stdout.strip() == "", "/repo left dirty"


main()
