#!/bin/bash
# tools_dbg.sh <patch> : (re)create the scratch copy /tmp/dbg/repo of /repo's HEAD with the patch applied; then use
#   PRIO_REPO=/tmp/dbg/repo VERIF_EVIDENCE_DIR=/tmp/dbg/ev ./check <ID>      (or sa/show.py with PRIO_REPO set)
rm -rf /tmp/dbg; mkdir -p /tmp/dbg/repo /tmp/dbg/ev
git -C /repo archive HEAD | tar -x -C /tmp/dbg/repo
if [ -n "$1" ]; then p=$(readlink -f "$1"); (cd /tmp/dbg/repo && patch -p1 -s < "$p"); fi
echo ready
