#!/bin/bash
# tools_try_scratch.sh <patch> <IDs...> : like tools_try.sh, but on a scratch copy of /repo's HEAD (never touches /repo;
# safe to run several at once).  Prints the checks' output.
p=$(readlink -f $1); shift
d=$(mktemp -d /tmp/verif-try.XXXXXX)
mkdir -p $d/repo $d/ev && git -C /repo archive HEAD | tar -x -C $d/repo
if ! (cd $d/repo && patch -p1 -s < $p); then echo "patch does not apply"; rm -rf $d; exit 3; fi
cd /verif
for id in "$@"; do PRIO_REPO=$d/repo VERIF_EVIDENCE_DIR=$d/ev ./check $id 2>&1; done
rm -rf $d
