#!/usr/bin/env python3
"""Regenerates MANIFEST.json from the table below (claimed checks = properties that have rules/<id>.py
AND are listed in CLAIMS)."""
import json, os, importlib, sys

HERE = os.path.dirname(os.path.abspath(__file__))
sys.path.insert(0, os.path.join(HERE, "sa"))
sys.path.insert(0, HERE)

CLAIMS = {
    "C01": dict(technique="static analysis: symbolic shape identities (polynomial normal forms over instance parameters, gadget objects evaluated from constructors), panic-precondition analysis for narrow-integer totality, decoder/constructor agreement over MIR",
                design="DESIGN.md section 5 C01"),
    "C02": dict(technique="static analysis: guard-relation/dominance rules (literal relations or decided by value over the branches on the operand), equality coverage, symbolic shape identities, clone-faithfulness and multithreaded-gadget sibling rules over compiler MIR facts",
                design="DESIGN.md section 5 C02"),
    "C04": dict(technique="static analysis: typestate decision-table extraction over enum discriminants in MIR (accepting rows taken apart per merged definition), guard-relation rules, per-path polynomial evaluation of the sketch formulas, keystream block-range/offset term rules",
                design="DESIGN.md section 5 C04"),
    "C05": dict(technique="static analysis: symbolic shape identities (polynomial normal forms), guard-relation/dominance rules, transcription rules of the polynomial routines, clone-faithfulness and multithreaded-gadget sibling rules over compiler MIR facts",
                design="DESIGN.md section 5 C05"),
    "C12": dict(technique="static analysis: typestate decision tables, operand-provenance (share order), effect reachability over the call graph",
                design="DESIGN.md section 5 C12"),
}

CLAIMS.update({
    "C03": dict(technique="static analysis: panic-precondition analysis over the full admissible (bits, level) range, stream-position agreement (loop/draw-count extraction) and guard-relation rules over MIR",
                design="DESIGN.md section 5 C03"),
    "C06": dict(technique="static analysis: who-may-construct and normalisation-dominance for cache keys, Eq/Hash projection agreement, insert/lookup index-relation agreement, interior-mutability scan of evaluator types, per-call key-derivation provenance, and term-by-term transcription of gen/eval against the draft's IDPF over MIR",
                design="DESIGN.md section 5 C06"),
    "C07": dict(technique="static analysis: symbolic byte-count identities (polynomial normal forms per variant path) between encode and encoded_len, tag-table extraction, canonical-form guard relations, equality coverage over MIR",
                design="DESIGN.md section 5 C07"),
    "C08": dict(technique="static analysis: panic-precondition analysis (interval evaluation of reconstructed operand terms under dominating guards, call-site substitution), loop-progress, tag-switch and narrowing-cast rules over MIR",
                design="DESIGN.md section 5 C08"),
    "C13": dict(technique="static analysis: guard-relation/dominance, write-before-refusal (effect on paths) and operand-provenance rules over MIR",
                design="DESIGN.md section 5 C13"),
    "C16": dict(technique="static analysis: panic-precondition analysis with api (caller-controlled) sources, syntactic taint propagation and sanitisation by dominating guards, plus a guard-relation table for constructors/encoders/role checks",
                design="DESIGN.md section 5 C16"),
    "C17": dict(technique="static analysis: interprocedural may-depend (explicit information flow, must-not-depend) over MIR with alias and closure handling",
                design="DESIGN.md section 5 C17"),
    "C18": dict(technique="static analysis: interprocedural may-depend (must-depend queries per XOF binding), absorption-shape, guard-relation and algorithm-identifier (constructor agreement, distinctness) rules over MIR",
                design="DESIGN.md section 5 C18"),
    "C09": dict(technique="static analysis (partial): number-theoretic relations of the compiler-evaluated field constants checked by integer arithmetic in the checker (orders of G and ROOTS, MU, R2, HALF, BIT_MASK, primality); accessor/wiring/projection term rules over MIR; the two Montgomery multipliers decided as a polynomial identity over Q on their straight-line single-assignment terms (high parts eliminated, interval range obligations for every machine operation) plus the reviewed conditional-subtraction shape",
                design="DESIGN.md section 5 C09"),
    "C10": dict(technique="static analysis (partial): guard-relation rules with thresholds evaluated against MAX_ROOTS/NUM_ROOTS, error propagation, and structural necessary conditions (loop ranges, butterfly stores, every-iteration updates, overwrite-not-accumulate) of the NTT and Lagrange routines over MIR; numerical equality with the definitions is not decided",
                design="DESIGN.md section 5 C10"),
    "C11": dict(technique="static analysis: absorption-shape, loop-range/offset term matching modulo normalisation, ordering-by-dominance (advance-before-classify, refill order), guard-relation and constant (mask = 2^bitlen(p)-1) rules over MIR",
                design="DESIGN.md section 5 C11"),
    "C14": dict(technique="static analysis: structural extraction of the rayon fold/map/reduce pipeline (identities are zero vectors, op is element-wise field addition), sibling agreement with the serial gadget and serial constructors, who-may-call rayon, captured-state write check over MIR (feature multithreaded)",
                design="DESIGN.md section 5 C14"),
    "C15": dict(technique="static analysis: algorithm-transcription rules (reconstructed terms, polynomial normal forms, loop/exit structure by dominance) against Canonne-Kamath-Steinke Algorithms 1-3, who-may-consume the RNG, per-type sensitivity terms and per-coordinate draw placement over MIR",
                design="DESIGN.md section 5 C15"),
    "C19": dict(technique="static analysis: guard-relation/dominance, decision-table and sibling-agreement (shared layout expression) rules over MIR",
                design="DESIGN.md section 5 C19"),
    "C20": dict(technique="static analysis: predicate-shape extraction (guard relations, quantifier form, closure bodies) and who-may-construct over MIR",
                design="DESIGN.md section 5 C20"),
})

NOT_APPLICABLE = {
    "C09": "arithmetic exactness over all operand pairs is a value property: no sound static argument in reach without "
           "bit-precise solving (another technique family); structural fragments do not imply it",
    "C10": "numerical equality of NTT/Lagrange routines with their definitions is a value property; index arithmetic is "
           "beyond the relational power of the analysis",
}

NOT_YET = "designed in DESIGN.md; its static check is not built yet, so nothing is claimed"


def main():
    props = [json.loads(l) for l in open(os.path.join(HERE, "properties.jsonl"))]
    checks = []
    na = []
    for p in props:
        pid = p["id"]
        if pid in CLAIMS and os.path.exists(os.path.join(HERE, "rules", pid.lower() + ".py")):
            mod = importlib.import_module("rules." + pid.lower())
            info = getattr(mod, "INFO", {})
            c = CLAIMS[pid]
            checks.append({
                "property_id": pid,
                "quick_cmd": "./check %s --tier quick" % pid,
                "thorough_cmd": "./check %s --tier thorough" % pid,
                "evidence_file": "/verif/evidence/%s.json" % pid,
                "replay_cmd_template": "./check %s --explain {path}" % pid,
                "engine": "sa",
                "technique": c["technique"],
                "level_claimed": {
                    "category": "other",
                    "text": info.get("explanation", ""),
                    "design_ref": c["design"],
                },
                "level_note": "Trusted base: " + "; ".join(info.get("trusted_base", [])) + ". Assumptions: " +
                              "; ".join(info.get("assumptions", [])) + ". Decides the named structural clauses on every "
                              "run from /repo's current MIR; does not execute the library.",
            })
        elif pid in NOT_APPLICABLE:
            na.append({"property_id": pid, "reason": NOT_APPLICABLE[pid]})
        else:
            na.append({"property_id": pid, "reason": NOT_YET})
    m = {
        "version": 1,
        "setup_cmd": "./setup.sh",
        "hooks": {
            "guard": "prio_verif",
            "enable": "none needed: the analyses read the unmodified source through a rustc_private driver "
                      "(RUSTC_WORKSPACE_WRAPPER under cargo +nightly check); the guard name is reserved and unused",
            "baseline_off_cmd": "cd /repo && cargo test --workspace --no-fail-fast --offline",
            "source_commits": [],
            "add_only": True,
        },
        "engines": [
            {"name": "sa", "path": "/verif/sa", "serves_properties": [c["property_id"] for c in checks],
             "kind_free_text": "rustc_private MIR fact extractor (driver/) + Python analyses: CFG/dominators, expression "
                               "reconstruction, guard relations, decision tables, equality coverage, effect reachability"},
        ],
        "checks": checks,
        "not_applicable": na,
        "notes": "Static analysis only. ./check <id> re-extracts facts from /repo's working tree on every run (cached by "
                 "tree hash). Exit 0 held / 1 VIOLATION / 2 infrastructure failure.",
    }
    json.dump(m, open(os.path.join(HERE, "MANIFEST.json"), "w"), indent=1)
    print("claimed:", [c["property_id"] for c in checks])


if __name__ == "__main__":
    main()
