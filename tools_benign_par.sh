#!/bin/bash
# like tools_benign.sh but on scratch copies of /repo (one per patch), N patches in parallel; /repo is never touched.
# usage: tools_benign_par.sh [-j N] [patches...]   -> prints "== patch" followed by any alarm (there should be none)
cd /verif
J=6
if [ "$1" = "-j" ]; then J=$2; shift 2; fi
IDS=${BENIGN_IDS:-$(python3 -c "import json;print(' '.join(c['property_id'] for c in json.load(open('MANIFEST.json'))['checks']))")}
run_one() {
  p=$1; n=$(basename $p .diff)
  d=$(mktemp -d /tmp/verif-benign.XXXXXX)
  mkdir -p $d/repo && git -C /repo archive HEAD | tar -x -C $d/repo     # the committed tree: immune to a patch applied to /repo meanwhile
  out="== $p"
  if ! (cd $d/repo && patch -p1 -s < /verif/$p); then echo "$out"; echo "  does not apply"; rm -rf $d; return; fi
  mkdir $d/ev
  for id in $IDS; do
    r=$(PRIO_REPO=$d/repo VERIF_EVIDENCE_DIR=$d/ev ./check $id 2>&1 | grep -E "rule=|INFRA" | cut -c1-230)
    [ -n "$r" ] && out="$out"$'\n'"$r"
  done
  echo "$out"
  rm -rf $d
}
export -f run_one; export IDS
ls ${@:-benign/*.diff benign/agents/*.diff benign/agents2/*.diff} | xargs -P $J -I{} bash -c 'run_one {}'
