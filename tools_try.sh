#!/bin/bash
# usage: tools_try.sh <patch.diff> <prop-id>...   — apply a patch to /repo, run checks, revert
p=$1; shift
git -C /repo apply "$p" || { echo "patch does not apply"; exit 3; }
for id in "$@"; do /verif/check $id 2>&1 | grep -E "VIOLATION|KNOWN|rule=|quick:|INFRA|Error|error" | cut -c1-400; done
git -C /repo checkout -- .
