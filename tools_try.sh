#!/bin/bash
# usage: tools_try.sh <patch.diff> <prop-id>...   — apply a patch to /repo, run checks, revert
p=$1; shift
# evidence of runs against mutated trees goes to a scratch directory, never to /verif/evidence
export VERIF_EVIDENCE_DIR=$(mktemp -d /tmp/verif-ev.XXXXXX)
if ! git -C /repo apply "$p" 2>/dev/null; then
  git -C /repo apply -3 "$p" 2>/dev/null || { echo "patch does not apply"; git -C /repo reset -q --hard; exit 3; }
fi
for id in "$@"; do /verif/check $id 2>&1 | grep -E "VIOLATION|KNOWN|rule=|quick:|INFRA|Error|error" | cut -c1-400; done
git -C /repo reset -q --hard
rm -rf "$VERIF_EVIDENCE_DIR"
