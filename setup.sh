#!/bin/bash
# Build the fact-extraction driver and warm the dependency cache (offline).
set -e
cd "$(dirname "$0")"
export CARGO_NET_OFFLINE=true
(cd driver && cargo +nightly build --offline 2>&1 | tail -3)
python3 sa/extract.py K2 >/dev/null
echo "setup ok"
