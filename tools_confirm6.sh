#!/bin/bash
# usage: tools_confirm.sh <PROP> <mN>  — re-verify a sub-agent mutation in its scratch worktree and store it under /verif/seeded
ID=$1; M=$2
W=/tmp/mut6/${ID}x; O=$W/out/$M; D=/verif/seeded/$ID-r6$M
export CARGO_TARGET_DIR=$W/target CARGO_NET_OFFLINE=true CARGO_BUILD_JOBS=4
cd $W || exit 2
git checkout -q -- . ; git clean -fdq tests src Cargo.toml 2>/dev/null
log=$O/confirm.log; : > $log
demo_name=$(ls $O/*.rs 2>/dev/null | head -1 | xargs -n1 basename 2>/dev/null | sed 's/\.rs$//')
run_demo() { # prints PASS/FAIL
  if [ -n "$demo_name" ] && have_tests_demo; then
    cargo test --offline --features ${FEATS:-experimental,test-util} --test $demo_name >> $log 2>&1 && echo PASS || echo FAIL
  else
    cargo test --workspace --offline >> $log 2>&1 && echo PASS || echo FAIL
  fi
}
apply_demo() {
  if [ -f $O/demo.diff ]; then git apply $O/demo.diff; else cp $O/$demo_name.rs tests/$demo_name.rs; fi
}
have_tests_demo() { [ ! -f $O/demo.diff ] || grep -q "tests/$demo_name.rs" $O/demo.diff; }
# 1. pristine + demo
apply_demo || { echo "demo does not apply" | tee -a $log; exit 3; }
r1=$(run_demo)
git checkout -q -- . ; git clean -fdq tests src 2>/dev/null
# 2. mutation only: full suite
git apply $O/patch.diff || { echo "patch.diff does not apply" | tee -a $log; exit 3; }
cargo test --workspace --offline > $O/suite.log 2>&1; rc=$?
passed=$(grep -E "^test result" $O/suite.log | awk '{s+=$4} END{print s}')
failed=$(grep -E "^test result" $O/suite.log | awk '{s+=$6} END{print s}')
r2="rc=$rc passed=$passed failed=$failed"
# 3. mutation + demo
apply_demo
r3=$(run_demo)
git checkout -q -- . ; git clean -fdq tests src 2>/dev/null
echo "$ID $M: demo-on-pristine=$r1 suite-with-mutation=[$r2] demo-with-mutation=$r3" | tee -a $log
if [ "$r1" = PASS ] && [ "$rc" = 0 ] && [ "$r3" = FAIL ]; then
  mkdir -p $D; cp $O/patch.diff $D/; cp $O/demo.diff $D/ 2>/dev/null; cp $O/*.rs $D/ 2>/dev/null; cp $O/README.md $D/AGENT_README.md 2>/dev/null
  echo "CONFIRMED $ID $M" | tee -a $log
  echo "{\"confirmed\": true, \"demo_on_pristine\": \"$r1\", \"suite_with_mutation\": \"$r2\", \"demo_with_mutation\": \"$r3\"}" > $D/confirm.json
else
  echo "NOT CONFIRMED $ID $M" | tee -a $log
fi
