from pat import *
from expr import fmt, walk
from harness import Skip
from guards import block_conditions
from rules.common import loop_covers_all, adapters_in

INFO = {
    "explanation": "GUARD/EFFECT/DEP rules over the MIR of the aggregation path (field::merge_vector, add_assign_vector, "
                   "AggregateShare and Poplar1FieldVec merge/accumulate, aggregate_init, Aggregator::aggregate, the "
                   "collectors): a length mismatch (and a level-kind mismatch) is refused before any write to the "
                   "accumulator on every path; the only write to an accumulator element is `+=` of the paired "
                   "element of the whole other vector; every aggregation starts from the zero vector of the output "
                   "length; every share of the batch is accumulated. Order/grouping independence itself reduces to "
                   "these clauses plus commutativity and associativity of field addition (C09, not decided).",
    "trusted_base": ["rustc type checker and MIR construction (nightly)", "expression reconstruction (sa/expr.py)"],
    "assumptions": ["field addition is commutative and associative (C09 is not decided by static analysis)"],
}


def merge_vector_rules(ctx, rule="R-C13.G.merge_vector"):
    """merge_vector refuses a length mismatch before it writes and adds the whole other vector (shared with C04: the sketch
    combiner merges the two verifier shares with it, so a silently truncated share would be accepted)"""
    try:
        f = ctx.fn(rule, name="merge_vector", id_re=r"^field::merge_vector$")
        g = ctx.guards(f)
        ctx.require_guard(rule, f, "Ne", Len(Arg(1)), Len(Arg(2)), desc="len(accumulator) != len(other) -> Err")
        # atomicity: no use of the accumulator other than len() can be followed by an Err return
        key = "%s:%s:no-write-before-refusal" % (rule, f.id)
        bad = []
        nuse = 0
        for bi, t in f.body.calls():
            ce = g.eb.call_expr(t)
            if ce[0] == "call" and any(Arg(1)(a) for a in ce[2]):
                nuse += 1
                reach = f.body.reach_from(bi)
                if any(rd.kind == "err" and rd.block in reach for rd in g.retdefs):
                    bad.append(fmt(ce)[:80])
        if not bad and nuse >= 1:
            ctx.ok(rule, key, "the accumulator is handed to a callee only on paths that cannot return Err any more (%d use)" % nuse, loc=f.loc)
        else:
            ctx.bad(rule, key, "the accumulator may be written before a refusal: %s" % bad, loc=f.loc)
        # the addition covers the whole other vector
        key = "%s:%s:adds-whole-vector" % (rule, f.id)
        adds = [g.eb.call_expr(t) for bi, t in f.body.calls() if t.callee.name == "add_assign_vector"]
        if len(adds) == 1 and Arg(1)(adds[0][2][0]) and Arg(2)(adds[0][2][1]) and not adapters_in(adds[0]):
            ctx.ok(rule, key, "add_assign_vector(accumulator, other.iter().copied())", loc=f.loc)
        else:
            ctx.bad(rule, key, "merge_vector does not add the whole other vector into the whole accumulator: %s" % [fmt(a)[:120] for a in adds], loc=f.loc)
    except Skip:
        pass
    ctx.floor(rule, 3)


def run(ctx):
    merge_vector_rules(ctx)
    rule = "R-C13.P.elementwise"
    for nm in ("add_assign_vector",):
        try:
            f = ctx.fn(rule, name=nm, id_re=r"^field::%s$" % nm)
            g = ctx.guards(f)
            writes = []
            for bi, t in f.body.calls():
                if t.callee.name in ("add_assign", "sub_assign", "mul_assign") or (t.callee.name or "").endswith("_assign"):
                    writes.append((bi, t, g.eb.call_expr(t)))
            # direct stores through a deref
            stores = [s for bi, si, s in f.body.iter_stmts() if s.place and "*" in s.place[1] and s.place[0] != 0]
            key = "%s:%s:only-paired-add" % (rule, f.id)
            good = len(writes) == 1 and writes[0][1].callee.name == "add_assign" and not stores
            src = None
            if good:
                bi, t, ce = writes[0]
                x, y = ce[2][0], ce[2][1]
                pair = lambda i: (lambda e: e[0] == "field" and e[2] == str(i) and Mentions(Call("next"))(e))
                good = pair(0)(x) and pair(1)(y)
                class _E:
                    block = bi
                src = ctx.loop_source(f, _E)
                good = good and src is not None and Call("zip", Mentions(Arg(1)), Arg(2))(src) and not adapters_in(src)
            if good:
                ctx.ok(rule, key, "the only write is `*x += y` for (x, y) in %s" % fmt(src)[:120], loc=f.loc)
            else:
                ctx.bad(rule, key, "accumulation is not a plain element-wise `+=` over zip(a.iter_mut(), b): writes=%s stores=%d source=%s" % (
                    [fmt(w[2])[:100] for w in writes], len(stores), fmt(src)[:120] if src else None), loc=f.loc)
        except Skip:
            pass
    ctx.floor(rule, 1)

    rule = "R-C13.G.aggshare"
    # merge / accumulate add the whole other vector through merge_vector (which checks the lengths before it writes) and
    # propagate its refusal - directly, or through the private `sum` helper of the reviewed tree (either layout is accepted)
    mv_direct = Call("merge_vector", Field(Arg(1), "0"), Mentions(Arg(2)))

    def whole(e):
        """the other vector is handed over whole: no sub-slice (x[a..b], split_at, first/last chunk, ..) anywhere in the argument"""
        for x in walk(e):
            if isinstance(x, tuple) and x and x[0] in ("slice",):
                return False
            if isinstance(x, tuple) and x and x[0] == "call" and len(x) > 4 and (x[4] in ("std::ops::Index::index", "std::ops::IndexMut::index_mut") or
                                                                                   str(x[1]).split("::")[-1] in ("split_at", "split_first", "split_last", "get", "first_chunk", "last_chunk", "chunks", "truncate")):
                return False
        return True
    has_sum = bool(ctx.prog.find(name="sum", self_adt="vdaf::AggregateShare"))
    n_inst = 0
    for nm in ("merge", "accumulate"):
        try:
            f = ctx.fn(rule, name=nm, trait="Aggregatable", self_adt="vdaf::AggregateShare")
            g = ctx.guards(f)
            key = "%s:%s" % (rule, f.id)
            rds = g.retdefs
            n_inst += 1
            if has_sum and len(rds) == 1 and rds[0].kind == "call" and Call("sum", Arg(1), Mentions(Arg(2)))(rds[0].expr) and not adapters_in(rds[0].expr) \
                    and whole(rds[0].expr):
                ctx.ok(rule, key, "%s = self.sum(other.as_ref())" % nm, loc=f.loc)
                continue
            writes = [ce for bi, t in f.body.calls() for ce in [g.eb.call_expr(t)] if t.callee.name in ("merge_vector", "add_assign", "push", "extend", "clear", "truncate")]
            if len(writes) == 1 and mv_direct(writes[0]) and not adapters_in(writes[0]) and whole(writes[0]) and \
                    ctx.require_try_call(rule, f, mv_direct, desc="merge_vector(self.0, other)", key=key + ":propagated") is not None:
                ctx.ok(rule, key, "%s = merge_vector(&mut self.0, whole other vector) with its refusal propagated" % nm, loc=f.loc)
            else:
                ctx.bad(rule, key, "%s is not a plain delegation to merge_vector(whole other vector): %s" % (nm, [fmt(r.expr)[:120] for r in rds]), loc=f.loc)
        except Skip:
            pass
    if has_sum:
        try:
            f = ctx.fn(rule, name="sum", self_adt="vdaf::AggregateShare")
            g = ctx.guards(f)
            key = "%s:%s" % (rule, f.id)
            rds = g.retdefs
            n_inst += 1
            if len(rds) == 1 and rds[0].kind == "call" and Call("map_err", Call("merge_vector", Field(Arg(1), "0"), Arg(2)))(rds[0].expr):
                ctx.ok(rule, key, "sum = merge_vector(&mut self.0, other).map_err(..)", loc=f.loc)
            else:
                ctx.bad(rule, key, "sum is not merge_vector(&mut self.0, other).map_err(..): %s" % [fmt(r.expr)[:120] for r in rds], loc=f.loc)
        except Skip:
            pass
    ctx.floor(rule, 2)

    rule = "R-C13.G.poplar1"
    for nm in ("merge", "accumulate"):
        try:
            f = ctx.fn(rule, name=nm, trait="Aggregatable", self_adt="vdaf::poplar1::Poplar1FieldVec")
            g = ctx.guards(f)
            from guards import decision_table
            table = decision_table(g)
            okk = len(table) == 2
            seen = set()
            for rd, conds in table:
                vs = [(c[2]) for c in conds if c[0] == "variant" and c[3] and c[2] in ("Inner", "Leaf")]
                kind = vs[0] if vs else None
                if not (len(vs) == 2 and vs[0] == vs[1]):
                    okk = False
                    continue
                seen.add(kind)
                want = Agg("Result::Ok", Try(Call("merge_vector", Field(Arg(1), name="0", variant=kind), Field(Arg(2), name="0", variant=kind))))
                if not want(rd.expr):
                    okk = False
            key = "%s:%s:same-kind-only" % (rule, f.id)
            if okk and seen == {"Inner", "Leaf"}:
                ctx.ok(rule, key, "%s adds only same-kind vectors via merge_vector; mixed kinds are refused" % nm, loc=f.loc)
            else:
                ctx.bad(rule, key, "%s can accept without both operands having the same level kind, or does not go through merge_vector" % nm, loc=f.loc)
            # no other mutation of self
            muts = [t.callee.name for bi, t in f.body.calls() if t.callee.name not in ("merge_vector", "branch", "from_residual", "into", "from", "deref", "deref_mut", "as_mut", "as_ref", "as_mut_slice", "as_slice")
                    and any(Mentions(Arg(1))(g.eb.operand(a)) for a in t.args)]
            key = "%s:%s:no-other-writes" % (rule, f.id)
            if not muts:
                ctx.ok(rule, key, "self is only handed to merge_vector", loc=f.loc)
            else:
                ctx.bad(rule, key, "self is also handed to: %s" % muts, loc=f.loc)
        except Skip:
            pass
    ctx.floor(rule, 4)

    rule = "R-C13.Z.init"
    zero_vec = lambda lenp: Call("from_elem", Call("zero"), lenp)
    try:
        f = ctx.fn(rule, name="aggregate_init", trait="Aggregator", self_adt="vdaf::prio3::Prio3")
        g = ctx.guards(f)
        key = "%s:%s" % (rule, f.id)
        if len(g.retdefs) == 1 and Agg("AggregateShare", zero_vec(Call("output_len")))(g.retdefs[0].expr):
            ctx.ok(rule, key, "zero vector of output_len()", loc=f.loc)
        else:
            ctx.bad(rule, key, "aggregate_init is not the zero vector of the output length: %s" % [fmt(r.expr)[:100] for r in g.retdefs], loc=f.loc)
    except Skip:
        pass
    try:
        f = ctx.fn(rule, name="aggregate_init", trait="Aggregator", self_adt="vdaf::prio2::Prio2")
        g = ctx.guards(f)
        key = "%s:%s" % (rule, f.id)
        if len(g.retdefs) == 1 and Agg("AggregateShare", zero_vec(Field(Arg(1), "input_len")))(g.retdefs[0].expr):
            ctx.ok(rule, key, "zero vector of input_len", loc=f.loc)
        else:
            ctx.bad(rule, key, "aggregate_init is not the zero vector of the input length: %s" % [fmt(r.expr)[:100] for r in g.retdefs], loc=f.loc)
    except Skip:
        pass
    is_leaf = lambda selfp, param: Bin("Eq", ThroughCasts(Field(param, "level")), Bin("Sub", Field(selfp, "bits"), Lit(1)), commutative=True)
    try:
        f = ctx.fn(rule, name="aggregate_init", trait="Aggregator", self_adt="vdaf::poplar1::Poplar1")
        g = ctx.guards(f)
        key = "%s:%s" % (rule, f.id)
        if len(g.retdefs) == 1 and Call("zero", is_leaf(Arg(1), Arg(2)), Len(Field(Arg(2), "prefixes")))(g.retdefs[0].expr):
            ctx.ok(rule, key, "Poplar1FieldVec::zero(level == bits - 1, prefixes.len())", loc=f.loc)
        else:
            ctx.bad(rule, key, "aggregate_init is not zero(level == bits-1, prefixes.len()): %s" % [fmt(r.expr)[:140] for r in g.retdefs], loc=f.loc)
    except Skip:
        pass
    try:
        f = ctx.fn(rule, name="zero", self_adt="vdaf::poplar1::Poplar1FieldVec")
        g = ctx.guards(f)
        key = "%s:%s" % (rule, f.id)
        from guards import decision_table
        rows = {}
        for rd, conds in decision_table(g, refusal_kinds=()):
            pol = [c[2] for c in conds if c[0] == "truth" and Arg(1)(c[1])]
            kind = "Leaf" if Agg("Poplar1FieldVec::Leaf", zero_vec(Arg(2)))(rd.expr) else ("Inner" if Agg("Poplar1FieldVec::Inner", zero_vec(Arg(2)))(rd.expr) else "?")
            rows[kind] = pol
        if rows == {"Leaf": [True], "Inner": [False]}:
            ctx.ok(rule, key, "zero(is_leaf, len) = Leaf/Inner zero vector of length len", loc=f.loc)
        else:
            ctx.bad(rule, key, "Poplar1FieldVec::zero is not (is_leaf -> Leaf zeros(len), else Inner zeros(len)): %s" % rows, loc=f.loc)
    except Skip:
        pass
    # collectors start from zero as well
    try:
        f = ctx.fn(rule, name="unshard", trait="Collector", self_adt="vdaf::prio3::Prio3")
        g = ctx.guards(f)
        key = "%s:%s" % (rule, f.id)
        accs = [rd for rd in g.retdefs if rd.kind in ("ok", "call") and rd.expr is not None]     # `Ok(r?)` or the mapped result returned as is
        good = False
        if len(accs) == 1:
            phis = [x for x in walk(accs[0].expr) if isinstance(x, tuple) and x[0] == "phi"]
            for ph in phis:
                init = g.eb.init_expr(ph[1])
                if init is not None and Agg("AggregateShare", zero_vec(Call("output_len")))(init):
                    good = True
        if good:
            ctx.ok(rule, key, "unshard starts from the zero vector of output_len()", loc=f.loc)
        else:
            ctx.bad(rule, key, "unshard does not start from the zero vector of the output length", loc=f.loc)
    except Skip:
        pass
    try:
        f = ctx.fn(rule, name="aggregate", id_re=r"^vdaf::poplar1::aggregate$")
        g = ctx.guards(f)
        key = "%s:%s" % (rule, f.id)
        accs = [rd for rd in g.retdefs if rd.kind == "ok"]
        good = False
        if len(accs) == 1 and accs[0].payload is not None and accs[0].payload[0] == "phi":
            init = g.eb.init_expr(accs[0].payload[1])
            good = init is not None and Call("zero", Arg(1), Arg(2))(init)
        if good:
            ctx.ok(rule, key, "poplar1::aggregate starts from Poplar1FieldVec::zero(is_leaf, len)", loc=f.loc)
        else:
            ctx.bad(rule, key, "poplar1::aggregate does not start from zero(is_leaf, len)", loc=f.loc)
        f2 = ctx.fn(rule, name="unshard", trait="Collector", self_adt="vdaf::poplar1::Poplar1")
        g2 = ctx.guards(f2)
        key = "%s:%s" % (rule, f2.id)
        calls = [g2.eb.call_expr(t) for bi, t in f2.body.calls() if t.callee.name == "aggregate"]
        if len(calls) == 1 and is_leaf(Arg(1), Arg(2))(calls[0][2][0]) and Len(Field(Arg(2), "prefixes"))(calls[0][2][1]) and Arg(3)(calls[0][2][2]):
            ctx.ok(rule, key, "unshard = aggregate(level == bits-1, prefixes.len(), all shares)", loc=f2.loc)
        else:
            ctx.bad(rule, key, "unshard does not aggregate(level == bits-1, prefixes.len(), agg_shares): %s" % [fmt(c)[:140] for c in calls], loc=f2.loc)
    except Skip:
        pass
    ctx.floor(rule, 7)

    rule = "R-C13.L.every-share"
    specs = [("aggregate", r"^vdaf::Aggregator::aggregate$", "accumulate", 3),
             ("aggregate", r"^vdaf::poplar1::aggregate$", "accumulate", 3),
             ("unshard", r"<vdaf::prio3::Prio3<.*> as vdaf::Collector>::unshard$", "merge", 3),
             ("unshard", r"<vdaf::prio2::Prio2 as vdaf::Collector>::unshard$", "merge", 3)]
    for nm, idre, callee, argi in specs:
        try:
            f = ctx.fn(rule, name=nm, id_re=idre)
            g = ctx.guards(f)
            e = None
            for ed in g.edges:
                c = ed.cond
                if c[0] == "variant" and c[2] == "Break" and c[3] and c[1][0] == "call" and c[1][2] and Call(callee)(c[1][2][0]):
                    e = ed
            key = "%s:%s" % (rule, f.id)
            if e is None:
                ctx.bad(rule, key, "no `%s(..)?` in a loop found" % callee, loc=f.loc)
                continue
            if not (set(rd.kind for rd in e.leads) <= {"err"} and g.covers_every_iteration(e)):
                ctx.bad(rule, key, "the error of %s is not propagated on every iteration" % callee, loc=f.loc)
                continue
            loop_covers_all(ctx, rule, f, e, Arg(argi), "%s(every share)?" % callee, key=key)
        except Skip:
            pass
    ctx.floor(rule, 4)
