from pat import *
from expr import fmt, walk
from harness import Skip
from rules import flp_guards, flp_shape
from rules.common import loop_covers_all, eqcov_impl

INFO = {
    "explanation": "Static GUARD/EQCOV rules over the MIR of Prio3's verification path and the FLP decide/query core: "
                   "every rejection mechanism the property anchors (decide's circuit-output and per-gadget checks, the "
                   "per-share verifier-length check, the share-count check, decide() on every proof chunk, the "
                   "constant-time joint-randomness seed comparison over whole seeds, the range check over the whole "
                   "input) is present with the stated operands and relation, refuses on every path and dominates "
                   "every accepting return. Shared necessary conditions: a cloned circuit is the same circuit (hand-written Clone impls, R-C02.CL) and the multithreaded gadget computes what the serial one does (R-C14.*), so the rejection logic is the same for those instances. The soundness error and the validity-circuit algebra are NOT decided.",
    "trusted_base": ["rustc type checker and MIR construction (nightly)", "expression reconstruction over MIR (sa/expr.py)"],
    "assumptions": ["refusal = Err return (Ok(false) in decide); field arithmetic is correct (C09, not decided here)"],
}

PRIO3 = "vdaf::prio3::Prio3"


def is_jr_bypass(e):
    """edge taken when typ.joint_rand_len() is 0 (types without joint randomness)"""
    c = e.cond
    return c[0] == "rel" and c[1] in ("Le", "Eq") and Mentions(Call("joint_rand_len"))(c[2]) and Lit(0)(c[3])


def combine_rules(ctx, rule):
    """share-length, share-count and decide-every-proof rules of Prio3::verifier_shares_to_message (shared with C16)"""
    # --- verifier_shares_to_message
    try:
        f = ctx.fn(rule, name="verifier_shares_to_message", trait="Aggregator", self_adt=PRIO3)
        g = ctx.guards(f)
        e = ctx.require_guard(rule, f, "Ne", Len(Field(Any(), "verifiers")), Len(Any()), every_iteration=True,
                              desc="len(share.verifiers) != len(verifiers)  [every share]")
        if e is not None:
            # the accumulator it is compared with has length verifier_len() * num_proofs()
            c = e.cond
            acc = c[3] if Len(Field(Any(), "verifiers"))(c[2]) else c[2]
            key = "%s:%s:accumulator-length" % (rule, f.id)
            init = None
            if acc[0] == "len" and acc[1][0] == "phi":
                init = g.eb.init_expr(acc[1][1])
            elif acc[0] == "len":
                init = acc[1]
            if init is not None and Mentions(Call("verifier_len"))(init) and Mentions(Call("num_proofs"))(init):
                ctx.ok(rule, key, "accumulator is %s" % fmt(init)[:160], loc=f.loc)
            else:
                ctx.bad(rule, key, "verifier accumulator is not of length verifier_len()*num_proofs(): %s" % (
                    fmt(init)[:160] if init else None), loc=f.loc)
            loop_covers_all(ctx, rule, f, e, Arg(4), "share loop iterates the whole `inputs` iterator")
        # count check
        e = ctx.require_guard(rule, f, "Ne", Any(), ThroughCasts(Field(Arg(1), "num_aggregators")),
                              desc="count != self.num_aggregators")
        if e is not None:
            c = e.cond
            cnt = c[2] if ThroughCasts(Field(Arg(1), "num_aggregators"))(c[3]) else c[3]
            key = "%s:%s:count-increments-per-share" % (rule, f.id)
            okc = False
            if cnt[0] == "phi":
                # every whole-definition of the counter is `0` or `counter + 1`, and the increment is in
                # the share loop on every iteration
                l = cnt[1]
                defs = [d for d in f.body.defs.get(l, []) if d[2] == "whole"]
                incs = 0
                okc = True
                for (bi, si, _) in defs:
                    if si == "term":
                        okc = False
                        continue
                    ex = g.eb.rvalue(f.body.blocks[bi].stmts[si].rv)
                    if Lit(0)(ex):
                        continue
                    if Bin("Add", Any(), Lit(1), commutative=True)(ex):
                        lp = g.loop_of(bi)
                        if lp is not None:
                            latches = [t for (t, hh) in f.body.back_edges() if hh == lp[0]]
                            if all(f.body.dominates(bi, t) for t in latches):
                                incs += 1
                                continue
                    okc = False
                okc = okc and incs == 1
            if okc:
                ctx.ok(rule, key, "count starts at 0 and is incremented once on every iteration of the share loop", loc=f.loc)
            else:
                ctx.bad(rule, key, "the compared counter is not `one increment per share`: %s" % fmt(cnt)[:120], loc=f.loc)
        # decide on every chunk
        dec = None
        for ed in g.edges:
            c = ed.cond
            if c[0] == "truth" and c[2] is False and Try(Call("decide"))(c[1]):
                dec = ed
        key = "%s:%s:decide-every-chunk" % (rule, f.id)
        if dec is None:
            ctx.bad(rule, key, "no `!decide(chunk)?` refusal found", loc=f.loc)
        else:
            kinds = set(rd.kind for rd in dec.leads)
            if kinds <= {"err"} and kinds and g.covers_every_iteration(dec):
                ctx.ok(rule, key, "refuses when %s" % fmt(dec.cond[1])[:160], loc="%s:%s" % (f.file, dec.line))
            else:
                ctx.bad(rule, key, "`!decide(chunk)?` does not refuse on every iteration (leads=%s)" % sorted(kinds), loc=f.loc)
            src = ctx.loop_source(f, dec)
            key = "%s:%s:decide-loop-covers-all-proofs" % (rule, f.id)
            lp = g.loop_of(dec.block)
            hdr_dom = all(f.body.dominates(lp[0], rd.block) for rd in g.accept_defs(("err",)))
            adapters = [x[1] for x in walk(src) if isinstance(x, tuple) and x[0] == "call"
                        and x[1].split("::")[-1] in ("skip", "take", "step_by", "filter", "rev", "skip_while", "take_while")] if src else ["?"]
            good = src is not None and Call("chunks", Any(), Mentions(Call("verifier_len")))(src) and not adapters and hdr_dom
            # the chunked vector must be the accumulated verifier sum
            if good:
                ctx.ok(rule, key, "decide loop iterates %s; header dominates the accepting return" % fmt(src)[:160], loc=f.loc)
            else:
                ctx.bad(rule, key, "decide loop does not cover every proof's verifier: source=%s adapters=%s header-dominates=%s" % (
                    fmt(src)[:160] if src else None, adapters, hdr_dom), loc=f.loc)
            # decide must also be propagated with `?`
            ctx.require_try_call(rule, f, Call("decide"), dominates=False, desc="decide(chunk)?",
                                 key="%s:%s:decide-error-propagated" % (rule, f.id))
    except Skip:
        pass



def run(ctx):
    # a cloned circuit must check what the original checks (hand-written Clone impls, shared with C01), and the multithreaded
    # gadget must compute what the serial one does (shared with C14): otherwise invalid reports pass for those instances
    from rules.common import clone_faithful
    clone_faithful(ctx, "R-C02.CL")
    from rules import c14
    c14.run(ctx)
    # decide + query core (shared with C05)
    flp_guards.decide_guards(ctx, rule="R-C02.G.decide")
    flp_guards.query_guards(ctx, rule="R-C02.G.query")

    combine_rules(ctx, "R-C02.G.combine")

    # --- verify_next: joint randomness seed comparison
    rule = "R-C02.G.seedcheck"
    try:
        f = ctx.fn(rule, name="verify_next", trait="Aggregator", self_adt=PRIO3)
        ctx.require_guard(rule, f, "Ne", Mentions(Field(Arg(3), "joint_rand_seed")), Mentions(Field(Arg(4), "joint_rand_seed")),
                          ct=True, bypass=is_jr_bypass,
                          desc="state.joint_rand_seed ct-ne message.joint_rand_seed (unless joint_rand_len()==0)")
        # the only accepting return is Finish(OutputShare(..)) whose payload derives from the state share
        g = ctx.guards(f)
        key = "%s:%s:finish-payload" % (rule, f.id)
        acc = g.accept_defs(("err",))
        good = bool(acc)
        for rd in acc:
            if not (rd.kind == "ok" and rd.payload is not None and Agg("VerifyTransition::Finish")(rd.payload)):
                good = False
        if good:
            ctx.ok(rule, key, "every accepting return is Ok(Finish(..))", loc=f.loc)
        else:
            ctx.bad(rule, key, "unexpected accepting return in verify_next: %s" % [fmt(r.expr)[:80] for r in acc], loc=f.loc)
    except Skip:
        pass

    # --- whole-operand comparison of seeds and of the verification messages
    rule = "R-C02.E"
    for adt in ("vdaf::xof::Seed", "vdaf::prio3::Prio3VerifierMessage", "vdaf::prio3::Prio3VerifierShare",
                "vdaf::prio3::Prio3VerifyState", "vdaf::prio3::Prio3PublicShare", "vdaf::prio3::Prio3InputShare"):
        eqcov_impl(ctx, rule, adt, "ct_eq", "ConstantTimeEq")
    ctx.floor(rule, 6)

    # --- range checks cover the whole input
    rule = "R-C02.G.range"
    try:
        f = ctx.fn(rule, name="parallel_sum_range_checks", id_re=r"^flp::types::parallel_sum_range_checks$")
        g = ctx.guards(f)
        # the loop that calls gadget.eval iterates input.chunks(chunk_length) zipped with joint randomness
        evals = [bi for bi, t in f.body.calls() if t.callee.name == "eval"]
        key = "%s:%s:chunks-whole-input" % (rule, f.id)
        good = False
        src = None
        for bi in evals:
            lp = g.loop_of(bi)
            if lp is None:
                continue
            class _E:  # minimal edge-like
                block = bi
            src = ctx.loop_source(f, _E)
            if src is None:
                continue
            adapters = [x[1] for x in walk(src) if isinstance(x, tuple) and x[0] == "call"
                        and x[1].split("::")[-1] in ("skip", "take", "step_by", "filter", "rev", "skip_while", "take_while")]
            if Mentions(Call("chunks", Arg(2), Arg(4)))(src) and Mentions(Arg(3))(src) and not adapters:
                good = True
        if good:
            ctx.ok(rule, key, "range-check loop iterates %s" % fmt(src)[:160], loc=f.loc)
        else:
            ctx.bad(rule, key, "range-check loop is not input.chunks(chunk_length).zip(joint_rand) over the whole input: %s" % (
                fmt(src)[:160] if src else None), loc=f.loc)
    except Skip:
        pass
    for f in ctx.fns(rule, 6, name="valid", trait="Flp"):
        if f.impl is None:
            continue
        g = ctx.guards(f)
        calls = [g.eb.call_expr(t) for bi, t in f.body.calls() if t.callee.name == "parallel_sum_range_checks"]
        for c in calls:
            key = "%s:%s:range-check-whole-input" % (rule, f.id)
            if Arg(3)(c[2][1]) and Arg(4)(c[2][2]) and Arg(5)(c[2][4]):
                ctx.ok(rule, key, "%s passes the whole input, joint randomness and num_shares" % f.id, loc=f.loc)
            else:
                ctx.bad(rule, key, "range check is not applied to the whole input/joint randomness: %s" % fmt(c)[:200], loc=f.loc)
            # its error is propagated and its result reaches the returned vector
            ctx.require_try_call(rule, f, Call("parallel_sum_range_checks"), dominates=True,
                                 desc="parallel_sum_range_checks(..)", key="%s:%s:range-check-propagated" % (rule, f.id)) \
                if not any(rd.kind == "call" for rd in g.retdefs) else ctx.ok(rule, "%s:%s:range-check-propagated" % (rule, f.id), "tail position", loc=f.loc)
    # the range check zips input chunks with the joint randomness: a joint_rand_len below
    # ceil(input_len / chunk_length) silently leaves the last chunk(s) unchecked
    flp_shape.run_shape(ctx, "R-C02.S")
    ctx.floor("R-C02.S", 40)
    ctx.floor("R-C02.G.range", 9)
    ctx.floor("R-C02.G.combine", 7)
    ctx.floor("R-C02.G.seedcheck", 2)
    ctx.floor("R-C02.G.decide", 6)
