from pat import *
from expr import fmt, walk
from harness import Skip
import ppa as P
from rules.ppa_reviewed import REVIEWED

INFO = {
    "explanation": "PPA (panic-precondition analysis) over the MIR of the closure of every Decode / ParameterizedDecode impl and "
                   "the codec helpers: every panic edge (overflow / bounds / division asserts, std operator impls on integer "
                   "references, unwrap/expect, range indexing, split_at, copy_from_slice, allocation sizes, explicit panics) "
                   "is discharged by interval evaluation of the reconstructed operand terms, where values read from the "
                   "wire range over their full type, in-memory lengths and instance fields obey assumption A1 and the "
                   "constructor-established field table, and the relations of the conditional edges every feasible path "
                   "must take are applied. Additionally: wire-derived allocation sizes must be bounded by the remaining "
                   "input; every decode loop must make progress; a switch on a wire integer must default to Err; no "
                   "narrowing cast of an out-of-range wire value. Intervals are over ALL byte strings, not samples. "
                   "'Promptly' beyond loop progress and serde Deserialize impls are not decided.",
    "trusted_base": ["rustc type checker and MIR construction (nightly)", "std model table in sa/ppa.py",
                     "reviewed exceptions in rules/ppa_reviewed.py", "instance-field invariant table in sa/ppa.py"],
    "assumptions": ["A1: lengths of in-memory objects and usize instance fields are < 2^56",
                    "decoding parameters are instances built by the public constructors (field table)"],
}

CONSUMING = ("read_exact", "read_u8", "read_u16", "read_u32", "read_u64")


def decode_scope(prog):
    roots = [f for f in prog.fns if f.name in ("decode", "decode_with_param") and f.impl_trait in ("codec::Decode", "codec::ParameterizedDecode")
             and not prog.is_test_util(f)]
    roots += [f for f in prog.fns if f.name in ("get_decoded", "get_decoded_with_param") and f.in_trait and f.impl is None]
    roots += [f for f in prog.fns if f.id.startswith("codec::decode_") and f.kind == "Fn"]
    scope = [f for f in prog.reachable_fns(roots) if not prog.is_test_util(f)]
    return roots, scope


def run_ppa(ctx, rule, ppa, scope, floor):
    n = 0
    nrev = 0
    for f in sorted(scope, key=lambda f: f.id):
        seen_keys = {}
        for o in P.enumerate_obligations(ppa, f):
            n += 1
            ok, why = P.decide(ppa, o)
            okey = o.key()
            seen_keys[okey] = seen_keys.get(okey, 0) + 1
            if seen_keys[okey] > 1:
                okey = "%s#%d" % (okey, seen_keys[okey])      # identical operand text twice in one function: number them
            key = "%s:%s" % (rule, okey)
            loc = "%s:%s" % (f.file, o.line)
            if not ok:
                ok2, why2 = P.decide_at_callers(ppa, o)
                if ok2:
                    ok, why = True, why2
            if ok:
                ctx.ok(rule, key, why[:200], loc=loc, nontrivial=not why.startswith("not a partial"),
                       sample={"rule": rule, "fn": f.id, "edge": o.kind, "operands": [fmt(t)[:80] for t in o.terms], "discharged_by": why[:160]})
            elif o.key() in REVIEWED:
                nrev += 1
                ctx.ok(rule, key, "reviewed exception: " + REVIEWED[o.key()], loc=loc)
            else:
                ctx.bad(rule, key, "%s: panic edge `%s` not discharged: %s" % (f.id, o.kind, why), loc=loc)
    ctx.count("panic_edges", n)
    ctx.count("reviewed_exceptions_used", nrev)
    ctx.floor(rule, floor)


def run(ctx):
    prog = ctx.prog
    roots, scope = decode_scope(prog)
    if len(roots) < 40:
        ctx.bad("R-C08.P", "R-C08.P:roots", "expected at least 40 decoder roots, found %d" % len(roots), kind="anchor")
    ppa = P.PPA(prog, scope, roots, adversarial_roots=False)
    ctx.count("decoder_roots", len(roots))
    ctx.count("functions_in_closure", len(scope))
    run_ppa(ctx, "R-C08.P", ppa, scope, 100)

    # ---------------- loop progress
    rule = "R-C08.L"
    nloops = 0
    for f in sorted(scope, key=lambda f: f.id):
        g = ppa.guards(f)
        b = f.body
        for h, blocks in sorted(b.loops().items()):
            nloops += 1
            key = "%s:%s:loop" % (rule, f.id)
            # iterator-driven?
            nexts = [(bi, b.blocks[bi].term) for bi in sorted(blocks) if b.blocks[bi].term.kind == "call"
                     and b.blocks[bi].term.callee.path == "std::iter::Iterator::next"]
            latches = [t for (t, hh) in b.back_edges() if hh == h]
            iter_driven = [bi for bi, t in nexts if all(b.dominates(bi, l) for l in latches)]
            if iter_driven:
                bi = iter_driven[0]
                t = b.blocks[bi].term
                it = g.eb.operand(t.args[0])
                init = g.eb.init_expr(it[1]) if it[0] == "phi" else it
                key = "%s:%s:for(%s)" % (rule, f.id, P.norm_text(init)[:80] if init else "?")
                env = P.Env(ppa, f, adversarial=False)
                conds = P.path_conditions(ppa, env, g, h)
                ppa.apply_conditions(env, conds)
                rng = ppa.range_of_iter(env, init, 0) if init is not None else None
                if rng is not None and rng.hi > P.SIZE:
                    # an unbounded count is still fine if every iteration consumes input and fails at EOF
                    consuming = [x for x in sorted(blocks) if b.blocks[x].term.kind == "call" and
                                 (b.blocks[x].term.callee.name in CONSUMING or (b.blocks[x].term.callee.name or "").startswith("decode"))
                                 and all(b.dominates(x, l) for l in latches)]
                    if not consuming:
                        ctx.bad(rule, key, "%s: loop count %r is not bounded and the body does not consume input on every iteration" % (f.id, rng), loc=f.loc)
                        continue
                ctx.ok(rule, key, "iterator loop over %s (finite source)" % (fmt(init)[:80] if init else "?"), loc=f.loc)
                continue
            # condition-driven loop: needs a call on every iteration that consumes >= 1 byte
            calls = [(x, b.blocks[x].term) for x in sorted(blocks) if b.blocks[x].term.kind == "call" and all(b.dominates(x, l) for l in latches)]
            prog_ok = False
            why = ""
            for x, t in calls:
                c = t.callee
                if c.name in CONSUMING:
                    prog_ok = True
                if c.name in ("decode", "decode_with_param"):
                    tg = prog.resolve_call(c, cha=False)
                    if c.rpath is not None and P.WIRE_DECODE.match(c.rfull or ""):
                        prog_ok = True
                    elif c.rpath is None:
                        why = "the only consumer is the generic `%s`, which may decode zero bytes (a zero-width item type exists: `()`)" % c.full
            names = sorted(set(t.callee.name for x, t in calls if t.callee.name))
            key = "%s:%s:while(%s)" % (rule, f.id, ",".join(names)[:80])
            if prog_ok:
                ctx.ok(rule, key, "condition-driven loop consumes at least one byte per iteration", loc=f.loc)
            else:
                ctx.bad(rule, key, "%s: condition-driven loop is not guaranteed to make progress: %s" % (f.id, why or "no consuming call on every iteration"), loc=f.loc)
    ctx.count("loops", nloops)
    ctx.floor(rule, 10)

    # ---------------- tag switches default to Err
    rule = "R-C08.D"
    for f in sorted(scope, key=lambda f: f.id):
        g = ppa.guards(f)
        seen = set()
        for e in g.edges:
            c = e.cond
            # the tag idiom: `match u8::decode(bytes)? { 0 => .., 1 => .., _ => Err }` (a switch directly on a
            # value read from the wire, not on arithmetic derived from it)
            direct = c[0] == "intother" and c[1][0] == "try" and c[1][1][0] == "call" and P.WIRE_DECODE.match(c[1][1][3] or "")
            if direct and e.block not in seen:
                seen.add(e.block)
                key = "%s:%s:switch(%s)" % (rule, f.id, P.norm_text(c[1])[:60])
                kinds = set(rd.kind for rd in e.leads)
                if kinds and kinds <= {"err"}:
                    ctx.ok(rule, key, "values other than %s lead only to Err" % list(c[2]), loc="%s:%s" % (f.file, e.line))
                else:
                    ctx.bad(rule, key, "%s: a wire-controlled switch has a default arm that does not refuse (leads to %s)" % (f.id, sorted(kinds)), loc="%s:%s" % (f.file, e.line))
    # the same clause decided per tagged decoder (a `match` on literals or comparisons on the tag), shared with C07: every byte
    # value outside the tag table reaches only Err
    from rules import c07
    c07.tag_rules(ctx, rule, floor=3, refusal_only=True)

    # ---------------- narrowing casts of wire values
    rule = "R-C08.N"
    ncast = 0
    for f in sorted(scope, key=lambda f: f.id):
        g = ppa.guards(f)
        for bi, si, s in f.body.iter_stmts():
            if s.rv is not None and s.rv.kind == "cast" and s.rv.cast_kind == "IntToInt":
                e = g.eb.operand(s.rv.ops[0])
                if not P.mentions_wire(e):
                    continue
                ncast += 1
                tr = P.ty_range(prog.types[s.rv.ty])
                env = P.Env(ppa, f, adversarial=False)
                conds = P.path_conditions(ppa, env, g, bi)
                ppa.apply_conditions(env, conds)
                iv = ppa.iv(env, e)
                key = "%s:%s:cast(%s as %s)" % (rule, f.id, P.norm_text(e)[:60], prog.types[s.rv.ty]["s"])
                # math overflow of the operand expression itself is reported by R-C08.P; here: truncation
                if tr is None or (iv.lo >= tr.lo and min(iv.hi, P.ty_range(prog.types[f.body.locals[s.rv.ops[0].place[0]]] if s.rv.ops[0].place and not s.rv.ops[0].place[1] else None).hi if s.rv.ops[0].place else iv.hi) <= tr.hi):
                    ctx.ok(rule, key, "%r fits %s" % (iv, prog.types[s.rv.ty]["s"]), loc="%s:%s" % (f.file, s.line))
                else:
                    ctx.bad(rule, key, "%s: wire-derived value %s with range %r is truncated by `as %s`" % (f.id, fmt(e)[:60], iv, prog.types[s.rv.ty]["s"]),
                            loc="%s:%s" % (f.file, s.line))
    ctx.count("wire_casts", ncast)
    # ------------- decoding parameters: the aggregator id handed to the Prio3 decoders is caller-chosen and is
    # range-checked at full width before it is narrowed (`u8::try_from(agg_id).unwrap()` relies on it)
    rule = "R-C08.A"
    try:
        f = ctx.fn(rule, name="role_try_from", self_adt="vdaf::prio3::Prio3")
        ctx.require_guard(rule, f, "Ge", Arg(2), Cast(Field(Arg(1), "num_aggregators")), desc="agg_id >= num_aggregators (compared in usize) -> Err")
        n = 0
        for fd in ctx.prog.find(name="decode_with_param", id_re=r"vdaf::prio3::Prio3(InputShare|VerifyState)"):
            g = ctx.guards(fd)
            if any(t.callee.name == "role_try_from" for bi, t in fd.body.calls()):
                n += 1
                ctx.require_try_call(rule, fd, Mentions(Call("role_try_from")), desc="role_try_from(agg_id)?", key="%s:%s:role-checked" % (rule, fd.id))
        if n < 2:
            ctx.bad(rule, rule + ":sites", "expected the Prio3 input-share and verify-state decoders to validate the aggregator id, found %d" % n, kind="anchor")
    except Skip:
        pass
    ctx.floor(rule, 3)
