"""Absorption-shape rules for the XOFs (shared by C11 and C18): the length prefix covers all
domain-separation parts, every part is absorbed in order and unframed, update forwards its
fragment, seed_stream absorbs every binder part, into_seed is the stream prefix."""
from pat import *
from expr import fmt, walk
from harness import Skip
from rules.common import adapters_in


def _upd_calls(ctx, f):
    g = ctx.guards(f)
    return [(bi, t, g.eb.call_expr(t)) for bi, t in f.body.calls() if t.callee.name in ("update", "chain_update")]


def absorb_shape(ctx, rule, f, dst_idx, seed_idx=None, binder_idx=None):
    """dst_idx: parameter position (MIR local) of the dst parts slice"""
    g = ctx.guards(f)
    dst = Arg(dst_idx)
    ups = _upd_calls(ctx, f)
    # (a) length prefix
    key = "%s:%s:length-prefix-covers-all-parts" % (rule, f.id)
    pref = None
    for bi, t, ce in ups:
        if Mentions(Call("sum", Call("map", dst, Any())))(ce[2][1]) and g.loop_of(bi) is None:
            pref = (bi, ce)
            break
    if pref is None:
        ctx.bad(rule, key, "no absorb call whose data is the sum of the lengths of all dst parts", loc=f.loc)
    else:
        data = pref[1][2][1]
        sums = [x for x in walk(data) if Call("sum", Call("map", dst, Any()))(x)]
        s = sums[0]
        ad = adapters_in(s)
        clos = s[2][0][2][1]
        clos_ok = False
        if clos[0] == "closure":
            cf = ctx.prog.by_did.get(clos[3])
            if cf is not None:
                cg = ctx.guards(cf)
                rds = [rd for rd in cg.retdefs if rd.expr is not None]
                clos_ok = len(rds) == 1 and (Len(Arg(2))(rds[0].expr) or (rds[0].expr[0] == "phi" and Len(Arg(2))(cg.eb.init_expr(rds[0].expr[1]) or ("unk",))))
        if not ad and clos_ok:
            ctx.ok(rule, key, "prefix = %s" % fmt(data)[:140], loc="%s:%s" % (f.file, pref[1] and f.line))
        else:
            ctx.bad(rule, key, "the length prefix does not sum len() over every dst part (adapters=%s closure-is-len=%s)" % (ad, clos_ok), loc=f.loc)
    # (b) every part absorbed, unframed, in order
    key = "%s:%s:every-part-absorbed" % (rule, f.id)
    loop_up = None
    for bi, t, ce in ups:
        lp = g.loop_of(bi)
        if lp is None:
            continue
        class _E:
            block = bi
        src = ctx.loop_source(f, _E)
        if src is not None and Mentions(dst)(src):
            loop_up = (bi, ce, src, lp)
    fe = [(bi, g.eb.call_expr(t)) for bi, t in f.body.calls() if t.callee.name == "for_each"]
    good = False
    where = None
    after = None
    loop_blocks = set()
    if loop_up is not None:
        bi, ce, src, lp = loop_up
        item = ce[2][1]
        latches = [t for (t, hh) in f.body.back_edges() if hh == lp[0]]
        others = [b2 for b2, t2, c2 in ups if b2 in lp[1] and b2 != bi]
        good = not adapters_in(src) and Field(Mentions(Call("next")), name="0", variant="Some")(item) and \
            all(f.body.dominates(bi, t) for t in latches) and not others
        where = bi
        after = lp[0]
        loop_blocks = lp[1]
        desc = "for part in %s { update(part) }" % fmt(src)[:60]
    elif fe:
        bi, ce = fe[0]
        if Mentions(dst)(ce[2][0]) and not adapters_in(ce[2][0]) and ce[2][1][0] == "closure":
            cf = ctx.prog.by_did.get(ce[2][1][3])
            cg = ctx.guards(cf)
            cups = [cg.eb.call_expr(t) for b2, t in cf.body.calls() if t.callee.name in ("update", "chain_update")]
            good = len(cups) == 1 and Arg(2)(cups[0][2][1]) or (len(cups) == 1 and cups[0][2][1][0] == "param")
            where = bi
            after = bi
            loop_blocks = set()
            desc = "dst.iter().for_each(|s| update(s))"
    if good:
        ctx.ok(rule, key, desc, loc=f.loc)
    else:
        ctx.bad(rule, key, "not every dst part is absorbed exactly once, unframed", loc=f.loc)
    # (c) order: prefix first
    key = "%s:%s:prefix-before-parts" % (rule, f.id)
    if pref is not None and where is not None and f.body.dominates(pref[0], where) and pref[0] != where:
        ctx.ok(rule, key, "the length prefix is absorbed before the parts", loc=f.loc)
    else:
        ctx.bad(rule, key, "the length prefix is not absorbed before the dst parts", loc=f.loc)
    # (d) seed / binder afterwards
    if seed_idx is not None:
        key = "%s:%s:seed-after-dst" % (rule, f.id)
        sd = [bi for bi, t, ce in ups if Arg(seed_idx)(ce[2][1])]
        sl = [bi for bi, t, ce in ups if Mentions(Len(Arg(seed_idx)))(ce[2][1]) and not Arg(seed_idx)(ce[2][1])]
        if len(sd) == 1 and len(sl) == 1 and where is not None and f.body.dominates(after, sl[0]) and sl[0] not in loop_blocks and \
                f.body.dominates(sl[0], sd[0]) and sl[0] != sd[0]:
            ctx.ok(rule, key, "then the seed length, then the seed", loc=f.loc)
        else:
            ctx.bad(rule, key, "the seed is not absorbed as [len(seed), seed] after the dst parts", loc=f.loc)
    if binder_idx is not None:
        key = "%s:%s:binder-after-dst" % (rule, f.id)
        bd = [bi for bi, t, ce in ups if Arg(binder_idx)(ce[2][1])]
        if len(bd) == 1 and where is not None and f.body.dominates(after, bd[0]) and bd[0] not in loop_blocks and bd[0] != where:
            ctx.ok(rule, key, "then the binder", loc=f.loc)
        else:
            ctx.bad(rule, key, "the binder is not absorbed (whole) after the dst parts", loc=f.loc)


def run_absorb(ctx, rule):
    specs = [
        (dict(name="from_seed_slice", self_adt="vdaf::xof::XofTurboShake128"), 2, 1, None),
        (dict(name="init", trait="Xof", self_adt="vdaf::xof::XofFixedKeyAes128"), 2, None, None),
        (dict(name="init", trait="Xof", self_adt="vdaf::xof::XofHmacSha256Aes128"), 2, None, None),
        (dict(name="new", self_adt="vdaf::xof::XofFixedKeyAes128Key"), 1, None, 2),
    ]
    for kw, d, s, b in specs:
        try:
            f = ctx.fn(rule, **kw)
            absorb_shape(ctx, rule, f, d, s, b)
        except Skip:
            pass
    # TurboShake init delegates with the whole seed and the same dst parts
    try:
        f = ctx.fn(rule, name="init", trait="Xof", self_adt="vdaf::xof::XofTurboShake128")
        g = ctx.guards(f)
        key = "%s:%s" % (rule, f.id)
        rds = g.retdefs
        if len(rds) == 1 and rds[0].kind == "call" and Call("from_seed_slice", Any(), Arg(2))(rds[0].expr) and Mentions(Arg(1))(rds[0].expr[2][0]) \
                and "RangeFull" in fmt(rds[0].expr[2][0]) or (len(rds) == 1 and Call("from_seed_slice", Arg(1), Arg(2))(rds[0].expr)):
            ctx.ok(rule, key, "init = from_seed_slice(&seed[..], dst_parts)", loc=f.loc)
        else:
            ctx.bad(rule, key, "XofTurboShake128::init does not pass the whole seed and dst parts on: %s" % [fmt(r.expr)[:120] for r in rds], loc=f.loc)
    except Skip:
        pass
    # HMAC init keys the MAC with the seed
    try:
        f = ctx.fn(rule, name="init", trait="Xof", self_adt="vdaf::xof::XofHmacSha256Aes128")
        g = ctx.guards(f)
        key = "%s:%s:keyed-with-seed" % (rule, f.id)
        ks = [g.eb.call_expr(t) for bi, t in f.body.calls() if t.callee.name == "new_from_slice"]
        if len(ks) == 1 and Arg(1)(ks[0][2][0]):
            ctx.ok(rule, key, "MAC keyed with the whole seed", loc=f.loc)
        else:
            ctx.bad(rule, key, "the MAC is not keyed with the whole seed", loc=f.loc)
    except Skip:
        pass
    try:
        f = ctx.fn(rule, name="init", trait="Xof", self_adt="vdaf::xof::XofFixedKeyAes128")
        g = ctx.guards(f)
        key = "%s:%s:base-block-is-seed" % (rule, f.id)
        acc = g.retdefs
        if len(acc) == 1 and Agg("XofFixedKeyAes128", Any(), Mentions(Arg(1)))(acc[0].expr):
            ctx.ok(rule, key, "base block = the seed", loc=f.loc)
        else:
            ctx.bad(rule, key, "base block is not derived from the seed", loc=f.loc)
    except Skip:
        pass


def run_update_forward(ctx, rule):
    for adt in ("vdaf::xof::XofTurboShake128", "vdaf::xof::XofFixedKeyAes128", "vdaf::xof::XofHmacSha256Aes128"):
        try:
            f = ctx.fn(rule, name="update", trait="Xof", self_adt=adt)
            ups = _upd_calls(ctx, f)
            key = "%s:%s" % (rule, f.id)
            if len(ups) == 1 and Arg(2)(ups[0][2][2][1]) and Mentions(Arg(1))(ups[0][2][2][0]):
                ctx.ok(rule, key, "update forwards the fragment unframed to the underlying absorber", loc=f.loc)
            else:
                ctx.bad(rule, key, "update does not forward exactly its fragment: %s" % [fmt(u[2])[:100] for u in ups], loc=f.loc)
        except Skip:
            pass


def run_seed_stream(ctx, rule):
    try:
        f = ctx.fn(rule, name="seed_stream", id_re=r"^vdaf::xof::Xof::seed_stream$")
        g = ctx.guards(f)
        inits = [(bi, g.eb.call_expr(t)) for bi, t in f.body.calls() if t.callee.name == "init"]
        ups = [(bi, g.eb.call_expr(t)) for bi, t in f.body.calls() if t.callee.name == "update"]
        fin = [(bi, g.eb.call_expr(t)) for bi, t in f.body.calls() if t.callee.name == "into_seed_stream"]
        key = "%s:%s" % (rule, f.id)
        good = len(inits) == 1 and len(ups) == 1 and len(fin) == 1 and Arg(1)(inits[0][1][2][0]) and Arg(2)(inits[0][1][2][1])
        src = None
        if good:
            class _E:
                block = ups[0][0]
            src = ctx.loop_source(f, _E)
            lp = g.loop_of(ups[0][0])
            item = ups[0][1][2][1]
            good = src is not None and lp is not None and Mentions(Arg(3))(src) and not adapters_in(src) and \
                Mentions(Call("next"))(item) and f.body.dominates(inits[0][0], lp[0]) and f.body.dominates(lp[0], fin[0][0]) and \
                all(f.body.dominates(ups[0][0], t) for (t, hh) in f.body.back_edges() if hh == lp[0])
        if good:
            ctx.ok(rule, key, "seed_stream = init(seed, dst); for part in binder { update(part) }; into_seed_stream()", loc=f.loc)
        else:
            ctx.bad(rule, key, "seed_stream does not absorb init(seed, dst) then every binder part in order", loc=f.loc)
    except Skip:
        pass
    try:
        f = ctx.fn(rule, name="into_seed", id_re=r"^vdaf::xof::Xof::into_seed$")
        g = ctx.guards(f)
        key = "%s:%s" % (rule, f.id)
        fills = [(bi, g.eb.call_expr(t)) for bi, t in f.body.calls() if t.callee.name in ("fill_bytes", "fill", "try_fill_bytes")]
        reads = [t.callee.name for bi, t in f.body.calls() if t.callee.name in ("next_u32", "next_u64", "random", "get", "read")]
        acc = g.retdefs
        def resolve(e):
            if e[0] == "phi":
                return g.eb.init_expr(e[1]) or e
            return e
        good = len(fills) == 1 and not reads and Mentions(Call("into_seed_stream", Arg(1)))(resolve(fills[0][1][2][0])) and len(acc) == 1 and \
            Agg("Seed", Any())(acc[0].expr)
        if good:
            buf = acc[0].expr[2][0]
            bl = g.eb.init_expr(buf[1]) if buf[0] == "phi" else buf
            good = fills[0][1][2][1] == buf and bl is not None and bl[0] == "repeat"
        elif len(fills) == 1 and not reads and Mentions(Call("into_seed_stream", Arg(1)))(resolve(fills[0][1][2][0])) and len(acc) == 1 \
                and acc[0].expr is not None and acc[0].expr[0] == "phi":
            # the same thing filled in place: `let mut s = Seed([0; N]); stream.fill_bytes(&mut s.0[..]); s`
            sd = acc[0].expr
            init = g.eb.init_expr(sd[1])
            dst = fills[0][1][2][1]
            whole = Field(lambda e: e == sd, "0")(dst) or (Call("index_mut", Field(lambda e: e == sd, "0"), Any())(dst) and "RangeFull" in fmt(dst[2][1]))
            good = init is not None and Agg("Seed", Any())(init) and init[2][0][0] == "repeat" and whole
        if good:
            ctx.ok(rule, key, "into_seed = one fill_bytes of a SEED_SIZE buffer from the start of into_seed_stream()", loc=f.loc)
        else:
            ctx.bad(rule, key, "into_seed is not the first SEED_SIZE bytes of the seed stream", loc=f.loc)
    except Skip:
        pass
