from pat import *
from expr import fmt, walk
from harness import Skip
from guards import fmt_cond, SWAP
from guards import decision_table, block_conditions
from rules.ts import check_table
from rules.common import eqcov_impl

INFO = {
    "explanation": "GUARD/TS/SIB rules over the MIR of Prio2: the role table (0 -> leader, 1 -> helper, else Err); exactly "
                   "two verifier shares and `is_valid_share` are required before acceptance; is_valid_share returns "
                   "(f1+f2)*(g1+g2) == h1+h2 of the SUMS; the query point is returned only on `pow(2n) != one()` with 2n "
                   "built from the same expression as the proof layout (client, server and decoder agree on "
                   "proof_length); unpack_proof{,_mut} refuse a wrong length before splitting; constructor guards; "
                   "verifier-share and state codec field order. Acceptance of exactly the 0/1 vectors (algebra over the "
                   "32-bit field) is NOT decided. The verification message is (f(r), g(r) over the n-point prefix, h(r) over the whole 2n buffer) at the query point, the role and the query point are bound to the aggregator id / verification key / nonce, and the collector refuses only what merge refuses.",
    "trusted_base": ["rustc type checker and MIR construction (nightly)", "expression reconstruction (sa/expr.py)"],
    "assumptions": ["field arithmetic and NTT are correct (C09/C10 not decided)"],
}

TWO_N = lambda dim: Bin("Mul", Lit(2), Call("next_power_of_two", Bin("Add", dim, Lit(1), commutative=True)), commutative=True)


def new_rules(ctx, rule):
    """Prio2::new validation (shared with C16)"""
    try:
        f = ctx.fn(rule, name="new", self_adt="vdaf::prio2::Prio2")
        g = ctx.guards(f)
        # the proof-domain size 2*npo2(input_len+1), in either the plain or the checked form
        def two_n(e):
            if TWO_N(Arg(1))(e):
                return True
            txt = fmt(e)
            return Mentions(Call("checked_add", Arg(1), Lit(1)))(e) and "checked_next_power_of_two" in txt and \
                any(isinstance(x, tuple) and x[0] == "closure" for x in walk(e))
        sz = lambda e: Mentions(Call("try_from"))(e) and two_n(e) or (("try_from" in fmt(e)) and two_n(e))
        ctx.require_guard(rule, f, "Gt", sz, Call("generator_order"), desc="2n > generator_order() -> Err")
        # every way in which computing 2n or converting it to u32 fails is refused
        bad = [e for e in g.edges if e.cond[0] == "variant" and e.cond[2] in ("Err", "None") and e.cond[3] and sz(e.cond[1])]
        key = "%s:%s:size-computation-failure-refused" % (rule, f.id)
        if bad and all(set(rd.kind for rd in e.leads) <= {"err"} and e.leads for e in bad):
            ctx.ok(rule, key, "overflow of input_len+1 / npo2 / *2 and a 2n that does not fit u32 all lead to Err (%d edges)" % len(bad), loc=f.loc)
        else:
            ctx.bad(rule, key, "a failing size computation (overflow or 2n not fitting u32) is not refused", loc=f.loc)
        # the closure doubles the power of two
        for x in [y for e in g.edges for y in walk(e.raw) if isinstance(y, tuple) and y[0] == "closure"][:1]:
            cf = ctx.prog.by_did.get(x[3])
            if cf is not None:
                cg = ctx.guards(cf)
                key = "%s:%s:doubling" % (rule, f.id)
                if any(rd.expr is not None and Call("checked_mul", Arg(2), Lit(2))(rd.expr) for rd in cg.retdefs):
                    ctx.ok(rule, key, "size = npo2(input_len + 1).checked_mul(2)", loc=f.loc)
                else:
                    ctx.bad(rule, key, "the proof-domain size is not twice the power of two", loc=f.loc)
        acc = g.accept_defs(("err",))
        key = "%s:%s:payload" % (rule, f.id)
        if len(acc) == 1 and Agg("Result::Ok", Agg("Prio2", Arg(1)))(acc[0].expr):
            ctx.ok(rule, key, "Ok(Prio2 { input_len })", loc=f.loc)
        else:
            ctx.bad(rule, key, "constructor does not store the given input_len", loc=f.loc)
    except Skip:
        pass
    ctx.floor(rule, 3)



def role_binding_rules(ctx, rule):
    """Prio2::verify_init acts in the role its aggregator id says (shared with C18): the is_leader flag handed on is
    role_try_from(agg_id)?, and the query point depends on the verification key and the nonce"""
    try:
        f = ctx.fn(rule, name="verify_init", trait="Aggregator", self_adt="vdaf::prio2::Prio2")
        g = ctx.guards(f)
        key = "%s:%s:role-from-aggregator-id" % (rule, f.id)
        calls = [g.eb.call_expr(t) for bi, t in f.body.calls() if t.callee.name == "verify_init_with_query_rand"]
        role = Try(Call("role_try_from", Arg(4)))
        if len(calls) == 1 and len(calls[0][2]) >= 4 and role(calls[0][2][3]):
            ctx.ok(rule, key, "verify_init_with_query_rand(.., is_leader = role_try_from(agg_id)?)", loc=f.loc)
        else:
            ctx.bad(rule, key, "the role Prio2::verify_init acts in is not role_try_from(agg_id)?: %s" % [fmt(c[2][-1])[:100] for c in calls], loc=f.loc)
        key = "%s:%s:query-point-from-key-and-nonce" % (rule, f.id)
        qp = calls[0][2][1] if len(calls) == 1 else None
        txt_ok = qp is not None and Mentions(Call("choose_eval_at"))(qp)
        mac_new = [g.eb.call_expr(t) for bi, t in f.body.calls() if t.callee.name == "new_from_slice"]
        mac_upd = [g.eb.call_expr(t) for bi, t in f.body.calls() if t.callee.name == "update"]
        good = txt_ok and len(mac_new) == 1 and Mentions(Arg(2))(mac_new[0]) and any(Mentions(Arg(6))(u) for u in mac_upd)
        if good:
            ctx.ok(rule, key, "query point = choose_eval_at(Prng(HMAC(verify_key, nonce)))", loc=f.loc)
        else:
            ctx.bad(rule, key, "the Prio2 query point is not derived from HMAC(verify_key) over the nonce", loc=f.loc)
    except Skip:
        pass
    ctx.floor(rule, 2)


def run(ctx):
    rule = "R-C19.T.role"
    try:
        f = ctx.fn(rule, name="role_try_from", id_re=r"^vdaf::prio2::role_try_from$")
        g = ctx.guards(f)
        got = {}
        for rd in g.retdefs:
            conds = block_conditions(g, rd.block)
            for c in conds:
                if c[0] == "inteq" and Arg(1)(c[1]):
                    got[c[2]] = rd.kind
                if c[0] == "intother" and Arg(1)(c[1]):
                    got["other"] = rd.kind
        key = "%s:%s" % (rule, f.id)
        if got != {0: "ok_true", 1: "ok_false", "other": "err"}:
            # the same table spelled with comparisons / a computed boolean (`if id > 1 { Err } .. Ok(id < 1)`): decide by value
            from rules.c01 import _evn
            reach, lits, any_branch = ctx.value_walker(f, Arg(1))
            tab = {}
            for v in (0, 1, 2, 3, 255, 256, (1 << 64) - 1):
                blocks = reach(v)
                outs = set()
                for rd in g.retdefs:
                    if rd.block not in blocks:
                        continue
                    k = rd.kind
                    if k == "ok" and rd.expr is not None and rd.expr[0] == "agg" and len(rd.expr[2]) == 1:
                        val = _evn(rd.expr[2][0], {"params": {1: v}})
                        k = {True: "ok_true", False: "ok_false"}.get(val, "ok?")
                    outs.add(k)
                tab[v] = sorted(outs)
            if tab.get(0) == ["ok_true"] and tab.get(1) == ["ok_false"] and all(tab[v] == ["err"] for v in tab if v > 1):
                got = {0: "ok_true", 1: "ok_false", "other": "err"}
            else:
                got = tab
        if got == {0: "ok_true", 1: "ok_false", "other": "err"}:
            ctx.ok(rule, key, "0 -> Ok(true), 1 -> Ok(false), otherwise Err", loc=f.loc)
        else:
            ctx.bad(rule, key, "role table is %s" % got, loc=f.loc)
    except Skip:
        pass
    ctx.floor(rule, 1)

    role_binding_rules(ctx, "R-C19.T.role-binding")

    rule = "R-C19.G.combine"
    try:
        f = ctx.fn(rule, name="verifier_shares_to_message", trait="Aggregator", self_adt="vdaf::prio2::Prio2")
        g = ctx.guards(f)
        shares = lambda e: Mentions(Arg(4))(e)
        e1 = ctx.require_guard(rule, f, "Ne", Len(shares), Lit(2), desc="number of verifier shares != 2 -> Err")
        # the collected vector is the whole `inputs`
        if e1 is not None:
            c = e1.cond
            v = c[2] if Lit(2)(c[3]) else c[3]
            from rules.common import adapters_in
            key = "%s:%s:all-shares-collected" % (rule, f.id)
            if not adapters_in(v):
                ctx.ok(rule, key, "the counted vector is inputs.into_iter().map(..).collect() without truncation", loc=f.loc)
            else:
                ctx.bad(rule, key, "the counted vector drops shares: %s" % fmt(v)[:160], loc=f.loc)
        key = "%s:%s:is_valid_share-required" % (rule, f.id)
        hit = None
        for ed in g.edges:
            c = ed.cond
            if c[0] == "truth" and c[2] is False and Call("is_valid_share", Index(shares, Lit(0)), Index(shares, Lit(1)))(c[1]):
                if set(rd.kind for rd in ed.leads) <= {"err"} and ed.leads and g.dominates_accepts(ed):
                    hit = ed
        if hit is not None:
            ctx.ok(rule, key, "refuses when !is_valid_share(shares[0], shares[1]); dominates the accepting return", loc=f.loc)
        else:
            ctx.bad(rule, key, "`!is_valid_share(shares[0], shares[1]) -> Err` dominating acceptance not found", loc=f.loc)
    except Skip:
        pass
    try:
        f = ctx.fn(rule, name="is_valid_share", id_re=r"^vdaf::prio2::server::is_valid_share$")
        g = ctx.guards(f)
        key = "%s:%s" % (rule, f.id)
        s = lambda fld: Bin("Add", Field(Arg(1), fld), Field(Arg(2), fld), commutative=True)
        want = Bin("Eq", Bin("Mul", s("f_r"), s("g_r"), commutative=True), s("h_r"), commutative=True)
        if len(g.retdefs) == 1 and g.retdefs[0].expr is not None and want(g.retdefs[0].expr):
            ctx.ok(rule, key, "returns (f1+f2)*(g1+g2) == (h1+h2)", loc=f.loc)
        else:
            ctx.bad(rule, key, "is_valid_share does not return (f1+f2)*(g1+g2) == h1+h2: %s" % [fmt(r.expr)[:160] for r in g.retdefs], loc=f.loc)
    except Skip:
        pass
    ctx.floor(rule, 4)

    # the verification message: f(r), g(r) interpolated over the n-point domain and h(r) over the WHOLE 2n-point buffer, all at the
    # same query point (an evaluation of h that leaves out a coefficient accepts h = f*g + c*X^(2n-1))
    rule = "R-C19.G.verify-message"
    try:
        f = ctx.fn(rule, name="generate_verification_message", id_re=r"^vdaf::prio2::server::generate_verification_message$")
        g = ctx.guards(f)
        key = "%s:%s" % (rule, f.id)
        oks = [rd for rd in g.retdefs if rd.kind == "ok" and rd.payload is not None]
        good = False
        detail = ""
        if len(oks) == 1 and oks[0].payload[0] == "agg" and len(oks[0].payload) > 3 and oks[0].payload[3]:
            flds = dict(zip(oks[0].payload[3], oks[0].payload[2]))
            n_of = Call("next_power_of_two", Bin("Add", Arg(1), Lit(1), commutative=True))
            half = lambda e: Call("poly_interpret_eval", Call("index", Any(), Agg("RangeTo", n_of)), Arg(2), Any())(e)
            full = lambda e: Call("poly_interpret_eval", lambda x: isinstance(x, tuple) and x[0] in ("phi", "param") , Arg(2), Any())(e)
            detail = "; ".join("%s = %s" % (k, fmt(v)[:90]) for k, v in flds.items())
            good = set(flds) == {"f_r", "g_r", "h_r"} and half(flds["f_r"]) and half(flds["g_r"]) and full(flds["h_r"])
        if good:
            ctx.ok(rule, key, "f_r, g_r = interpolate-and-evaluate over n points, h_r over the whole 2n-point buffer, all at eval_at", loc=f.loc)
        else:
            ctx.bad(rule, key, "the verification message is not (f(r), g(r) over n points; h(r) over all 2n points) at the query point: %s" % detail, loc=f.loc)
    except Skip:
        pass
    ctx.floor(rule, 1)

    # the collector refuses only what merge refuses (a mismatched share): any other refusal makes some honest batch fail
    rule = "R-C19.G.unshard"
    try:
        f = ctx.fn(rule, name="unshard", trait="Collector", self_adt="vdaf::prio2::Prio2")
        g = ctx.guards(f)
        key = "%s:%s:refuses-only-through-merge" % (rule, f.id)
        errs = [rd for rd in g.retdefs if rd.kind == "err"]
        stray = [rd for rd in errs if not (rd.expr is not None and Mentions(Call("merge"))(rd.expr))]
        if errs and not stray:
            ctx.ok(rule, key, "every Err of Prio2::unshard is merge's", loc=f.loc)
        else:
            ctx.bad(rule, key, "Prio2::unshard can refuse for a reason other than a mismatched aggregate share: %s" % [fmt(rd.expr)[:100] for rd in stray], loc=f.loc)
    except Skip:
        pass
    ctx.floor(rule, 1)

    rule = "R-C19.G.query-point"
    try:
        f = ctx.fn(rule, name="choose_eval_at", self_adt="vdaf::prio2::Prio2")
        g = ctx.guards(f)
        key = "%s:%s" % (rule, f.id)
        good = False
        detail = ""
        if len(g.retdefs) == 1:
            rd = g.retdefs[0]
            conds = block_conditions(g, rd.block)
            for c in conds:
                if c[0] == "rel" and c[1] == "Ne":
                    a, b = (c[2], c[3]) if Call("pow")(c[2]) else (c[3], c[2])
                    if Call("pow")(a) and Call("one")(b):
                        base, exp = a[2][0], a[2][1]
                        detail = fmt(a)[:200]
                        if base == rd.expr and Mentions(TWO_N(Field(Arg(1), "input_len")))(exp):
                            good = True
        if good:
            ctx.ok(rule, key, "the returned point is the sampled value for which pow(point, 2n) != one(): %s" % detail, loc=f.loc)
        else:
            ctx.bad(rule, key, "choose_eval_at can return a point that was not checked with pow(point, 2*npo2(input_len+1)) != one(): %s" % detail, loc=f.loc)
    except Skip:
        pass
    # layout agreement: server's domain size is the same expression
    try:
        f = ctx.fn(rule, name="generate_verification_message", id_re=r"^vdaf::prio2::server::generate_verification_message$")
        g = ctx.guards(f)
        key = "%s:%s:same-2n" % (rule, f.id)
        from rules.common import all_terms
        if any(Mentions(TWO_N(Arg(1)))(t) for t in all_terms(ctx, f)):
            ctx.ok(rule, key, "server evaluates over 2*npo2(dimension+1) points", loc=f.loc)
        else:
            ctx.bad(rule, key, "server's proof domain is not 2*npo2(dimension+1)", loc=f.loc)
        ctx.require_try_call(rule, f, Call("unpack_proof", Arg(3), Arg(1)), desc="unpack_proof(proof, dimension)?")
    except Skip:
        pass
    ctx.floor(rule, 3)

    rule = "R-C19.G.unpack"
    for nm in ("unpack_proof", "unpack_proof_mut"):
        try:
            f = ctx.fn(rule, name=nm, id_re=r"^vdaf::prio2::client::%s$" % nm)
            ctx.require_guard(rule, f, "Ne", Len(Arg(1)), Call("proof_length", Arg(2)), desc="len(proof) != proof_length(dimension) -> Err")
            g = ctx.guards(f)
            key = "%s:%s:split" % (rule, f.id)
            sp = [g.eb.call_expr(t) for bi, t in f.body.calls() if t.callee.name in ("split_at", "split_at_mut")]
            if len(sp) == 2 and any(Arg(1)(s[2][0]) and Arg(2)(s[2][1]) for s in sp) and any(Lit(3)(s[2][1]) for s in sp):
                ctx.ok(rule, key, "split at `dimension`, then at 3", loc=f.loc)
            else:
                ctx.bad(rule, key, "proof is not split at (dimension, 3): %s" % [fmt(s)[:80] for s in sp], loc=f.loc)
        except Skip:
            pass
    try:
        f = ctx.fn(rule, name="proof_length", id_re=r"^vdaf::prio2::client::proof_length$")
        g = ctx.guards(f)
        key = "%s:%s" % (rule, f.id)
        terms = [Arg(1), Lit(3), Call("next_power_of_two", Bin("Add", Arg(1), Lit(1), commutative=True))]

        def flat(e):
            if e[0] == "bin" and e[1] == "Add":
                return flat(e[2]) + flat(e[3])
            return [e]
        if len(g.retdefs) == 1:
            parts = flat(g.retdefs[0].expr)
            okk = len(parts) == 3 and all(any(t(p) for p in parts) for t in terms)
        else:
            okk = False
        if okk:
            ctx.ok(rule, key, "proof_length = dimension + 3 + npo2(dimension + 1)", loc=f.loc)
        else:
            ctx.bad(rule, key, "proof_length is not dimension + 3 + npo2(dimension+1): %s" % [fmt(r.expr) for r in g.retdefs], loc=f.loc)
    except Skip:
        pass
    # users of the layout
    users = [("decode_with_param", r"^vdaf::prio2::<impl codec::ParameterizedDecode<\(&'a vdaf::prio2::Prio2, usize\)> for vdaf::Share<field::FieldPrio2, 32>>::decode_with_param$", Field(Any(), "input_len")),
             ("verify_init_with_query_rand", r"^vdaf::prio2::Prio2::verify_init_with_query_rand$", Field(Arg(1), "input_len")),
             ("prove_with", r"ClientMemory::<F>::prove_with$", Arg(2))]
    for nm, idre, dim in users:
        try:
            f = ctx.fn(rule, name=nm, id_re=idre)
            from rules.common import all_terms
            key = "%s:%s:uses-proof_length" % (rule, f.id)
            if any(Mentions(Call("proof_length", dim))(t) for t in all_terms(ctx, f)):
                ctx.ok(rule, key, "%s sizes the share with proof_length(dimension)" % nm, loc=f.loc)
            else:
                ctx.bad(rule, key, "%s does not size the share with proof_length(dimension)" % nm, loc=f.loc)
        except Skip:
            pass
    ctx.floor(rule, 8)

    new_rules(ctx, "R-C19.G.new")

    # --- the client may refuse only what the constructor refuses (capacity guards agree)
    rule = "R-C19.SIB.capacity"
    try:
        f = ctx.fn(rule, name="new", self_adt="vdaf::prio2::client::ClientMemory")
        g = ctx.guards(f)
        two_n = TWO_N(Arg(1))
        conv2n = lambda e: Call("try_from", two_n)(e)
        order = Call("generator_order")

        def allowed(c):
            if c[0] == "variant" and c[2] == "Err" and c[3] and conv2n(c[1]):
                return "2n does not fit the field integer"
            if c[0] == "rel":
                op, a, bb = c[1], c[2], c[3]
                if order(a):
                    op, a, bb = SWAP[op], bb, a
                if op == "Gt" and order(bb) and Field(conv2n, name="0", variant="Ok")(a):
                    return "2n > generator_order()"
            if c[0] == "truth" and c[2] is True and Call("map_or", conv2n, Lit(1))(c[1]) and c[1][2][2][0] == "closure":
                cf = ctx.prog.by_did.get(c[1][2][2][3])
                if cf is not None:
                    cg = ctx.guards(cf)
                    rds = [rd for rd in cg.retdefs if rd.expr is not None]
                    if len(rds) == 1 and (Bin("Gt", Arg(2), order)(rds[0].expr) or Bin("Lt", order, Arg(2))(rds[0].expr)):
                        return "2n does not fit, or 2n > generator_order()"
            return None
        refusing = [e for e in g.edges if e.leads and set(rd.kind for rd in e.leads) <= {"err"}]
        # only the outermost refusing edges matter (an edge dominated by another refusing edge's target is already refused)
        outer = [e for e in refusing if not any(o is not e and f.body.dominates(o.target, e.block) for o in refusing)]
        n_ok = 0
        for e in outer:
            why = allowed(e.cond)
            key = "%s:%s:refusal:%s" % (rule, f.id, fmt_cond(e.cond)[:120])
            if why:
                n_ok += 1
                ctx.ok(rule, key, "client refuses when %s - as Prio2::new does" % why, loc="%s:%s" % (f.file, e.line))
            else:
                ctx.bad(rule, key, "ClientMemory::new refuses on a condition Prio2::new does not refuse on (a supported length "
                                   "could not be sharded): %s" % fmt_cond(e.cond)[:200], loc="%s:%s" % (f.file, e.line))
        if not outer:
            ctx.ok(rule, "%s:%s:no-refusal" % (rule, f.id), "ClientMemory::new never refuses", loc=f.loc)
        # non-Result refusals: no panic on the accepting path is introduced by an assert on the size
    except Skip:
        pass
    ctx.floor(rule, 1)

    # --- every site that sizes the proof domain agrees on n = npo2(dimension + 1)
    rule = "R-C19.SIB.n"
    sites = 0
    for f in ctx.prog.fns:
        if f.body is None or not (f.id.startswith("vdaf::prio2") or f.id.startswith("<vdaf::prio2")) or ctx.prog.is_test_util(f):
            continue
        g = None
        for bi, t in f.body.calls():
            if t.callee.name != "next_power_of_two":
                continue
            g = g or ctx.guards(f)
            c = g.eb.call_expr(t)
            sites += 1
            key = "%s:%s:%s" % (rule, f.id, fmt(c[2][0])[:60])
            if Bin("Add", Any(), Lit(1), commutative=True)(c[2][0]):
                ctx.ok(rule, key, "n = (%s).next_power_of_two()" % fmt(c[2][0])[:60], loc="%s:%s" % (f.file, t.line))
            else:
                ctx.bad(rule, key, "%s sizes the proof domain with npo2(%s) while the other sites use npo2(dimension + 1): client, server and "
                                   "constructor disagree for lengths that are a power of two" % (f.id, fmt(c[2][0])[:60]), loc="%s:%s" % (f.file, t.line))
    if sites < 5:
        ctx.bad(rule, rule + ":floor", "expected at least 5 proof-domain sizing sites in vdaf::prio2*, found %d" % sites, kind="anchor")
    ctx.floor(rule, 5)

    # --- the NTT accepts every transform size the constructor admits (2n <= generator_order = 2^NUM_ROOTS of FieldPrio2)
    rule = "R-C19.SIB.ntt-capacity"
    try:
        from rules import c10
        caps = c10.ntt_capacity(ctx, rule)
        nr = ctx.prog.const_by_path.get("<fp::FP32 as fp::ops::FieldParameters<u32>>::NUM_ROOTS")
        need = 1 << int(nr["vs"]) if nr and "vs" in nr else None
        key = rule + ":plain"
        if caps is None or need is None:
            ctx.bad(rule, key, "cannot establish the NTT's size limit (guard not recognised): Prio2 needs transforms of up to 2^20 points")
        elif caps[0] >= need:
            ctx.ok(rule, key, "ntt accepts sizes up to %d >= %d = FieldPrio2::generator_order()" % (caps[0], need))
        else:
            ctx.bad(rule, key, "the NTT refuses sizes above %d but Prio2::new admits proof domains of up to %d points: the top octave of "
                               "supported lengths cannot be sharded or verified" % (caps[0], need))
    except Skip:
        pass
    ctx.floor(rule, 1)

    rule = "R-C19.S.codec"
    try:
        fe = ctx.fn(rule, name="encode", trait="Encode", self_adt="vdaf::prio2::Prio2VerifierShare")
        ge = ctx.guards(fe)
        order = []
        encs = [(bi, ge.eb.call_expr(t)) for bi, t in fe.body.calls() if t.callee.name == "encode"]
        for bi, e in encs:
            a = e[2][0]
            order.append((bi, a[2] if a[0] == "field" else "?"))
        # sort by dominance
        import functools
        order.sort(key=functools.cmp_to_key(lambda x, y: -1 if fe.body.dominates(x[0], y[0]) and x[0] != y[0] else 1))
        names = [n for _, n in order]
        key = "%s:%s:field-order" % (rule, fe.id)
        if names == ["f_r", "g_r", "h_r"]:
            ctx.ok(rule, key, "encode writes f_r, g_r, h_r", loc=fe.loc)
        else:
            ctx.bad(rule, key, "encode writes %s" % names, loc=fe.loc)
        fd = ctx.fn(rule, name="decode_with_param", trait="ParameterizedDecode", self_adt="vdaf::prio2::Prio2VerifierShare")
        gd = ctx.guards(fd)
        key = "%s:%s:field-order" % (rule, fd.id)
        decs = [bi for bi, t in fd.body.calls() if t.callee.name == "decode"]
        # map each decode call block to the field it initialises
        acc = gd.accept_defs(("err",))
        good = False
        if len(acc) == 1 and len(decs) == 3:
            vm = [x for x in walk(acc[0].expr) if isinstance(x, tuple) and x[0] == "agg" and x[1].endswith("VerificationMessage")]
            if vm and len(vm[0]) > 3:
                fields = vm[0][3]
                # the i-th operand is a `try(decode(bytes))`; recover which decode call defines it via dominance order
                # MIR keeps source order of struct-literal field initialisers = evaluation order
                good = list(fields) == ["f_r", "g_r", "h_r"] and all(Try(Call("decode"))(o) for o in vm[0][2])
                # evaluation order: locate the locals
        if good:
            ctx.ok(rule, key, "decode reads f_r, g_r, h_r (struct fields initialised in declaration = evaluation order)", loc=fd.loc)
        else:
            ctx.bad(rule, key, "decode does not read three field elements into (f_r, g_r, h_r)", loc=fd.loc)
    except Skip:
        pass
    eqcov_impl(ctx, rule, "vdaf::prio2::Prio2VerifierState", "ct_eq", "ConstantTimeEq")
    ctx.floor(rule, 3)

    rule = "R-C19.T.verify_next"
    try:
        f = ctx.fn(rule, name="verify_next", trait="Aggregator", self_adt="vdaf::prio2::Prio2")
        g = ctx.guards(f)
        acc = g.accept_defs(("err",))
        key = "%s:%s" % (rule, f.id)
        if acc and all(Agg("Result::Ok", Agg("VerifyTransition::Finish"))(a.expr) for a in acc):
            terms = __import__("rules.common", fromlist=["all_terms"]).all_terms(ctx, f)
            if any(Mentions(Call("take", Any(), Field(Arg(1), "input_len")))(t) for t in terms):
                ctx.ok(rule, key, "Finish(output share); helper expands exactly input_len elements from its seed", loc=f.loc)
            else:
                ctx.bad(rule, key, "helper output share is not the first input_len elements of the seed expansion", loc=f.loc)
        else:
            ctx.bad(rule, key, "verify_next has an unexpected accepting return", loc=f.loc)
    except Skip:
        pass
    ctx.floor(rule, 1)
