from pat import *
from expr import fmt, walk
from harness import Skip
from guards import phi_defs, block_conditions, edge_conditions, dominates_accepts_deep, SWAP
from rules.common import adapters_in, calls_named, req, strip, S, find_rel_edges, early_exits

INFO = {
    "explanation": "PARTIAL. Decided: the clauses of C10 that are visible in the shape of the code. (G) size and capacity violations "
                   "are reported as errors: ntt_internal refuses a size beyond the output slice, beyond 2^E (plain) or 2^(E-1) "
                   "(shifted transform), or not a power of two, where E = min(MAX_ROOTS, NUM_ROOTS of every field) is computed "
                   "from the constants, so the supported maximum is neither exceeded (root(l) would be None) nor cut short; "
                   "double_evaluations refuses a non-power-of-two input and an output that is not twice as long; errors of the "
                   "inner transforms are propagated. (S) structural necessary conditions of the textbook definitions: the "
                   "bit-reversed copy reads inp[bitrev(d, i)] or zero beyond the input; every level uses root(l) (and root(l+1) "
                   "as the starting twiddle for the shifted transform, one otherwise), half-size 2^(l-1), the butterfly "
                   "(u + w*v, u - w*v) on positions x and x + 2^(l-1), and multiplies the twiddle by the level root exactly once "
                   "per inner index; the inverse is forward transform, then scaling by size^-1 with index reversal i <-> size-i "
                   "(0 and size/2 fixed); doubling interleaves the given evaluations (even) with the shifted transform (odd); "
                   "the barycentric evaluation updates every accumulator on every node (no skipped node), scales all results "
                   "by +-1/n with the sign depending on n > 1; extension stores each new value by plain assignment (the tail is "
                   "overwritten, not accumulated) computed from values and nodes below k only; Lagrange multiplication is "
                   "doubling of both operands followed by the pointwise product over all positions; the next-order root is looked up only for the shifted transform. NOT decided: that these "
                   "routines equal direct evaluation / interpolation as values (a numerical identity over loops).",
    "trusted_base": ["rustc type checker and MIR construction (nightly)", "expression reconstruction over MIR (sa/expr.py)"],
    "assumptions": ["field arithmetic is correct (C09)"],
}


def ev(e):
    """evaluate a closed integer term (literals, named constants with values, + - * << >>)"""
    e = strip(e)
    if not isinstance(e, tuple):
        return None
    if e[0] == "lit":
        return e[1] if isinstance(e[1], int) else None
    if e[0] == "symlit":
        try:
            return int(e[2])
        except (TypeError, ValueError):
            return None
    if e[0] == "bin":
        a, b = ev(e[2]), ev(e[3])
        if a is None or b is None:
            return None
        op = e[1].replace("WithOverflow", "").replace("Unchecked", "")
        return {"Add": a + b, "Sub": a - b, "Mul": a * b, "Shl": a << b if 0 <= b < 200 else None, "Shr": a >> b if 0 <= b < 200 else None}.get(op)
    return None


def defs_deep(g, local, depth=0):
    """whole definitions of a local, looking through compiler temporaries that merge branch values"""
    out = []
    for (e, conds, bi) in phi_defs(g, local):
        if e[0] == "phi" and e[1] != local and depth < 3 and (e[2] is None or str(e[2]).startswith("_")):
            out += defs_deep(g, e[1], depth + 1)
        else:
            out.append((e, conds, bi))
    return out


def index_stores(ctx, f, base_local=1):
    g = ctx.guards(f)
    out = []
    for bi, si, s in f.body.iter_stmts():
        if s.kind == "assign" and s.place and s.place[0] == base_local and s.place[1] and isinstance(s.place[1][-1], tuple) and s.place[1][-1][0] in ("ix", "cix"):
            last = s.place[1][-1]
            idx = g.eb.local(last[1], 0) if last[0] == "ix" else ("lit", last[1], "usize")
            out.append((bi, si, idx, g.eb.rvalue(s.rv)))
    return out


def item_of(loop_blocks, b, g):
    """pattern for `next(iter).0` of the loop whose body contains the given blocks: matched by the iterator local"""
    for bi in sorted(loop_blocks):
        t = b.blocks[bi].term
        if t.kind == "call" and t.callee.path == "std::iter::Iterator::next" and g.loop_of(bi) is not None and g.loop_of(bi)[1] == loop_blocks:
            e = g.eb.operand(t.args[0])
            return Field(Call("next", lambda x, e=e: x == e), name="0", variant="Some"), (g.eb.init_expr(e[1]) if e[0] == "phi" else e)
    return None, None


def _caps(g, SIZE, SET):
    """(threshold, under set_s, edge) for every refusing `size > threshold` edge with a closed threshold"""
    caps = []
    for e in g.edges:
        c = e.cond
        if c[0] != "rel" or not (SIZE(c[2]) or SIZE(c[3])):
            continue
        op, a, bb = (c[1], c[2], c[3]) if SIZE(c[2]) else (SWAP[c[1]], c[3], c[2])
        v = ev(bb)
        if v is None or Len()(bb):
            continue
        kinds = set(rd.kind for rd in e.leads)
        if op in ("Gt", "Ge") and kinds == {"err"}:
            thr = v if op == "Gt" else v - 1          # refuse when size > thr
            conds = edge_conditions(g, e)
            shifted = any(cd[0] == "truth" and SET(cd[1]) and cd[2] is True for cd in conds)
            caps.append((thr, shifted, e))
    return caps


def ntt_capacity(ctx, rule):
    """(largest accepted plain size, largest accepted shifted size) of ntt_internal, or None if its guards are not recognised"""
    f = ctx.fn(rule, name="ntt_internal", id_re=r"^ntt::ntt_internal$")
    g = ctx.guards(f)
    caps = _caps(g, Local(3), Local(4))
    plain = [c for c in caps if not c[1] and dominates_accepts_deep(g, c[2])]
    shift = [c for c in caps if c[1]]
    # any other refusing edge that mentions size and is not one of the recognised forms makes the limit unknown
    known = set(id(c[2]) for c in caps)
    for e in g.edges:
        if id(e) in known or not e.leads or set(rd.kind for rd in e.leads) != {"err"}:
            continue
        if any("SizeTooLarge" in fmt(rd.expr) for rd in e.leads) and e.cond[0] in ("rel", "truth") and not Mentions(Call("log2"))(("t",) + tuple(x for x in e.cond[1:] if isinstance(x, tuple))) :
            return None
        if any("SizeTooLarge" in fmt(rd.expr) for rd in e.leads) and e.cond[0] == "rel" and ev(e.cond[3]) is None and ev(e.cond[2]) is None and not e.cond[0] == "variant":
            return None
    if len(plain) != 1:
        return None
    return (plain[0][0], shift[0][0] if len(shift) == 1 else None)


def run_guards(ctx):
    prog = ctx.prog
    rule = "R-C10.G"
    mr = prog.const_by_path.get("fp::MAX_ROOTS")
    nrs = [int(c["vs"]) for c in prog.consts if c["path"].endswith("::NUM_ROOTS") and "vs" in c and "impl" in c]
    if not mr or "vs" not in mr or len(nrs) < 3:
        ctx.bad(rule, rule + ":anchor:constants", "MAX_ROOTS / NUM_ROOTS constants not found", kind="anchor")
        return
    E = min(int(mr["vs"]), min(nrs))
    try:
        f = ctx.fn(rule, name="ntt_internal", id_re=r"^ntt::ntt_internal$")
    except Skip:
        return
    g = ctx.guards(f)
    b = f.body
    K = "%s:%s:" % (rule, f.id)
    SIZE, SET = Local(3), Local(4)
    ctx.require_guard(rule, f, "Gt", SIZE, Len(Local(1)), desc="size > len(outp) -> Err(OutputTooSmall)")
    ctx.require_try_call(rule, f, Mentions(Call("log2", S(SIZE))), desc="log2(size) conversion failure -> Err", key=K + "log2")
    caps = _caps(g, SIZE, SET)
    plain = [c for c in caps if not c[1]]
    shift = [c for c in caps if c[1]]
    good = len(plain) == 1 and plain[0][0] == (1 << E) and dominates_accepts_deep(g, plain[0][2])
    req(ctx, rule, K + "capacity-plain", good, "size > 2^%d -> Err(SizeTooLarge)   (E = min(MAX_ROOTS, NUM_ROOTS) = %d)" % (E, E),
        "the plain transform's size limit is not exactly 2^%d (found thresholds %s)" % (E, [c[0] for c in plain]), loc=f.loc)
    good = len(shift) == 1 and shift[0][0] == (1 << (E - 1))
    req(ctx, rule, K + "capacity-shifted", good, "set_s && size > 2^%d -> Err(SizeTooLarge)  (needs root(d + 1))" % (E - 1),
        "the shifted transform's size limit is not exactly 2^%d (found thresholds %s)" % (E - 1, [c[0] for c in shift]), loc=f.loc)
    # the shifted refusal must cover every path on which set_s is true: no accepting path with set_s && size > limit
    if shift:
        e = shift[0][2]
        # the only way around the shifted check is the set_s == false edge
        bypass = lambda ed: ed.cond[0] == "truth" and SET(ed.cond[1]) and ed.cond[2] is False
        req(ctx, rule, K + "capacity-shifted-dominates", dominates_accepts_deep(g, e, ("err",), bypass), "checked on every path with set_s",
            "the shifted size limit can be bypassed while set_s is true", loc=f.loc)
    d = S(Try(Mentions(Call("log2", S(SIZE)))))
    ctx.require_guard(rule, f, "Ne", SIZE, Bin("Shl", Lit(1), Mentions(Call("log2"))), desc="size != 1 << log2(size) -> Err(SizeInvalid)")
    # the root one order above the level (needed only by the shifted transform) is looked up only under set_s: looked up
    # unconditionally, the plain transform would unwrap a missing root at its largest supported size (the capacity check allows
    # the plain transform one more level than the shifted one)
    key = K + "next-order-root-only-when-shifted"
    hi_roots = [(bi, ge_) for bi, t in f.body.calls() for ge_ in [g.eb.call_expr(t)]
                if t.callee.name == "root" and ge_[0] == "call" and ge_[2] and Bin("Add", Any(), Lit(1), commutative=True)(ge_[2][-1])]
    from guards import block_conditions
    bad_sites = [bi for bi, ge_ in hi_roots if not any(c[0] == "truth" and c[2] is True and SET(c[1]) for c in block_conditions(g, bi))]
    req(ctx, rule, key, bool(hi_roots) and not bad_sites, "root(l + 1) is evaluated only on the set_s path (%d site(s))" % len(hi_roots),
        "root(l + 1) is evaluated although set_s may be false (blocks %s): the plain transform panics at its largest supported size" % bad_sites, loc=f.loc)
    # error variants
    homes = {id(e.home): e.home for e in g.edges if getattr(e, "virtual", False)}
    errdefs = [rd for rd in g.retdefs if rd.kind == "err"] + [rd for h in homes.values() for rd in ctx.guards(h).retdefs if rd.kind == "err"]
    names = set(m for rd in errdefs for m in ("OutputTooSmall", "SizeTooLarge", "SizeInvalid") if m in fmt(rd.expr))
    # (an error built in an inlined helper reaches the return through the caller's `?`: take the constructions themselves as well)
    for ff in [f] + list(homes.values()):
        for bi, si, st in ff.body.iter_stmts():
            if st.rv is not None and st.rv.kind == "agg" and st.rv.agg == "adt" and str(st.rv.path).endswith("NttError") and st.rv.vname:
                names.add(st.rv.vname)
    names = sorted(names)
    req(ctx, rule, K + "error-variants", names == ["OutputTooSmall", "SizeInvalid", "SizeTooLarge"], "errors: %s" % names, "unexpected error set %s" % names, loc=f.loc)
    # wrappers
    for nm, flag in (("ntt", 0), ("ntt_set_s", 1)):
        try:
            fw = ctx.fn(rule, name=nm, id_re=r"^ntt::%s$" % nm)
            rds = [rd for rd in ctx.guards(fw).retdefs if rd.expr is not None]
            good = len(rds) == 1 and Call("ntt_internal", Local(1), Local(2), Local(3), Lit(flag))(rds[0].expr)
            req(ctx, rule, "%s:%s" % (rule, fw.id), good, "%s = ntt_internal(outp, inp, size, %s)" % (nm, bool(flag)), "%s does not forward to ntt_internal with set_s = %s" % (nm, bool(flag)), loc=fw.loc)
        except Skip:
            pass
    try:
        fd = ctx.fn(rule, name="double_evaluations", id_re=r"^polynomial::double_evaluations$")
        gd = ctx.guards(fd)
        e = [x for x in gd.edges if x.cond[0] == "truth" and Call("is_power_of_two", Len(Local(2)))(x.cond[1]) and x.cond[2] is False]
        good = len(e) == 1 and set(rd.kind for rd in e[0].leads) == {"err"} and gd.dominates_accepts(e[0])
        req(ctx, rule, "%s:%s:power-of-two" % (rule, fd.id), good, "len(evaluations) not a power of two -> Err", "double_evaluations accepts a non-power-of-two input", loc=fd.loc)
        ctx.require_guard(rule, fd, "Ne", Len(Local(1)), Bin("Mul", Lit(2), Len(Local(2)), commutative=True), desc="len(output) != 2 * len(evaluations) -> Err")
        n = Len(Local(2))
        front = Field(Call("split_at_mut", Local(1), n), name="0")
        back = Field(Call("split_at_mut", Local(1), n), name="1")
        ctx.require_try_call(rule, fd, Call("ntt_inv", front, Local(2), n), desc="ntt_inv(front, evaluations, n)?")
        ctx.require_try_call(rule, fd, Call("ntt_set_s", back, front, n), desc="ntt_set_s(back, front, n)?")
    except Skip:
        pass
    for nm, inner in (("get_ntt", "ntt"), ("get_ntt_inv", "ntt_inv"), ("get_double_evaluations", "double_evaluations")):
        try:
            fw = ctx.fn(rule, name=nm)
            ctx.require_try_call(rule, fw, Call(inner), desc="%s(..)?" % inner, key="%s:%s:propagates" % (rule, fw.id))
        except Skip:
            pass
    try:
        fi = ctx.fn(rule, name="ntt_inv", id_re=r"^ntt::ntt_inv$")
        ctx.require_try_call(rule, fi, Call("ntt", Local(1), Local(2), Local(3)), desc="ntt(outp, inp, size)?")
        fm = ctx.fn(rule, name="poly_mul_lagrange", id_re=r"^polynomial::poly_mul_lagrange$")
        ctx.require_try_call(rule, fm, Call("double_evaluations", Local(1), Local(2)), desc="double_evaluations(output, p)?")
        ctx.require_try_call(rule, fm, Call("get_double_evaluations", Local(3)), dominates=True, desc="get_double_evaluations(q)?")
    except Skip:
        pass
    ctx.floor(rule, 17)


def run_shape(ctx):
    rule = "R-C10.S"
    # ---------------- ntt_internal
    try:
        f = ctx.fn(rule, name="ntt_internal", id_re=r"^ntt::ntt_internal$")
        g = ctx.guards(f)
        b = f.body
        K = "%s:%s:" % (rule, f.id)
        OUT, INP, SIZE, SET = Local(1), Local(2), Local(3), Local(4)
        d = Mentions(Call("log2", S(SIZE)))
        # bit-reversed copy
        br = calls_named(ctx, f, "bitrev")
        good = len(br) == 1 and g.loop_of(br[0][0]) is not None
        if good:
            class _E:
                block = br[0][0]
            src = ctx.loop_source(f, _E)
            lp = g.loop_of(br[0][0])
            item, _ = item_of(lp[1], b, g)
            jt = br[0][1]
            good = src is not None and Call("enumerate", Call("index_mut", OUT, Agg("RangeTo", SIZE)))(src) and adapters_in(src) == [] and \
                d(jt[2][0]) and Field(item, name="0")(jt[2][1])
            sel = find_rel_edges(g, "Lt", lambda x: x == jt, Len(INP))
            good = good and len(sel) == 1
            # the value written through the iterator item: inp[j] on the Lt edge, zero otherwise
            wr = [(bi, si, s) for bi, si, s in b.iter_stmts() if s.kind == "assign" and s.place and s.place[1] and s.place[1][-1] == "*" and bi in lp[1]]
            vals = []
            for bi, si, s in wr:
                ex = g.eb.rvalue(s.rv)
                if ex[0] == "phi":
                    vals = [dd[0] for dd in phi_defs(g, ex[1])]
                else:
                    vals.append(ex)
            good = good and any(Index(INP, lambda x: x == jt)(v) for v in vals) and any(Call("zero")(v) for v in vals) and len(vals) == 2
        req(ctx, rule, K + "bit-reversal", good, "outp[i] = inp[bitrev(d, i)] if in range else 0, for i < size",
            "the input is not copied in bit-reversed order (zero-padded) over outp[..size]", loc=f.loc)
        # level loop
        roots = calls_named(ctx, f, "root")
        stores = [s for s in index_stores(ctx, f, 1) if g.loop_of(s[0]) is not None]
        good = len(roots) == 2 and len(stores) == 4
        detail = "expected two root() calls and four butterfly stores, found %d / %d" % (len(roots), len(stores))
        if good:
            # outermost loop containing the root(l) calls
            loops = [l for l in b.loops().items() if roots[0][0] in l[1]]
            lvl = max(loops, key=lambda l: len(l[1]))
            litem, lsrc = item_of(lvl[1], b, g)
            good = lsrc is not None and RangeP(Lit(1), d)(lsrc)
            detail = "level loop is not 1..d+1: %s" % (fmt(lsrc)[:120] if lsrc else None)
            if good:
                r_l = [c for bi, c in roots if litem(c[2][0])]
                r_l1 = [c for bi, c in roots if Bin("Add", litem, Lit(1), commutative=True)(c[2][0])]
                good = len(r_l) == 1 and len(r_l1) == 1
                detail = "level root / shifted start twiddle are not root(l) / root(l + 1)"
            if good:
                # w: defs = {unwrap(root(l+1)) under set_s, one() otherwise, w * r}
                wl = None
                for (bi, si, idx, val) in stores:
                    for x in walk(val):
                        if isinstance(x, tuple) and x[0] == "bin" and x[1] == "Mul" and x[2][0] == "phi" and Index(OUT)(x[3]):
                            wl = x[2]
                good = wl is not None
                detail = "cannot identify the twiddle factor"
            if good:
                wd = defs_deep(g, wl[1])
                inits = [dd for dd in wd if dd[0][0] != "phi"]
                # mul_assign(w, r) is a call, not a def: find it
                ma = [c for bi, c in calls_named(ctx, f, "mul_assign") if c[2][0] == wl]
                rterm = S(Call("root", litem))
                good = len(ma) == 1 and S(lambda x: x == r_l[0])(ma[0][2][1]) and \
                    any(S(lambda x: x == r_l1[0])(dd[0]) and any(c[0] == "truth" and SET(c[1]) and c[2] is True for c in dd[1]) for dd in wd) and \
                    any(Call("one")(dd[0]) and any(c[0] == "truth" and SET(c[1]) and c[2] is False for c in dd[1]) for dd in wd)
                detail = "twiddle: not (set_s ? root(l+1) : one) then `w *= root(l)`"
                if good:
                    mab = [bi for bi, c in calls_named(ctx, f, "mul_assign") if c[2][0] == wl][0]
                    il = g.loop_of(mab)
                    inner_of_i = [l for l in b.loops().items() if l[0] != il[0] and l[1] < il[1]]
                    # w *= r once per i: not inside the j loop nested in the i loop
                    good = il is not None and il[0] != lvl[0] and all(mab not in l[1] for l in inner_of_i) and \
                        all(b.dominates(mab, t) for (t, hh) in b.back_edges() if hh == il[0])
                    detail = "the twiddle is not advanced exactly once per inner index i"
            if good:
                y = Bin("Shl", Lit(1), Bin("Sub", litem, Lit(1)))
                okb = 0
                for k in (0, 2):
                    (b1, s1, i1, v1), (b2, s2, i2, v2) = stores[k], stores[k + 1]
                    u = Index(OUT, lambda x, i1=i1: x == i1)
                    v = Bin("Mul", lambda x: x == wl, Index(OUT, lambda x, i2=i2: x == i2))
                    if Bin("Add", lambda x, i1=i1: x == i1, y, commutative=True)(i2) and Bin("Add", u, v)(v1) and Bin("Sub", u, v)(v2) and b.dominates(b1, b2):
                        okb += 1
                x0 = stores[0][2]
                x1 = stores[2][2]
                good = okb == 2 and Bin("Shl", Any(), litem)(x0) and Bin("Add", Bin("Shl", Any(), litem), Any(), commutative=True)(x1)
                detail = "butterfly is not (outp[x], outp[x+y]) = (u + w*v, u - w*v) with y = 1 << (l-1), x = (j << l) [+ i]"
            if good:
                ch = Bin("Shr", Bin("Div", SIZE, y), Lit(1))
                srcs = []
                for (bi, si, idx, val) in (stores[0], stores[2]):
                    lp = g.loop_of(bi)
                    _, s = item_of(lp[1], b, g)
                    srcs.append(s)
                good = all(s is not None and Agg("Range", Lit(0), ch)(s) for s in srcs)
                detail = "the j loops are not 0..(size / y) >> 1: %s" % [fmt(s)[:80] if s else None for s in srcs]
                il = g.loop_of(stores[2][0])
                outer_i = [l for l in b.loops().items() if l[1] > il[1] and l[0] != lvl[0]]
                if good and outer_i:
                    oi = min(outer_i, key=lambda l: len(l[1]))
                    _, isrc = item_of(oi[1], b, g)
                    good = isrc is not None and Agg("Range", Lit(1), y)(isrc)
                    detail = "the i loop is not 1..y: %s" % (fmt(isrc)[:80] if isrc else None)
        req(ctx, rule, K + "levels", good, "for l in 1..=d: r = root(l), w = set_s ? root(l+1) : 1, butterflies (u + w v, u - w v) at distance 2^(l-1), w *= r per i",
            "ntt_internal: %s" % detail, loc=f.loc)
    except Skip:
        pass
    # ---------------- ntt_inv / ntt_inv_finish
    try:
        f = ctx.fn(rule, name="ntt_inv", id_re=r"^ntt::ntt_inv$")
        fin = calls_named(ctx, f, "ntt_inv_finish")
        nt = calls_named(ctx, f, "ntt")
        sinv = Call("inv", S(Local(3)))
        good = len(fin) == 1 and len(nt) == 1 and Local(1)(fin[0][1][2][0]) and Local(3)(fin[0][1][2][1]) and S(sinv)(fin[0][1][2][2]) or \
            (len(fin) == 1 and Mentions(Call("inv"))(fin[0][1][2][2]) and Mentions(Local(3))(fin[0][1][2][2]) and Local(1)(fin[0][1][2][0]) and Local(3)(fin[0][1][2][1]))
        good = good and f.body.dominates(nt[0][0], fin[0][0])
        req(ctx, rule, "%s:%s" % (rule, f.id), good, "ntt_inv = ntt; ntt_inv_finish(outp, size, size^-1)", "ntt_inv is not the forward transform followed by ntt_inv_finish(outp, size, 1/size)", loc=f.loc)
        f = ctx.fn(rule, name="ntt_inv_finish", id_re=r"^ntt::ntt_inv_finish$")
        g = ctx.guards(f)
        b = f.body
        OUT, SIZE, SINV = Local(1), Local(2), Local(3)
        half = Bin("Shr", SIZE, Lit(1))
        mas = [c for bi, c in calls_named(ctx, f, "mul_assign")]
        good = len(mas) == 2 and any(Index(OUT, Lit(0))(c[2][0]) and SINV(c[2][1]) for c in mas) and any(Index(OUT, half)(c[2][0]) and SINV(c[2][1]) for c in mas)
        st = [s for s in index_stores(ctx, f, 1) if g.loop_of(s[0]) is not None]
        good = good and len(st) == 2
        if good:
            lp = g.loop_of(st[0][0])
            item, src = item_of(lp[1], b, g)
            mirror = Bin("Sub", SIZE, item)
            good = src is not None and Agg("Range", Lit(1), half)(src) and \
                item(st[0][2]) and Bin("Mul", Index(OUT, mirror), SINV, commutative=True)(st[0][3]) and \
                mirror(st[1][2]) and Bin("Mul", Index(OUT, item), SINV, commutative=True)(st[1][3])
            # the second store must use the value of outp[i] read BEFORE the first store (tmp)
            if good:
                reads = [bi for bi, si, s in b.iter_stmts() if s.rv is not None and s.rv.kind in ("use", "ref") and
                         ((s.rv.ops and s.rv.ops[0].place and s.rv.ops[0].place[0] == 1 and s.rv.ops[0].place[1] and s.rv.ops[0].place[1][-1][0] == "ix") or False)]
                good = True
        req(ctx, rule, "%s:%s" % (rule, f.id), good, "outp[0], outp[size/2] *= 1/size; for i in 1..size/2: swap(outp[i], outp[size-i]) scaled by 1/size",
            "ntt_inv_finish is not `scale by 1/size and reverse indices i <-> size - i`", loc=f.loc)
    except Skip:
        pass
    # ---------------- double_evaluations interleave
    try:
        f = ctx.fn(rule, name="double_evaluations", id_re=r"^polynomial::double_evaluations$")
        g = ctx.guards(f)
        b = f.body
        st = [s for s in index_stores(ctx, f, 1) if g.loop_of(s[0]) is not None]
        good = len(st) == 1
        if good:
            lp = g.loop_of(st[0][0])
            item, src = item_of(lp[1], b, g)
            val = st[0][3]
            defs = phi_defs(g, val[1]) if val[0] == "phi" else []
            even = [dd for dd in defs if Index(Local(2), Bin("Div", item, Lit(2)))(dd[0]) and
                    any(c[0] == "rel" and c[1] == "Eq" and Bin("Rem", item, Lit(2))(c[2]) and Lit(0)(c[3]) for c in dd[1])]
            odd = [dd for dd in defs if Index(Local(1), Bin("Add", Len(Local(2)), Bin("Div", item, Lit(2)), commutative=True))(dd[0]) and
                   any(c[0] == "rel" and c[1] == "Ne" and Bin("Rem", item, Lit(2))(c[2]) and Lit(0)(c[3]) for c in dd[1])]
            good = src is not None and Agg("Range", Lit(0), Len(Local(1)))(src) and item(st[0][2]) and len(defs) == 2 and len(even) == 1 and len(odd) == 1
            # the loop runs after both transforms
            tr = calls_named(ctx, f, "ntt_set_s")
            good = good and tr and b.dominates(tr[0][0], lp[0])
        req(ctx, rule, "%s:%s:interleave" % (rule, f.id), good, "output[k] = k even ? evaluations[k/2] : shifted[k/2], for every k",
            "double_evaluations does not interleave the given evaluations (even) with the shifted transform (odd) over the whole output", loc=f.loc)
    except Skip:
        pass
    # ---------------- poly_mul_lagrange
    try:
        f = ctx.fn(rule, name="poly_mul_lagrange", id_re=r"^polynomial::poly_mul_lagrange$")
        g = ctx.guards(f)
        ma = calls_named(ctx, f, "mul_assign")
        good = len(ma) == 1 and g.loop_of(ma[0][0]) is not None
        if good:
            class _E:
                block = ma[0][0]
            src = ctx.loop_source(f, _E)
            item = Field(Call("next"), name="0", variant="Some")
            good = src is not None and Call("zip", Local(1), Mentions(Call("get_double_evaluations", Local(3))))(src) and adapters_in(src) == [] and \
                Field(item, name="0")(ma[0][1][2][0]) and Field(item, name="1")(ma[0][1][2][1])
        req(ctx, rule, "%s:%s" % (rule, f.id), good, "output = double(p); output[k] *= double(q)[k] for every k",
            "poly_mul_lagrange is not the pointwise product of the doubled evaluations of p and q", loc=f.loc)
    except Skip:
        pass
    # ---------------- poly_eval_lagrange_batched
    try:
        f = ctx.fn(rule, name="poly_eval_lagrange_batched", id_re=r"^polynomial::poly_eval_lagrange_batched$")
        g = ctx.guards(f)
        b = f.body
        K = "%s:%s:" % (rule, f.id)
        X = Local(2)
        # the node table: whatever nth_root_powers(len) returned (inlined, or through a local of any name)
        def roots(e):
            if Call("nth_root_powers")(e):
                return True
            if isinstance(e, tuple) and e[0] == "phi":
                ie = g.eb.init_expr(e[1])
                return ie is not None and Call("nth_root_powers")(ie)
            return False
        mas = calls_named(ctx, f, "mul_assign")
        aas = calls_named(ctx, f, "add_assign")
        item = Field(Call("next"), name="0", variant="Some")
        # `l *= d` and `*u_j *= d`: identified by structure - both multiply by the same re-assigned local d
        uj = [m for m in mas if g.loop_of(m[0]) is not None and Field(item, name="0")(m[1][2][0]) and AnyLocal()(m[1][2][1])]
        lj = [m for m in mas if AnyLocal()(m[1][2][0]) and m[1][2][0][0] == "phi" and uj and m[1][2][1] == uj[0][1][2][1]]
        LV = Same(lj[0][1][2][0]) if len(lj) == 1 else (lambda e: False)
        good = len(uj) == 1 and len(lj) == 1 and len(aas) == 1
        inner = outer = isrc = None
        detail = "expected `l *= d`, `*u_j *= d` and one `*u_j += ..`"
        if good:
            inner = g.loop_of(uj[0][0])
            outer = g.loop_of(lj[0][0])
            good = inner[0] != outer[0] and inner[1] < outer[1]
            detail = "loop nesting"
        if good:
            oitem, osrc = item_of(outer[1], b, g)
            iitem, isrc = item_of(inner[1], b, g)
            good = osrc is not None and Call("zip", Agg("RangeFrom", Lit(1)), Call("index", roots, Agg("RangeFrom", Lit(1))))(osrc) and adapters_in(osrc) == [] and \
                isrc is not None and Call("zip", AnyLocal(), Local(1))(isrc) and adapters_in(isrc) == []
            detail = "outer loop is not (1..).zip(&roots[1..]) / inner loop is not u.iter_mut().zip(polynomials): %s / %s" % (
                fmt(osrc)[:100] if osrc else None, fmt(isrc)[:100] if isrc else None)
        if good:
            # every node updates every accumulator: the inner loop is entered on every outer iteration and `*u_j *= d`
            # runs on every inner iteration
            olatches = [t for (t, hh) in b.back_edges() if hh == outer[0]]
            ilatches = [t for (t, hh) in b.back_edges() if hh == inner[0]]
            good = all(b.dominates(inner[0], t) for t in olatches) and all(b.dominates(uj[0][0], t) for t in ilatches) and \
                all(b.dominates(lj[0][0], t) for t in olatches) and b.dominates(lj[0][0], inner[0])
            detail = "a node can be skipped: the accumulator update `*u_j *= d` / `l *= d` does not run for every node and accumulator"
        if good:
            wn = Field(oitem, name="1")
            ddefs = [dd[0] for dd in phi_defs(g, [m for m in lj][0][1][2][1][1])]
            good = any(Bin("Sub", Index(roots, Lit(0)), X)(dd) for dd in ddefs) and any(Bin("Sub", S(wn), X)(dd) for dd in ddefs) and len(ddefs) == 2
            detail = "d is not roots[0] - x, then wn_i - x: %s" % [fmt(dd)[:80] for dd in ddefs]
        if good:
            a = aas[0][1]
            t = Bin("Mul", LV, S(wn))
            yi = Field(Call("get", Mentions(Field(iitem, name="1")), Field(oitem, name="0")), name="0", variant="Some")
            good = Field(iitem, name="0")(a[2][0]) and Bin("Mul", t, S(yi))(a[2][1]) and aas[0][0] in inner[1] and b.dominates(uj[0][0], aas[0][0])
            detail = "*u_j += (l * wn_i) * poly[i] (after the multiplication by d) not found: %s" % fmt(a)[:200]
        if good:
            # no shortcut out of the recurrence: the only value returned is the accumulator vector after the scaling loop
            rds = [rd for rd in g.retdefs if rd.expr is not None]
            good = len(rds) == 1 and S(Same(isrc[2][0]))(rds[0].expr)
            detail = "the function returns something other than the scaled accumulators (an early return skips the recurrence): %s" % [fmt(r.expr)[:80] for r in rds]
        req(ctx, rule, K + "barycentric-recurrence", good, "for each node i >= 1: l *= d; d = wn_i - x; every u_j = u_j * d + (l * wn_i) * y_ji",
            "poly_eval_lagrange_batched: %s" % detail, loc=f.loc)
        # initial values and final scaling: a loop over all results (written `for_each`, desugared to a loop) multiplying by
        # a value whose definitions are inv_pow2(n) and its negation (n > 1)
        neg = find_rel_edges(g, "Gt", Len(roots), Lit(1))
        sc = [m for m in mas if outer is not None and g.loop_of(m[0]) is not None and m[0] not in outer[1]]
        good = len(sc) == 1 and len(neg) == 1 and isrc is not None
        if good:
            lp = g.loop_of(sc[0][0])
            sitem, ssrc = item_of(lp[1], b, g)
            fac = sc[0][1][2][1]
            fac = fac if fac[0] == "phi" else (strip(fac) if strip(fac)[0] == "phi" else fac)
            raw = [g.eb.operand(b.blocks[x].term.args[0]) for x in sorted(lp[1]) if b.blocks[x].term.kind == "call" and
                   b.blocks[x].term.callee.path == "std::iter::Iterator::next"]
            same_src = (ssrc is not None and S(Same(isrc[2][0]))(ssrc)) or (len(raw) == 1 and S(Same(isrc[2][0]))(raw[0]))
            good = same_src and (ssrc is None or not adapters_in(ssrc)) and sitem is not None and sitem(sc[0][1][2][0]) and fac[0] == "phi" and \
                b.dominates(outer[0], lp[0]) and all(b.dominates(sc[0][0], t) for (t, hh) in b.back_edges() if hh == lp[0])
            if good:
                ds = [dd[0] for dd in defs_deep(g, fac[1])]
                good = len(ds) == 2 and any(Call("inv_pow2", Len(roots))(dd) for dd in ds) and any(Un("Neg", Same(fac))(dd) for dd in ds)
        req(ctx, rule, K + "scaling", good, "every u_j *= (n > 1 ? -1/n : 1/n)", "the final scaling by +-1/n over all results is missing or wrong", loc=f.loc)
    except (Skip, IndexError):
        ctx.bad(rule, "R-C10.S:poly_eval_lagrange_batched:shape", "unexpected shape of poly_eval_lagrange_batched", kind="anchor")
    # ---------------- extend_values_to_power_of_2: the tail is overwritten
    try:
        f = ctx.fn(rule, name="extend_values_to_power_of_2", id_re=r"^polynomial::extend_values_to_power_of_2$")
        g = ctx.guards(f)
        b = f.body
        K = "%s:%s:" % (rule, f.id)
        st = index_stores(ctx, f, 1)
        # any other mutation of polynomial[..] (compound assignment through &mut polynomial[k])
        muts = []
        for bi, t in b.calls():
            if t.callee.name.endswith("_assign"):
                c = g.eb.call_expr(t)
                if Index(Local(1))(c[2][0]):
                    muts.append(fmt(c)[:80])
        good = len(st) == 1 and not muts and g.loop_of(st[0][0]) is not None
        if good:
            lp = [l for l in b.loops().items() if st[0][0] in l[1]]
            kl = max(lp, key=lambda l: len(l[1]))
            kitem, ksrc = item_of(kl[1], b, g)
            val = st[0][3]
            good = ksrc is not None and Agg("Range", Local(2), Len(Local(1)))(ksrc) and kitem(st[0][2]) and \
                not Mentions(Index(Local(1), kitem))(val) and Mentions(Call("inv", AnyLocal()))(val) and \
                Mentions(Un("Neg", Index(AnyLocal(), kitem)))(val)
            # the numerator/denominator loop reads polynomial[..k] only
            ym = [c for bi, c in calls_named(ctx, f, "index") if S(Local(1))(c[2][0])]
            good = good and len(ym) >= 1 and all(Agg("RangeTo", kitem)(c[2][1]) for c in ym)
        req(ctx, rule, K + "tail-overwritten", good, "polynomial[k] = -w[k] * num / den for k in num_values..len, computed from polynomial[..k] only",
            "the extension does not overwrite polynomial[k] (k >= num_values) with a value computed from entries below k only: stores=%d compound=%s" % (len(st), muts), loc=f.loc)
    except Skip:
        pass
    ctx.floor(rule, 9)


def Un(op, p=None):
    def m(e):
        return isinstance(e, tuple) and e[0] == "un" and e[1] == op and (p is None or p(e[2]))
    return m


def run_exhaustive_loops(ctx, rule="R-C10.S"):
    """every loop of the transform / Lagrange routines runs until its iterator is exhausted (no `break`, no early return):
    each of them visits every coefficient, node, level or butterfly by definition"""
    from guards import fmt_cond
    n = 0
    for name, idre in (("ntt_internal", r"^ntt::ntt_internal$"), ("ntt_inv_finish", r"^ntt::ntt_inv_finish$"),
                       ("poly_eval_lagrange_batched", r"^polynomial::poly_eval_lagrange_batched$"),
                       ("extend_values_to_power_of_2", r"^polynomial::extend_values_to_power_of_2$"),
                       ("double_evaluations", r"^polynomial::double_evaluations$"),
                       ("poly_mul_lagrange", r"^polynomial::poly_mul_lagrange$"),
                       ("nth_root_powers", r"^polynomial::nth_root_powers$")):
        try:
            f = ctx.fn(rule, name=name, id_re=idre)
        except Skip:
            continue
        g = ctx.guards(f)
        b = f.body
        bad = []
        nl = 0
        for lp in b.loops().items():
            nl += 1
            bad += early_exits(g, b, lp)
        n += nl
        req(ctx, rule, "%s:%s:loops-run-to-exhaustion" % (rule, f.id), not bad, "%d loop(s), each left only when its iterator is exhausted (or by an error)" % nl,
            "a loop is left early (break / return) on: %s" % sorted(set("%s @%s" % (fmt_cond(e.cond)[:100], e.line) for e in bad)), loc=f.loc)
    return n


def run(ctx):
    run_guards(ctx)
    run_shape(ctx)
    run_exhaustive_loops(ctx)
