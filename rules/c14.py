from pat import *
from expr import fmt, walk
from harness import Skip
from rules.common import adapters_in, calls_named, req, all_terms, S

INFO = {
    "explanation": "Static structural rules over MIR (feature `multithreaded` enabled) for the only parallel construct in the "
                   "crate. Schedule independence is argued from shape: the rayon pipeline in ParallelSumMultithreaded::eval_poly "
                   "is par_chunks(inner.arity()) -> fold(identity = fresh state with ZERO partial sums, step = evaluate the "
                   "per-thread clone of the inner gadget on the chunk and add the result element-wise into the partial sum) -> "
                   "map(partial_sum) -> reduce(identity = zero vector, op = element-wise field addition) -> copy into outp. With "
                   "an associative, commutative addition and identities that are its neutral element, rayon's fold/reduce "
                   "contract gives the same value for every split of the chunk sequence, i.e. for every pool size and stealing "
                   "outcome, and that value is the serial sum, whose loop (zero outp; for each chunk of inner.arity() inputs: "
                   "outp[i] += inner.eval_poly(chunk)[i]) is extracted as the reference. Also decided: closures passed to rayon "
                   "mutate only their own fold state (no captured variable is written, callee whitelist), every other Gadget "
                   "method of the multithreaded wrapper delegates to the serial gadget, each *_multithreaded Prio3 constructor "
                   "is identical to its serial sibling (same algorithm id, proof count and type parameters, Self type equal "
                   "modulo the gadget), and no other function in the crate calls into rayon. The arithmetic of the field "
                   "(associativity/commutativity of +, C09) and rayon's contract are assumed, not decided; no schedule is run.",
    "trusted_base": ["rustc type checker (Fn + Sync + Send bounds on the rayon closures exclude data races) and MIR construction",
                     "rayon's fold/reduce contract", "expression reconstruction over MIR (sa/expr.py)"],
    "assumptions": ["field addition is associative and commutative with neutral element zero() (C09)",
                    "the inner gadget's eval_poly result is a function of its inputs only (it overwrites its output buffer)"],
}

MT = "flp::gadgets::ParallelSumMultithreaded"
SER = "flp::gadgets::ParallelSum"
ZEROS = lambda n: Call("from_elem", Call("zero"), n)


def closure_fn(ctx, term):
    if isinstance(term, tuple) and term[0] == "closure":
        return ctx.prog.by_did.get(term[3])
    return None


def single_ret(ctx, f):
    g = ctx.guards(f)
    rds = [rd for rd in g.retdefs if rd.expr is not None]
    return rds[0].expr if len(rds) == 1 else None


def writes_captured(cf):
    """statements or calls in a closure that write through its captured environment (local 1)"""
    out = []
    for bi, si, s in cf.body.iter_stmts():
        if s.kind == "assign" and s.place and s.place[0] == 1 and s.place[1]:
            out.append("assignment through a captured variable at line %s" % s.line)
        if s.rv is not None and s.rv.kind in ("ref", "rawptr") and s.rv.mut and s.rv.place and s.rv.place[0] == 1:
            out.append("mutable borrow of a captured variable at line %s" % s.line)
    return out


def run(ctx):
    prog = ctx.prog
    if "multithreaded" not in (prog.features if hasattr(prog, "features") else prog.j.get("features", [])):
        ctx.bad("R-C14.E", "R-C14.E:feature", "facts were not extracted with feature `multithreaded`", kind="anchor")
        return
    rule = "R-C14.E"
    try:
        f = ctx.fn(rule, name="eval_poly", trait="Gadget", self_adt=MT)
        fs = ctx.fn(rule, name="eval_poly", trait="Gadget", self_adt=SER)
    except Skip:
        return
    g = ctx.guards(f)
    b = f.body
    K = "%s:%s:" % (rule, f.id)
    # entry check (same as serial)
    for ff in (f, fs):
        ctx.require_try_call(rule, ff, Call("gadget_eval_poly_check", Local(1), Local(2), Local(3)), dominates=True,
                             desc="gadget_eval_poly_check(self, outp, inp)", key="%s:%s:entry-check" % (rule, ff.id))
    # the pipeline
    red = calls_named(ctx, f, "reduce")
    if len(red) != 1:
        ctx.bad(rule, K + "pipeline", "expected exactly one reduce(..) in the multithreaded eval_poly", loc=f.loc)
        return
    r = red[0][1]
    inner_arity_mt = Call("arity", Field(Field(Local(1), "serial_sum"), "inner"))
    chain_ok = Call("reduce", Call("map", Call("fold", Call("par_chunks", Local(3), inner_arity_mt))))(r) and \
        r[1].startswith("rayon::") and r[2][0][1].startswith("rayon::") and r[2][0][2][0][1].startswith("rayon::")
    rayon_calls = [x for x in walk(r) if isinstance(x, tuple) and x[0] == "call" and x[1].startswith("rayon::")]
    req(ctx, rule, K + "pipeline", chain_ok and len(rayon_calls) == 4,
        "inp.par_chunks(serial_sum.inner.arity()).fold(..).map(..).reduce(..) with no other parallel adapter",
        "the parallel pipeline is not par_chunks(inner.arity()).fold().map().reduce(): %s" % [x[1] for x in rayon_calls], loc=f.loc)
    if not chain_ok:
        return
    mp = r[2][0]
    fo = mp[2][0]
    c_id, c_step, c_map, c_rid, r_op = fo[2][1], fo[2][2], mp[2][1], r[2][1], r[2][2]
    # serial reference: chunks(inp, self.inner.arity())
    gs = ctx.guards(fs)
    ev = calls_named(ctx, fs, "eval_poly")
    good = False
    if len(ev) == 1 and gs.loop_of(ev[0][0]) is not None:
        class _E:
            block = ev[0][0]
        src = ctx.loop_source(fs, _E)
        e = ev[0][1]
        buf = e[2][1]
        binit = gs.eb.init_expr(buf[1]) if buf[0] == "phi" else buf
        good = src is not None and Call("chunks", Local(3), Call("arity", Field(Local(1), "inner")))(src) and not adapters_in(src) and \
            Field(Local(1), "inner")(e[2][0]) and binit is not None and ZEROS(Len(Local(2)))(binit) and \
            Field(Call("next"), name="0", variant="Some")(e[2][2])
        # accumulate outp[i] += partial[i] for i in 0..len(outp)
        adds = [(bi, c) for bi, c in calls_named(ctx, fs, "add_assign")]
        if good and len(adds) == 1:
            class _E2:
                block = adds[0][0]
            s2 = ctx.loop_source(fs, _E2)
            a = adds[0][1]
            it2 = Field(Call("next"), name="0", variant="Some")
            by_index = s2 is not None and Agg("Range", Lit(0), Len(Local(2)))(s2) and Index(Local(2))(a[2][0]) and \
                Index(lambda x: x == buf)(a[2][1]) and a[2][0][2] == a[2][1][2]
            # or pairwise: for (o, p) in outp.iter_mut().zip(partial.iter()) { *o += *p }   (partial has len(outp) elements: binit)
            by_zip = s2 is not None and Call("zip", S(Local(2)), S(lambda x: x == buf))(s2) and adapters_in(s2) == [] and \
                S(Field(it2, name="0"))(a[2][0]) and S(Field(it2, name="1"))(a[2][1])
            good = by_index or by_zip
        else:
            good = False
        # outp zeroed first
        ctx.require_try_call(rule, fs, Call("eval_poly"), dominates=False, desc="inner.eval_poly(..)?", key="%s:%s:inner-error-propagated" % (rule, fs.id))
    req(ctx, rule, "%s:%s:reference-sum" % (rule, fs.id), good,
        "serial: for chunk in inp.chunks(inner.arity()) { inner.eval_poly(tmp, chunk)?; outp[i] += tmp[i] for all i }",
        "the serial ParallelSum::eval_poly is not the chunk-wise element-wise sum the parallel version is compared with", loc=fs.loc)
    # fold identity
    cf = closure_fn(ctx, c_id)
    e = single_ret(ctx, cf) if cf else None
    good = e is not None and Call("new", Field(Field(Or(Or(Upvar("self"), Upvar("*self")), Local(1)), "serial_sum"), "inner"), Len(Or(Or(Upvar("outp"), Upvar("*outp")), Local(2))))(e) \
        and "ParallelSumFoldState" in (e[3] or e[1])
    req(ctx, rule, K + "fold-identity", good, "fold identity = ParallelSumFoldState::new(&serial_sum.inner, outp.len())",
        "the fold identity is not a fresh ParallelSumFoldState over the inner gadget with outp.len() entries: %s" % (fmt(e)[:160] if e else None), loc=f.loc)
    try:
        fn = ctx.fn(rule, name="new", self_adt="flp::gadgets::ParallelSumFoldState")
        e = single_ret(ctx, fn)
        good = e is not None and e[0] == "agg"
        if good:
            flds = dict(zip(e[3], e[2]))
            good = Local(1)(flds.get("inner", ("unk",))) and ZEROS(Local(2))(flds.get("partial_sum", ("unk",))) and \
                ZEROS(Local(2))(flds.get("partial_output", ("unk",)))
        req(ctx, rule, "%s:%s:zero-state" % (rule, fn.id), good, "partial_sum = vec![F::zero(); length] (neutral element), inner = gadget.clone()",
            "a fresh fold state does not start from an all-zero partial sum of the requested length", loc=fn.loc)
    except Skip:
        pass
    # fold step
    cf = closure_fn(ctx, c_step)
    good = False
    why = "closure not found"
    if cf is not None:
        cg = ctx.guards(cf)
        st = Local(2)
        ev = calls_named(ctx, cf, "eval_poly")
        adds = calls_named(ctx, cf, "add_assign")
        ret = single_ret(ctx, cf)
        why = []
        if not (len(ev) == 1 and Field(st, "inner")(ev[0][1][2][0]) and Field(st, "partial_output")(ev[0][1][2][1]) and Local(3)(ev[0][1][2][2])):
            why.append("does not evaluate state.inner on the chunk into state.partial_output exactly once")
        if not (ret is not None and st(ret)):
            why.append("does not return the same state")
        if len(adds) == 1 and ev:
            class _E3:
                block = adds[0][0]
            s3 = ctx.loop_source(cf, _E3)
            a = adds[0][1]
            item = lambda k: Field(Field(Call("next"), name="0", variant="Some"), name=k)
            if not (s3 is not None and Call("zip", Field(st, "partial_sum"), Field(st, "partial_output"))(s3) and not adapters_in(s3)
                    and item("0")(a[2][0]) and item("1")(a[2][1]) and cf.body.dominates(ev[0][0], adds[0][0])):
                why.append("accumulation is not partial_sum[i] += partial_output[i] over all i after the evaluation: %s" % (fmt(s3)[:120] if s3 else None))
        else:
            why.append("expected exactly one accumulation")
        wc = writes_captured(cf)
        if wc:
            why += wc
        allowed = {"eval_poly", "unwrap", "expect", "zip", "next", "add_assign", "iter", "iter_mut", "into_iter", "deref", "deref_mut",
                   "as_mut_slice", "as_slice", "as_mut", "as_ref"}
        extra = sorted(set(t.callee.name for bi, t in cf.body.calls()) - allowed)
        if extra:
            why.append("calls outside the reviewed set: %s" % extra)
        good = not why
    req(ctx, rule, K + "fold-step", good, "step: state.inner.eval_poly(&mut state.partial_output, chunk); partial_sum[i] += partial_output[i]; state",
        "fold step: %s" % why, loc=f.loc)
    # map
    cf = closure_fn(ctx, c_map)
    e = single_ret(ctx, cf) if cf else None
    good = e is not None and Field(Local(2), "partial_sum")(e) and not list(cf.body.calls()) and not writes_captured(cf)
    req(ctx, rule, K + "map-partial-sum", good, "map(|state| state.partial_sum)",
        "the value handed to reduce is not the state's partial sum: %s" % (fmt(e)[:120] if e else None), loc=f.loc)
    # reduce identity and op
    cf = closure_fn(ctx, c_rid)
    e = single_ret(ctx, cf) if cf else None
    good = e is not None and ZEROS(Len(Or(Or(Upvar("outp"), Upvar("*outp")), Local(2))))(e)
    req(ctx, rule, K + "reduce-identity", good, "reduce identity = vec![F::zero(); outp.len()]",
        "the reduce identity is not the zero vector of outp.len() entries: %s" % (fmt(e)[:120] if e else None), loc=f.loc)
    good = isinstance(r_op, tuple) and r_op[0] == "fnref" and r_op[1] == "field::add_vector"
    req(ctx, rule, K + "reduce-op", good, "reduce op = field::add_vector", "the reduce operation is not field::add_vector: %s" % (r_op,), loc=f.loc)
    try:
        fa = ctx.fn(rule, name="add_vector", id_re=r"^field::add_vector$")
        e = single_ret(ctx, fa)
        cs = calls_named(ctx, fa, "add_assign_vector")
        good = e is not None and Local(1)(e) and len(cs) == 1 and Local(1)(cs[0][1][2][0]) and Mentions(Local(2))(cs[0][1][2][1]) and \
            not adapters_in(cs[0][1][2][1])
        req(ctx, rule, "%s:%s" % (rule, fa.id), good, "add_vector(a, b) = { add_assign_vector(&mut a, b); a }",
            "add_vector is not the element-wise sum of its two arguments", loc=fa.loc)
        fb = ctx.fn(rule, name="add_assign_vector", id_re=r"^field::add_assign_vector$")
        adds = calls_named(ctx, fb, "add_assign")
        good = False
        if len(adds) == 1:
            class _E4:
                block = adds[0][0]
            s4 = ctx.loop_source(fb, _E4)
            a = adds[0][1]
            item = lambda k: Field(Field(Call("next"), name="0", variant="Some"), name=k)
            good = s4 is not None and Call("zip", Local(1), Local(2))(s4) and not adapters_in(s4) and item("0")(a[2][0]) and item("1")(a[2][1])
            # and the length assertion
            gb = ctx.guards(fb)
            good = good and any(t.callee.name == "assert_failed" for bi, t in fb.body.calls())
        req(ctx, rule, "%s:%s" % (rule, fb.id), good, "a[i] += b[i] for every i; lengths asserted equal",
            "add_assign_vector is not the full element-wise addition with a length assertion", loc=fb.loc)
    except Skip:
        pass
    # output
    cp = calls_named(ctx, f, "copy_from_slice")
    good = len(cp) == 1 and Local(2)(cp[0][1][2][0]) and b.dominates(red[0][0], cp[0][0])
    if good:
        srcv = cp[0][1][2][1]
        good = (Call("index", lambda x: x == r)(srcv) and "RangeFull" in fmt(srcv[2][1])) or srcv == r
    rds = g.accept_defs(("err",))
    good = good and len(rds) == 1 and b.dominates(cp[0][0], rds[0].block)
    req(ctx, rule, K + "output", good, "outp.copy_from_slice(&res[..]) before Ok(())",
        "the reduced vector is not copied whole into outp before returning Ok", loc=f.loc)
    # closures handed to rayon do not write captured state
    for cf in prog.closures_of(f):
        wc = writes_captured(cf)
        req(ctx, rule, "%s:%s:no-shared-writes" % (rule, cf.id), not wc, "closure writes nothing it captured", "closure %s" % wc, loc=cf.loc)

    # --- delegation of the other trait methods
    rule = "R-C14.D"
    for nm, nargs in (("arity", 1), ("degree", 1), ("calls", 1), ("eval", 2)):
        try:
            fd = ctx.fn(rule, name=nm, trait="Gadget", self_adt=MT)
            e = single_ret(ctx, fd)
            good = e is not None and Call(nm, Field(Local(1), "serial_sum"), *([Local(2)] if nargs == 2 else []))(e) and \
                len(list(fd.body.calls())) == 1
            req(ctx, rule, "%s:%s" % (rule, fd.id), good, "%s delegates to serial_sum.%s" % (nm, nm),
                "%s does not simply delegate to the serial gadget: %s" % (nm, fmt(e)[:120] if e else None), loc=fd.loc)
        except Skip:
            pass
    try:
        fd = ctx.fn(rule, name="new", trait="ParallelSumGadget", self_adt=MT)
        e = single_ret(ctx, fd)
        good = e is not None and Agg("ParallelSumMultithreaded", Call("new", Local(1), Local(2)))(e) and "ParallelSum" in fmt(e[2][0])
        req(ctx, rule, "%s:%s" % (rule, fd.id), good, "new(inner, chunks) wraps ParallelSum::new(inner, chunks)",
            "the multithreaded gadget is not built from ParallelSum::new(inner, chunks): %s" % (fmt(e)[:140] if e else None), loc=fd.loc)
    except Skip:
        pass
    ctx.floor(rule, 5)

    # --- constructors agree with their serial siblings
    rule = "R-C14.C"
    mts = [x for x in prog.find(id_re=r"^vdaf::prio3::Prio3::<.*>::new_\w+_multithreaded$")]
    if len(mts) < 3:
        ctx.bad(rule, rule + ":anchor", "expected at least 3 *_multithreaded Prio3 constructors, found %d" % len(mts), kind="anchor")
    for fm in mts:
        sib_id = fm.id.replace("ParallelSumMultithreaded", "ParallelSum")
        sib_id = sib_id[:-len("_multithreaded")]
        sib = [x for x in prog.fns if x.id == sib_id]
        key = "%s:%s" % (rule, fm.name)
        if len(sib) != 1:
            ctx.bad(rule, key + ":sibling", "no serial sibling with Self type equal modulo the gadget (looked for %s)" % sib_id, loc=fm.loc)
            continue
        ctx.ok(rule, key + ":self-type", "Self type equals the serial sibling's modulo ParallelSumMultithreaded", loc=fm.loc)
        ta = sorted(fmt(t) for t in all_terms(ctx, fm))
        tb = sorted(fmt(t) for t in all_terms(ctx, sib[0]))
        if ta == tb:
            pc = [fmt(c)[:160] for _, c in calls_named(ctx, fm, "new") if "Prio3" in fmt(c)[:8]]
            ctx.ok(rule, key + ":body", "same body as %s: %s" % (sib[0].name, pc[:1]), loc=fm.loc)
        else:
            diff = [x for x in ta if x not in tb][:2] + [x for x in tb if x not in ta][:2]
            ctx.bad(rule, key + ":body", "%s differs from its serial sibling %s (algorithm id / proofs / parameters): %s" % (
                fm.name, sib[0].name, [d[:160] for d in diff]), loc=fm.loc)
        # parameter lists agree
        pa = [fm.param_name(i) for i in range(1, 8)]
        pb = [sib[0].param_name(i) for i in range(1, 8)]
        req(ctx, rule, key + ":params", pa == pb, "same parameter list", "parameter lists differ: %s vs %s" % (pa, pb), loc=fm.loc)
    ctx.floor(rule, 9)

    # --- who may call rayon
    rule = "R-C14.W"
    owners = {}
    for x in prog.fns:
        if x.body is None or prog.is_test_util(x):
            continue
        for bi, t in x.body.calls():
            p = t.callee.path or ""
            if p.startswith("rayon") or "rayon::" in (t.callee.bestfull or ""):
                owners.setdefault(x.id, []).append(p)
    allowed_owner = f.id
    for o, ps in sorted(owners.items()):
        if o == allowed_owner:
            ctx.ok(rule, "%s:%s" % (rule, o), "rayon used by %s: %s" % (o, sorted(set(ps))), loc=f.loc)
        else:
            ff = [x for x in prog.fns if x.id == o][0]
            ctx.bad(rule, "%s:%s" % (rule, o), "a parallel construct outside ParallelSumMultithreaded::eval_poly is not covered by the "
                                                "schedule-independence argument: %s calls %s" % (o, sorted(set(ps))), loc=ff.loc)
    ctx.floor(rule, 1)
    ctx.floor("R-C14.E", 16)
