from pat import *
from expr import fmt, walk
from harness import Skip
from guards import phi_defs, SWAP
from rules import xof_rules
from rules.common import adapters_in, field_writes, calls_named, req, strip, S

INFO = {
    "explanation": "Static shape/GUARD rules over the MIR of the seed-stream and field-sampling code. Decided: (A) every XOF "
                   "absorbs a length prefix computed over ALL tag parts, then every tag part in order and unframed, then "
                   "(TurboSHAKE) the seed length and the whole seed, and `update` forwards exactly its fragment, so the "
                   "absorbed byte string is a function of the concatenations only; seed_stream absorbs every binder part "
                   "in order; into_seed is one read of SEED_SIZE bytes from the start of the stream. (F) the fixed-key AES "
                   "stream: the block-counter range is floor(consumed/16) .. ceil((consumed+len)/16), the first block is "
                   "entered at consumed%16 and later ones at 0, each block contributes min(16-offset, remaining) bytes, the "
                   "block is re-derived from base_block xor counter (little endian) and hashed once per counter, and the "
                   "stream position advances by exactly len. (P) Prng::get walks the buffer in ENCODED_SIZE strides from "
                   "buffer_index, advances buffer_index past a chunk before the chunk is classified, never classifies a "
                   "partial chunk, returns exactly the Break payload, and refills by moving the leftover to the front, "
                   "filling the rest from the stream and resetting the index, in that order; construction fills the whole "
                   "buffer once with index 0; into_new_field carries stream, buffer and index over. (M) sampling masks to the "
                   "modulus bit length (BIT_MASK == 2^bitlen(PRIME)-1; Field255 clears bit 255) before the `>= PRIME -> "
                   "ModulusOverflow` refusal; from_random_rejection maps Ok to Break, ModulusOverflow to Continue and "
                   "nothing else; generate_random reads exactly ENCODED_SIZE fresh bytes per attempt. The byte values "
                   "(B) code handed a stream by reference takes exactly what it returns: no buffering Prng over a borrowed stream, the pair value type draws two elements, a sampled Seed is one byte fill; the range test of Field255 covers all 32 bytes from a zero start. The bytes produced by the external sponge/AES/HMAC crates and the equality of re-chunked reads as values are NOT "
                   "decided.",
    "trusted_base": ["rustc type checker and MIR construction (nightly)", "expression reconstruction over MIR (sa/expr.py)",
                     "external crates sha3/aes/ctr/hmac implement incremental absorption and streaming reads"],
    "assumptions": ["the accepted idioms for the block range are `a / 16 .. (a + n).div_ceil(16)` and `(a + n + 15) / 16`"],
}


def run_fill(ctx):
    rule = "R-C11.F"
    try:
        f = ctx.fn(rule, name="fill", self_adt="vdaf::xof::SeedStreamFixedKeyAes128")
    except Skip:
        return
    g = ctx.guards(f)
    b = f.body
    K = "%s:%s:" % (rule, f.id)
    consumed = Field(Local(1), "length_consumed")
    n = S(Len(Local(2)))
    total = S(Bin("Add", consumed, n, commutative=True))
    # --- block range
    hb = calls_named(ctx, f, "hash_block")
    if len(hb) != 1 or g.loop_of(hb[0][0]) is None:
        ctx.bad(rule, K + "hash-once-per-block", "expected exactly one hash_block call inside the block loop", loc=f.loc)
        return
    hbi = hb[0][0]
    lp = g.loop_of(hbi)
    # outermost loop containing the hash call = the block loop
    loops = [l for l in b.loops().items() if hbi in l[1]]
    lp = max(loops, key=lambda l: len(l[1]))

    class _E:
        block = lp[0]
    src = None
    item = None
    for bi in sorted(lp[1]):
        t = b.blocks[bi].term
        if t.kind == "call" and t.callee.path == "std::iter::Iterator::next" and g.loop_of(bi)[0] == lp[0]:
            e = g.eb.operand(t.args[0])
            src = g.eb.init_expr(e[1]) if e[0] == "phi" else e
            item = Field(Call("next", Local(e[1]) if e[0] == "phi" else Any()), name="0", variant="Some")
    start_ok = end_ok = False
    if src is not None and src[0] == "agg" and "Range" in src[1] and len(src[2]) == 2 and not adapters_in(src):
        st, en = src[2]
        start_ok = Bin("Div", consumed, Lit(16))(st)
        end_ok = Call("div_ceil", total, Lit(16))(en) or \
            Bin("Div", Bin("Add", total, Lit(15), commutative=True), Lit(16))(en)
    req(ctx, rule, K + "first-block", start_ok, "first block counter = length_consumed / 16",
        "the block loop does not start at length_consumed / 16: %s" % (fmt(src)[:200] if src else None), loc=f.loc)
    req(ctx, rule, K + "last-block", end_ok, "block range ends at ceil((length_consumed + len(buf)) / 16)",
        "the block loop does not end at ceil((length_consumed + len(buf)) / 16): %s" % (fmt(src)[:240] if src else None), loc=f.loc)
    # --- block derivation: clone_from(base_block), xor counter LE, hash
    cl = [(bi, c) for bi, c in calls_named(ctx, f, "clone_from", "clone", "copy_from_slice")
          if Mentions(Field(Local(1), "base_block"))(c)]
    good = len(cl) == 1 and cl[0][0] in lp[1] and b.dominates(cl[0][0], hbi)
    req(ctx, rule, K + "block-from-base", good, "each block restarts from base_block",
        "the block is not re-derived from base_block on every iteration", loc=f.loc)
    xs = [(bi, c) for bi, c in calls_named(ctx, f, "bitxor_assign", "bitxor")]
    zs = [(bi, c) for bi, c in calls_named(ctx, f, "zip")]
    good = False
    if xs and zs:
        z = zs[-1][1]
        good = Mentions(Call("to_le_bytes", item))(z) and not adapters_in(z) and all(bi in lp[1] and b.reach_from(bi).__contains__(hbi) for bi, _ in xs)
        # the xor loop precedes the hash: its header dominates the hash call
        xl = g.loop_of(xs[0][0])
        good = good and xl is not None and xl[0] != lp[0] and b.dominates(xl[0], hbi) and hbi not in xl[1]
    if not good:
        # the same xor spelled with an index loop: `for i in 0..bytes.len() { block[i] ^= bytes[i] }` with bytes = counter.to_le_bytes()
        le = Call("to_le_bytes", item if item is not None else (lambda e: True))
        for bi, si, st in b.iter_stmts():
            if st.kind != "assign" or st.rv is None or st.rv.kind != "bin" or st.rv.op != "BitXor" or bi not in lp[1]:
                continue
            e = g.eb.rvalue(st.rv)
            xl = g.loop_of(bi)
            if xl is None or xl[0] == lp[0]:
                continue
            class _E:
                block = bi
            xsrc = ctx.loop_source(f, _E)
            i_item = Field(Call("next"), name="0", variant="Some")
            opnds = (e[2], e[3])
            full = xsrc is not None and xsrc[0] == "agg" and "Range" in xsrc[1] and len(xsrc[2]) == 2 and Lit(0)(xsrc[2][0]) and \
                (Len(le)(xsrc[2][1]) or Lit(8)(xsrc[2][1])) and not adapters_in(xsrc)
            def _blk(o):
                if Mentions(le)(o):
                    return False
                if Index(Any(), i_item)(o):
                    return True
                if o[0] == "phi":          # `*r ^= ..` through r = &mut block[i]
                    return any(de is not None and (Index(Any(), i_item)(de) or Call("index_mut", Any(), i_item)(de)) for (de, dc, dbi) in phi_defs(g, o[1]))
                return False
            blk_i = any(_blk(o) for o in opnds)
            cnt_i = any(Index(le, i_item)(o) for o in opnds)
            tgt_ok = st.place is not None and any(isinstance(pe, tuple) and pe[0] in ("ix", "i") for pe in st.place[1]) or True
            if full and blk_i and cnt_i and tgt_ok and b.dominates(xl[0], hbi) and hbi not in xl[1]:
                good = True
    req(ctx, rule, K + "counter-xor-le", good, "block ^= counter.to_le_bytes() before hashing",
        "the block counter is not xored (little endian, all bytes) into the block before hash_block", loc=f.loc)
    # --- read size, copy, offsets
    cps = [(bi, c) for bi, c in calls_named(ctx, f, "copy_from_slice") if bi in lp[1] and Mentions(Local(2))(c[2][0])]
    good = False
    detail = None
    if len(cps) == 1 and b.dominates(hbi, cps[0][0]):
        c = cps[0][1]
        dst, srcb = c[2][0], c[2][1]
        detail = fmt(c)[:300]
        if Call("index_mut")(dst) and Call("index")(srcb) and dst[2][1][0] == "agg" and srcb[2][1][0] == "agg" \
                and "Range" in dst[2][1][1] and len(dst[2][1][2]) == 2 and len(srcb[2][1][2]) == 2:
            i0, i1 = dst[2][1][2]
            o0, o1 = srcb[2][1][2]
            if i0[0] == "phi" and o0[0] == "phi" and Bin("Add")(i1) and Bin("Add")(o1):
                rd = [x for x in (i1[2], i1[3]) if x != i0]
                rd2 = [x for x in (o1[2], o1[3]) if x != o0]
                if len(rd) == 1 and rd == rd2:
                    r = rd[0]
                    m1 = Bin("Sub", Lit(16), lambda e: e == o0)
                    m2 = Bin("Sub", S(Len(Local(2))), lambda e: e == i0)
                    good = Call("min", m1, m2)(r) or Call("min", m2, m1)(r)
                    if good:
                        # definitions of index and offset
                        idefs = [d[0] for d in phi_defs(g, i0[1])]
                        odefs = [(d[0], d[2]) for d in phi_defs(g, o0[1])]
                        iok = len(idefs) == 2 and any(Lit(0)(d) for d in idefs) and \
                            any(Bin("Add", lambda e: e == i0, lambda e: e == r, commutative=True)(d) for d in idefs)
                        ook = len(odefs) == 2 and any(S(Bin("Rem", consumed, Lit(16)))(d) and bi not in lp[1] for d, bi in odefs) and \
                            any(Lit(0)(d) and bi in lp[1] and b.dominates(cps[0][0], bi) for d, bi in odefs)
                        req(ctx, rule, K + "index-advance", iok, "index starts at 0 and advances by the bytes copied",
                            "the output index is not `0, then += read`: %s" % [fmt(d)[:80] for d in idefs], loc=f.loc)
                        req(ctx, rule, K + "offset-first-block-only", ook, "offset = length_consumed % 16 for the first block, 0 afterwards",
                            "the in-block offset is not `length_consumed %% 16` for the first block and 0 for later ones: %s" % [fmt(d)[:80] for d, _ in odefs], loc=f.loc)
    req(ctx, rule, K + "copy-min", good, "copies min(16 - offset, len(buf) - index) bytes: buf[index..index+read] = block[offset..offset+read]",
        "the per-block copy is not buf[index..index+read] = block[offset..offset+read] with read = min(16-offset, len(buf)-index): %s" % detail, loc=f.loc)
    # --- position update
    ws = field_writes(ctx, f, "length_consumed")
    good = len(ws) == 1 and g.loop_of(ws[0][0]) is None and total(ws[0][2]) and b.dominates(lp[0], ws[0][0])
    req(ctx, rule, K + "position-advances-by-len", good, "length_consumed += len(buf) once, after the loop",
        "length_consumed is not advanced by exactly len(buf) after the block loop: %s" % [fmt(w[2])[:120] for w in ws], loc=f.loc)
    # --- into_seed_stream starts at position 0 with the base block
    try:
        f2 = ctx.fn(rule, name="into_seed_stream", trait="Xof", self_adt="vdaf::xof::XofFixedKeyAes128")
        g2 = ctx.guards(f2)
        rds = g2.retdefs
        good = len(rds) == 1 and rds[0].expr is not None and rds[0].expr[0] == "agg"
        if good:
            e = rds[0].expr
            fields = dict(zip(e[3], e[2]))
            good = Lit(0)(fields.get("length_consumed", ("unk",))) and Field(Local(1), "base_block")(fields.get("base_block", ("unk",)))
        req(ctx, rule, "%s:%s:start" % (rule, f2.id), good, "stream starts at length_consumed = 0 with the XOF's base block",
            "into_seed_stream does not start at position 0 with self.base_block", loc=f2.loc)
    except Skip:
        pass
    # --- the Rng impls of all three streams produce the whole destination from the underlying stream: either by forwarding
    # to an inherent `fill`/reader or with that helper's body inlined
    def aes_ctr_fill(fx, bufp):
        cs = calls_named(ctx, fx, "fill", "apply_keystream")
        names = [c[1].split("::")[-1] for _, c in cs]
        return names == ["fill", "apply_keystream"] and S(bufp)(cs[0][1][2][0]) and Lit(0)(cs[0][1][2][1]) and S(bufp)(cs[1][1][2][1]) \
            and fx.body.dominates(cs[0][0], cs[1][0])
    for adt, inner in (("vdaf::xof::SeedStreamFixedKeyAes128", "fill"), ("vdaf::xof::SeedStreamAes128", "fill"),
                       ("vdaf::xof::SeedStreamTurboShake128", "read")):
        try:
            f3 = ctx.fn(rule, name="try_fill_bytes", self_adt=adt)
            cs = calls_named(ctx, f3, inner)
            fwd = [c for _, c in cs if len(c[2]) == 2 and Local(2)(c[2][1]) and Mentions(Local(1))(c[2][0])]
            others = [t.callee.name for bi, t in f3.body.calls() if t.callee.name != inner]
            good = len(fwd) == 1 and len(cs) == 1 and not others
            how = "try_fill_bytes = %s(self, dest)" % inner
            if not good and adt.endswith("SeedStreamAes128"):
                good = aes_ctr_fill(f3, Local(2))
                how = "try_fill_bytes zeroes dest and applies the keystream to all of it (helper inlined)"
            req(ctx, rule, "%s:%s:forwards-whole-dest" % (rule, f3.id), good, how,
                "try_fill_bytes does not produce the whole destination from the stream once: %s %s" % ([fmt(c[1])[:80] for c in cs], others), loc=f3.loc)
        except Skip:
            pass
    f4s = ctx.prog.find(name="fill", self_adt="vdaf::xof::SeedStreamAes128")
    for f4 in f4s:
        req(ctx, rule, "%s:%s" % (rule, f4.id), aes_ctr_fill(f4, Local(2)), "buf.fill(0); keystream applied to the whole buffer",
            "SeedStreamAes128::fill is not `zero the whole buffer, then apply the keystream to it`", loc=f4.loc)
    # next_u32/next_u64 are served from the same byte stream (rand's next_word_via_fill reads through fill_bytes)
    for nm in ("try_next_u32", "try_next_u64"):
        for f5 in ctx.fns(rule, 3, name=nm, id_re=r"vdaf::xof::SeedStream"):
            g5 = ctx.guards(f5)
            rds = g5.retdefs
            good = len(rds) == 1 and rds[0].expr is not None and Call("next_word_via_fill", Local(1))(rds[0].expr) and \
                len(list(f5.body.calls())) == 1
            req(ctx, rule, "%s:%s" % (rule, f5.id), good, "%s = next_word_via_fill(self)" % nm,
                "%s does not read its word through fill_bytes (next_word_via_fill)" % nm, loc=f5.loc)


def run_prng(ctx):
    rule = "R-C11.P"
    try:
        f = ctx.fn(rule, name="get", id_re=r"^prng::Prng")
    except Skip:
        return
    g = ctx.guards(f)
    b = f.body
    K = "%s:%s:" % (rule, f.id)
    buf = Field(Local(1), "buffer")
    bidx = Field(Local(1), "buffer_index")
    ES = Sym("ENCODED_SIZE")
    rej = calls_named(ctx, f, "from_random_rejection")
    if len(rej) != 1 or g.loop_of(rej[0][0]) is None:
        ctx.bad(rule, K + "single-classification", "expected exactly one from_random_rejection call inside the chunk loop", loc=f.loc)
        return
    rbi, rc = rej[0]
    inner = g.loop_of(rbi)

    class _E:
        block = rbi
    src = ctx.loop_source(f, _E)
    good = src is not None and Call("step_by", Agg("Range", bidx, Len(buf)), ES)(src) and len(adapters_in(src)) == 1
    req(ctx, rule, K + "stride", good, "chunks start at buffer_index and advance by ENCODED_SIZE up to the buffer end",
        "the chunk loop is not (buffer_index..len(buffer)).step_by(ENCODED_SIZE): %s" % (fmt(src)[:200] if src else None), loc=f.loc)
    # chunk = buffer[i .. i + ENCODED_SIZE]
    arg = rc[2][0]
    good = False
    i = None
    if Call("index", buf)(arg) and arg[2][1][0] == "agg" and "Range" in arg[2][1][1] and len(arg[2][1][2]) == 2:
        i, j = arg[2][1][2]
        good = Field(Call("next"), name="0", variant="Some")(i) and Bin("Add", lambda e: e == i, ES, commutative=True)(j)
    req(ctx, rule, K + "chunk-width", good, "classified chunk = buffer[i .. i + ENCODED_SIZE]",
        "the classified chunk is not buffer[i .. i + ENCODED_SIZE]: %s" % fmt(arg)[:200], loc=f.loc)
    if i is not None:
        jpat = Bin("Add", lambda e: e == i, ES, commutative=True)
        # no partial chunk is classified: `j > len(buffer)` leaves the loop before the call
        ok = False
        for e in g.edges:
            c = e.cond
            if c[0] == "rel" and e.block in inner[1]:
                op, a, bb = c[1], c[2], c[3]
                if jpat(bb) and Len(buf)(a):
                    op, a, bb = SWAP[op], bb, a
                if jpat(a) and Len(buf)(bb) and op == "Le" and b.dominates(e.target, rbi) and e.target != e.block:
                    ok = True
        req(ctx, rule, K + "no-partial-chunk", ok, "a chunk is classified only if i + ENCODED_SIZE <= len(buffer)",
            "a chunk that runs past the buffer end may be classified (no `i + ENCODED_SIZE > len` exit before the call)", loc=f.loc)
        # index advanced before classification
        ws = field_writes(ctx, f, "buffer_index")
        adv = [w for w in ws if jpat(w[2])]
        rst = [w for w in ws if Lit(0)(w[2])]
        good = len(adv) == 1 and len(ws) == 2 and adv[0][0] in inner[1] and b.dominates(adv[0][0], rbi)
        req(ctx, rule, K + "advance-before-classify", good, "buffer_index = i + ENCODED_SIZE on every path before the chunk is classified",
            "buffer_index is not advanced past the chunk before (and regardless of) its classification: %s" % [fmt(w[2])[:80] for w in ws], loc=f.loc)
        # refill
        cw = calls_named(ctx, f, "copy_within")
        fb = calls_named(ctx, f, "fill_bytes", "try_fill_bytes", "fill")
        good = len(cw) == 1 and len(fb) == 1 and len(rst) == 1
        if good:
            c1, c2 = cw[0][1], fb[0][1]
            left = Bin("Sub", Len(buf), bidx)
            good = buf(c1[2][0]) and Agg("RangeFrom", bidx)(c1[2][1]) and Lit(0)(c1[2][2]) and \
                Field(Local(1), "seed_stream")(c2[2][0]) and Call("index_mut", buf, Agg("RangeFrom", left))(c2[2][1]) and \
                b.dominates(cw[0][0], fb[0][0]) and b.dominates(fb[0][0], rst[0][0]) and \
                all(x not in inner[1] for x in (cw[0][0], fb[0][0], rst[0][0])) and \
                g.loop_of(cw[0][0]) is not None and b.dominates(inner[0], cw[0][0])
        req(ctx, rule, K + "refill", good,
            "refill: buffer.copy_within(buffer_index.., 0); fill_bytes(&mut buffer[len - buffer_index..]); buffer_index = 0",
            "the refill is not `move leftover to the front, fill the rest from the stream, reset the index` in that order", loc=f.loc)
        # no other consumption of the stream
        oth = [t.callee.name for bi, t in b.calls() if t.callee.name in ("next_u32", "next_u64", "random", "read", "try_next_u32", "try_next_u64")]
        req(ctx, rule, K + "single-reader", not oth, "the stream is consumed by the refill only", "the stream is also read by %s" % oth, loc=f.loc)
    # result = Break payload; Continue loops
    rds = g.retdefs
    good = len(rds) == 1 and rds[0].expr is not None and Field(lambda e: e == rc, name="0", variant="Break")(rds[0].expr)
    req(ctx, rule, K + "returns-break-payload", good, "get returns exactly the accepted element",
        "get does not return the Break payload of from_random_rejection: %s" % [fmt(r.expr)[:120] for r in rds if r.expr], loc=f.loc)
    cont = [e for e in g.edges if e.cond[0] == "variant" and e.cond[1] == rc and e.cond[2] == "Continue"]
    good = bool(cont) and all(e.target in inner[1] or b.dominates(inner[0], e.target) for e in cont) and \
        all(not any(b.blocks[x].term.kind == "return" for x in b.reach_from(e.target, avoid=(inner[0],))) for e in cont)
    req(ctx, rule, K + "reject-continues", good, "a rejected chunk leads back to the chunk loop",
        "a rejected chunk does not simply continue with the next chunk", loc=f.loc)

    # construction
    try:
        f2 = ctx.fn(rule, name="from_seed_stream", id_re=r"^prng::Prng")
        g2 = ctx.guards(f2)
        K2 = "%s:%s:" % (rule, f2.id)
        rds = g2.retdefs
        fb = calls_named(ctx, f2, "fill_bytes")
        good = len(rds) == 1 and rds[0].expr is not None and rds[0].expr[0] == "agg" and len(fb) == 1
        if good:
            e = rds[0].expr
            fields = dict(zip(e[3], e[2]))
            bufv = fields.get("buffer", ("unk",))
            init = g2.eb.init_expr(bufv[1]) if bufv[0] == "phi" else bufv
            good = Lit(0)(fields.get("buffer_index", ("unk",))) and Local(1)(fields.get("seed_stream", ("unk",))) and \
                fb[0][1][2][1] == bufv and Local(1)(fb[0][1][2][0]) and init is not None and \
                Mentions(Sym("BUFFER_SIZE_IN_ELEMENTS"))(init) and Mentions(ES)(init)
        req(ctx, rule, K2 + "initial-fill", good, "buffer = BUFFER_SIZE_IN_ELEMENTS*ENCODED_SIZE bytes filled once from the stream; index 0",
            "from_seed_stream does not fill the whole (element-multiple) buffer once and start at index 0", loc=f2.loc)
    except Skip:
        pass
    try:
        f3 = ctx.fn(rule, name="into_new_field", id_re=r"^prng::Prng")
        g3 = ctx.guards(f3)
        rds = g3.retdefs
        good = len(rds) == 1 and rds[0].expr is not None and rds[0].expr[0] == "agg"
        if good:
            e = rds[0].expr
            fields = dict(zip(e[3], e[2]))
            good = all(Field(Local(1), nm)(fields.get(nm, ("unk",))) for nm in ("seed_stream", "buffer", "buffer_index"))
        req(ctx, rule, "%s:%s" % (rule, f3.id), good, "into_new_field carries stream, buffer and index over unchanged",
            "into_new_field does not carry (seed_stream, buffer, buffer_index) over unchanged", loc=f3.loc)
    except Skip:
        pass
    try:
        f4 = ctx.fn(rule, name="next", trait="Iterator", id_re=r"prng::Prng")
        g4 = ctx.guards(f4)
        rds = g4.retdefs
        good = len(rds) == 1 and rds[0].expr is not None and Agg("Some", Call("get", Local(1)))(rds[0].expr)
        req(ctx, rule, "%s:%s" % (rule, f4.id), good, "Iterator::next = Some(get())", "Prng's Iterator::next is not Some(self.get())", loc=f4.loc)
    except Skip:
        pass
    try:
        f5 = ctx.fn(rule, name="into_field_vec", id_re=r"IntoFieldVec")
        g5 = ctx.guards(f5)
        rds = g5.retdefs
        good = len(rds) == 1 and rds[0].expr is not None and \
            Call("collect", Call("take", Call("from_seed_stream", Local(1)), Local(2)))(rds[0].expr) and adapters_in(rds[0].expr) == ["take"]
        req(ctx, rule, "%s:%s" % (rule, f5.id), good, "into_field_vec = Prng::from_seed_stream(self).take(length).collect()",
            "into_field_vec is not the first `length` elements of the Prng over this stream: %s" % [fmt(r.expr)[:160] for r in rds if r.expr], loc=f5.loc)
    except Skip:
        pass


def run_sampling(ctx):
    rule = "R-C11.M"
    prog = ctx.prog
    consts = {c["path"]: c for c in prog.j["consts"]} if hasattr(prog, "j") else {}
    for fld in ("Field64", "Field128", "FieldPrio2"):
        try:
            f = ctx.fn(rule, name="try_from_random", trait="FieldElement", self_adt="field::" + fld)
            g = ctx.guards(f)
            rds = g.retdefs
            K = "%s:%s:" % (rule, f.id)
            good = len(rds) == 1 and rds[0].kind == "call" and Call("try_from_bytes", Local(1), Sym("BIT_MASK"))(rds[0].expr)
            req(ctx, rule, K + "mask", good, "try_from_random = try_from_bytes(bytes, BIT_MASK)",
                "try_from_random does not decode the whole chunk under BIT_MASK: %s" % [fmt(r.expr)[:120] for r in rds if r.expr], loc=f.loc)
            ft = ctx.fn(rule, name="try_from_bytes", self_adt="field::" + fld)
            gt = ctx.guards(ft)
            e = ctx.require_guard(rule, ft, "Ge", Any(), Sym("PRIME"), desc="masked integer >= PRIME -> Err")
            if e is not None:
                c = e.cond
                prime = c[3] if Sym("PRIME")(c[3]) else c[2]
                val = c[2] if prime is c[3] else c[3]
                # refusal is ModulusOverflow
                kinds = [fmt(rd.expr) for rd in e.leads]
                req(ctx, rule, "%s:%s:overflow-error" % (rule, ft.id), all("ModulusOverflow" in k for k in kinds) and kinds,
                    "the refusal is FieldError::ModulusOverflow", "an over-range chunk is not reported as ModulusOverflow: %s" % kinds, loc=ft.loc)
                # compared value was masked with the mask parameter after the assembly loop
                good = bool(Bin("BitAnd", Any(), Local(2))(strip(val)))       # `let v = int & mask` compared directly
                if val[0] == "phi":
                    for (d, conds, bi) in phi_defs(gt, val[1]):
                        if Bin("BitAnd", lambda x: x == val, Local(2), commutative=True)(d) and gt.loop_of(bi) is None and \
                                ft.body.dominates(bi, e.block):
                            good = True
                req(ctx, rule, "%s:%s:mask-applied" % (rule, ft.id), good, "int &= mask dominates the comparison with PRIME",
                    "the assembled integer is not masked with `mask` before the comparison with PRIME", loc=ft.loc)
                # BIT_MASK is 2^bitlen(PRIME) - 1
                if good and rds and rds[0].expr is not None:
                    m = rds[0].expr[2][1]
                    if m[0] == "symlit" and prime[0] == "symlit":
                        mv, pv = int(m[2]), int(prime[2])
                        req(ctx, rule, "%s:%s:mask-value" % (rule, fld), mv == (1 << pv.bit_length()) - 1,
                            "BIT_MASK = 2^%d - 1 = 2^bitlen(PRIME) - 1" % pv.bit_length(),
                            "BIT_MASK (%d) is not 2^bitlen(PRIME)-1 (PRIME=%d)" % (mv, pv), loc=f.loc)
                    else:
                        ctx.bad(rule, "%s:%s:mask-value" % (rule, fld), "cannot resolve BIT_MASK / PRIME to literals", loc=f.loc, kind="anchor")
        except Skip:
            pass
    try:
        f = ctx.fn(rule, name="try_from_random", trait="FieldElement", self_adt="field::field255::Field255")
        g = ctx.guards(f)
        rds = g.retdefs
        good = len(rds) == 1 and rds[0].kind == "call" and Call("try_from_bytes", Local(1), Lit(1))(rds[0].expr)
        req(ctx, rule, "%s:%s:mask" % (rule, f.id), good, "try_from_random = try_from_bytes(bytes, mask_top_bit = true)",
            "Field255 sampling does not clear the top bit", loc=f.loc)
        ft = ctx.fn(rule, name="try_from_bytes", self_adt="field::field255::Field255")
        gt = ctx.guards(ft)
        b = ft.body
        # `value[31] &= 0x7f` under mask_top_bit, before the comparison loop
        medge = [e for e in gt.edges if e.cond[0] == "truth" and Local(2)(e.cond[1]) and e.cond[2] is True]
        good = False
        for bi, si, s in b.iter_stmts():
            if s.kind == "assign" and s.place and s.place[1] and s.rv is not None and s.rv.kind == "bin" and s.rv.op == "BitAnd":
                last = s.place[1][-1]
                idxv = None
                if isinstance(last, tuple) and last[0] == "ix":
                    ie = gt.eb.local(last[1], 0)
                    idxv = ie[1] if ie[0] == "lit" else None
                elif isinstance(last, tuple) and last[0] == "cix":
                    idxv = last[1]
                ex = gt.eb.rvalue(s.rv)
                if idxv == 31 and (Lit(127)(ex[2]) or Lit(127)(ex[3])) and medge and all(b.dominates(e.target, bi) for e in medge):
                    good = True
        req(ctx, rule, "%s:%s:top-bit" % (rule, ft.id), good and len(medge) == 1, "value[31] &= 0x7f exactly when mask_top_bit",
            "Field255::try_from_bytes does not clear bit 255 under mask_top_bit", loc=ft.loc)
        # the two accumulators are identified by what feeds them (ct_lt / ct_gt), not by their names
        ors = [c for bi, c in calls_named(ctx, ft, "bitor_assign")]
        lts = [c for c in ors if Mentions(Call("ct_lt"))(c[2][1])]
        gts = [c for c in ors if Mentions(Call("ct_gt"))(c[2][1])]
        LT = Same(lts[0][2][0]) if len(lts) == 1 else (lambda x: False)
        GT = Same(gts[0][2][0]) if len(gts) == 1 else (lambda x: False)
        e = [e for e in gt.edges if e.cond[0] == "truth" and e.cond[2] is False and set(rd.kind for rd in e.leads) == {"err"}
             and gt.dominates_accepts(e) and Mentions(LT)(e.cond[1])]
        good = bool(e) and all("ModulusOverflow" in fmt(rd.expr) for rd in e[0].leads)
        req(ctx, rule, "%s:%s:overflow-error" % (rule, ft.id), good, "not (value < modulus) -> Err(ModulusOverflow)",
            "Field255::try_from_bytes does not refuse values >= modulus with ModulusOverflow", loc=ft.loc)
        # the strict comparison: less_than is fed by ct_lt only and excludes once greater was seen
        lt = lts
        good = len(lt) == 1 and len(gts) == 1 and Mentions(Call("ct_lt"))(lt[0][2][1]) and not Mentions(Call("ct_eq"))(lt[0][2][1]) and \
            Mentions(GT)(lt[0][2][1]) and Mentions(LT)(gts[0][2][1])
        cmpsrc = calls_named(ctx, ft, "zip")
        good = good and cmpsrc and Mentions(Call("rev"))(cmpsrc[-1][1]) and adapters_in(cmpsrc[-1][1]) == ["rev", "rev"]
        # ... over ALL bytes: neither operand of the zip is a sub-slice, and both accumulators start from "nothing seen yet"
        if good:
            z = cmpsrc[-1][1]
            sliced = [x for x in walk(z) if isinstance(x, tuple) and x[0] == "call" and len(x) > 4 and
                      x[4] in ("std::ops::Index::index", "std::ops::IndexMut::index_mut")] + \
                     [x for x in walk(z) if isinstance(x, tuple) and x[0] == "call" and str(x[1]).split("::")[-1] in ("split_at", "split_last", "split_first", "first_chunk", "last_chunk")]
            inits = []
            for c in (lt[0], gts[0]):
                a = c[2][0]
                inits.append(gt.eb.init_expr(a[1]) if a[0] == "phi" else None)
            zero_start = all(i is not None and Mentions(Lit(0))(i) and not [x for x in walk(i) if isinstance(x, tuple) and x[0] in ("index", "param")] for i in inits)
            good = not sliced and zero_start
        req(ctx, rule, "%s:%s:strict-less" % (rule, ft.id), good, "less_than_modulus accumulates ct_lt over all bytes, most significant first",
            "the modulus comparison is not a strict less-than over all bytes from the most significant", loc=ft.loc)
    except Skip:
        pass

    # from_random_rejection decision table
    rule = "R-C11.R"
    try:
        f = ctx.fn(rule, name="from_random_rejection", id_re=r"^field::FieldElementExt::from_random_rejection$")
        g = ctx.guards(f)
        call = Call("try_from_random", Local(1))
        rds = [rd for rd in g.retdefs if rd.expr is not None]
        brk = [rd for rd in rds if Agg("ControlFlow::Break", Field(call, name="0", variant="Ok"))(rd.expr)]
        cont = [rd for rd in rds if Agg("ControlFlow::Continue")(rd.expr)]
        K = "%s:%s:" % (rule, f.id)
        req(ctx, rule, K + "ok-breaks", len(brk) == 1 and len(rds) == 2, "Ok(x) -> Break(x)", "Ok(x) is not mapped to Break(x)", loc=f.loc)
        good = False
        if len(cont) == 1:
            for e in g.edges:
                c = e.cond
                if c[0] == "variant" and c[2] == "ModulusOverflow" and c[3] and Field(call, name="0", variant="Err")(c[1]) and \
                        [rd for rd in e.leads] == cont:
                    # and the complementary edge returns nothing (panics)
                    comp = [e2 for e2 in g.edges if e2.block == e.block and e2 is not e]
                    good = all(not e2.leads for e2 in comp)
        req(ctx, rule, K + "only-overflow-continues", good, "exactly Err(ModulusOverflow) -> Continue; any other error panics",
            "Continue is not produced exactly for Err(ModulusOverflow)", loc=f.loc)
    except Skip:
        pass
    rule = "R-C11.G"
    try:
        f = ctx.fn(rule, name="generate_random", id_re=r"^field::FieldElementExt::generate_random$")
        g = ctx.guards(f)
        b = f.body
        K = "%s:%s:" % (rule, f.id)
        ES = Sym("ENCODED_SIZE")
        fb = calls_named(ctx, f, "fill_bytes")
        rj = calls_named(ctx, f, "from_random_rejection")
        good = len(fb) == 1 and len(rj) == 1
        if good:
            pre = Agg("RangeTo", ES)
            bufl = fb[0][1][2][1]
            good = Local(1)(fb[0][1][2][0]) and Call("index_mut", Any(), pre)(bufl) and Call("index", Any(), pre)(rj[0][1][2][0]) and \
                bufl[2][0] == rj[0][1][2][0][2][0] and g.loop_of(fb[0][0]) is not None and g.loop_of(fb[0][0]) == g.loop_of(rj[0][0]) and \
                b.dominates(fb[0][0], rj[0][0])
        req(ctx, rule, K + "fresh-chunk-per-attempt", good, "each attempt reads ENCODED_SIZE fresh bytes and classifies exactly those",
            "generate_random does not read and classify exactly ENCODED_SIZE fresh bytes per attempt", loc=f.loc)
        rds = g.retdefs
        good = len(rds) == 1 and rds[0].expr is not None and rj and Field(lambda e: e == rj[0][1], name="0", variant="Break")(rds[0].expr)
        req(ctx, rule, K + "returns-break-payload", good, "returns exactly the accepted element", "does not return the Break payload", loc=f.loc)
    except Skip:
        pass


def run_stream_consumers(ctx):
    """R-C11.B: code that is handed a stream by reference takes from it exactly what it returns.
    (1) no function wraps a stream it only BORROWS (`&mut S`) in a buffering `Prng` (the look-ahead would swallow bytes the
        caller reads next);
    (2) `IdpfValue::generate` of the pair type draws its two elements with two `F::generate(stream)` calls;
    (3) a `Seed` sampled from a stream is one `fill` of exactly its SEED_SIZE bytes."""
    rule = "R-C11.B"
    prog = ctx.prog
    n = 0
    for f in sorted((x for x in prog.fns if x.body is not None and not prog.is_test_util(x)), key=lambda x: x.id):
        for bi, t in f.body.calls():
            if t.callee.name not in ("from_seed_stream",) or not t.args:
                continue
            g = ctx.guards(f)
            a = g.eb.operand(t.args[0])
            n += 1
            key = "%s:%s:from_seed_stream#%d" % (rule, f.id, n)
            borrowed = a[0] == "param" and prog.types[f.body.locals[a[2]]].get("k") == "ref"
            if borrowed:
                ctx.bad(rule, key, "%s wraps a borrowed stream in a buffering Prng: the read-ahead consumes bytes that belong to the caller's next read" % f.id,
                        loc="%s:%s" % (f.file, t.line))
            else:
                ctx.ok(rule, key, "Prng::from_seed_stream receives an owned stream", loc="%s:%s" % (f.file, t.line), nontrivial=False)
    try:
        f = ctx.fn(rule, name="generate", trait="IdpfValue", self_adt="vdaf::poplar1::Poplar1IdpfValue")
        g = ctx.guards(f)
        key = "%s:%s" % (rule, f.id)
        rds = [rd for rd in g.retdefs if rd.expr is not None]
        gen = Call("generate", Arg(1), Any())
        good = len(rds) == 1 and Agg("Poplar1IdpfValue", Agg("array", gen, gen))(rds[0].expr) and \
            len([1 for bi, t in f.body.calls() if t.callee.name in ("generate",)]) == 2 and \
            not [1 for bi, t in f.body.calls() if t.callee.name in ("get", "fill", "fill_bytes", "from_seed_stream", "random", "next_u32", "next_u64")]
        req(ctx, rule, key, good, "Poplar1IdpfValue::generate = [F::generate(stream), F::generate(stream)]",
            "Poplar1IdpfValue::generate does not draw exactly two elements straight from the borrowed stream: %s" % [fmt(r.expr)[:120] for r in rds], loc=f.loc)
    except Skip:
        pass
    try:
        f = ctx.fn(rule, name="sample", id_re=r"Distribution<vdaf::xof::Seed<SEED_SIZE>> for .*>::sample$")
        g = ctx.guards(f)
        key = "%s:%s" % (rule, f.id)
        fills = [g.eb.call_expr(t) for bi, t in f.body.calls() if t.callee.name in ("fill", "fill_bytes", "try_fill_bytes")]
        others = [t.callee.name for bi, t in f.body.calls() if t.callee.name in ("random", "next_u32", "next_u64", "sample", "random_range", "random_iter")]
        rds = [rd for rd in g.retdefs if rd.expr is not None]
        good = len(fills) == 1 and not others and len(rds) == 1 and Agg("Seed", Any())(rds[0].expr) and Arg(2)(fills[0][2][0])
        req(ctx, rule, key, good, "a Seed sampled from a stream is one fill of its SEED_SIZE bytes",
            "Distribution<Seed>::sample is not a single byte fill of the seed (fills %d, other draws %s)" % (len(fills), others), loc=f.loc)
    except Skip:
        pass
    ctx.floor(rule, 3)


def run(ctx):
    run_stream_consumers(ctx)
    xof_rules.run_absorb(ctx, "R-C11.A")
    xof_rules.run_update_forward(ctx, "R-C11.A.update")
    xof_rules.run_seed_stream(ctx, "R-C11.S")
    run_fill(ctx)
    run_prng(ctx)
    run_sampling(ctx)
    ctx.floor("R-C11.A", 12)
    ctx.floor("R-C11.A.update", 3)
    ctx.floor("R-C11.S", 2)
    ctx.floor("R-C11.F", 9)
    ctx.floor("R-C11.P", 10)
    ctx.floor("R-C11.M", 14)
    ctx.floor("R-C11.R", 2)
    ctx.floor("R-C11.G", 2)
