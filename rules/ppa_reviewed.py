"""Reviewed exceptions of the panic-precondition analysis: obligations the interval/relational domain
cannot discharge but that reading shows infeasible.  Keyed by (function id, edge kind, normalised
operand text) — never by line number.  Each entry carries its reason; the table is part of the
trusted base and its size is reported in the evidence."""

REVIEWED = {
    # --- IdpfPublicShare::decode_with_param: relations between `bits` and the packed bit vector
    '<idpf::IdpfPublicShare<VI, VL> as codec::ParameterizedDecode<usize>>::decode_with_param|call:index|BitVec::<T, O>::from_vec(φ)|Range{0, (2 Mul $1)}':
        "the bit vector has 8*ceil(bits/4) >= 2*bits bits (built from vec![0; bits.div_ceil(4)] two lines above)",
    '<idpf::IdpfPublicShare<VI, VL> as codec::ParameterizedDecode<usize>>::decode_with_param|call:index|BitVec::<T, O>::from_vec(φ)|RangeFrom{(2 Mul $1)}':
        "same relation: 2*bits <= 8*ceil(bits/4)",
    "<idpf::IdpfPublicShare<VI, VL> as codec::ParameterizedDecode<usize>>::decode_with_param|index-call|(Iterator::next(φ) as Some).0|0":
        "chunks(2) of a slice of even length 2*bits yields chunks of exactly 2 bits",
    "<idpf::IdpfPublicShare<VI, VL> as codec::ParameterizedDecode<usize>>::decode_with_param|index-call|(Iterator::next(φ) as Some).0|1":
        "chunks(2) of a slice of even length 2*bits yields chunks of exactly 2 bits",
    # --- Cursor invariant
    "codec::ParameterizedDecode::get_decoded_with_param|overflow:Sub|len($2)|(Cursor::<T>::position(φ) as usize)":
        "std invariant: a Cursor<&[u8]> advanced only through Read never moves past the end of its slice",
    # --- IdpfInput::prefix as used by the aggregation-parameter decoder
    "idpf::IdpfInput::prefix|call:index|$1.index|RangeToInclusive{$2}":
        "public infallible API with a documented panic; the decoder calls it with level < 8*prefix_byte_len = len(index) "
        "(buf has ceil((level+1)/8) bytes); callers in Poplar1 pass levels below the stored prefix length",

    # --- api-source analysis (C16): relations the interval domain cannot express
    '<flp::ProveShimGadget<F> as flp::Gadget<F>>::eval|call:index_mut|φ.wire_values|RangeTo{len($2)}':
        'private shim gadget: every in-crate validity circuit calls eval with exactly arity() inputs and wire_values has arity() rows',
    '<flp::QueryShimGadget<F> as flp::Gadget<F>>::eval|call:index_mut|φ.wire_values|RangeTo{len($2)}':
        'private shim gadget: every in-crate validity circuit calls eval with exactly arity() inputs and wire_values has arity() rows',
    '<flp::types::MultihotCountVec<F, S> as flp::Type>::encode_measurement::{closure}|call:unwrap|FieldElementWithIntegerExt::valid_integer_try_from(($2 as usize))':
        "the converted value is `bit as usize` in {0, 1}, which fits every field's integer type",
    '<flp::types::MultihotCountVec<F, S> as flp::Type>::truncate|call:index|$2|RangeTo{$1.length}':
        'truncate_call_check pins len(input) to input_len() = length + bits_for_weight >= length',
    '<idpf::IdpfInput as std::ops::Index<I>>::index|index-call|$1.index|$2':
        'std::ops::Index impl (indexing contract; not a Result-returning operation), reached only through class-hierarchy resolution',
    '<vdaf::poplar1::VerifierState<F> as codec::Encode>::encode|call:expect|<impl TryFrom<usize> for u32>::try_from(len($1.output_share))|"Couldn\'t convert output_share length to u32"':
        'documented expect: output_share has one element per candidate prefix and Poplar1AggregationParam holds at most u32::MAX prefixes',
    '<vdaf::prio2::Prio2 as vdaf::Client<16>>::shard::{closure}|call:clone_from_slice|<impl IndexMut<I> for [T]>::index_mut($2, RangeFull{})|^^1':
        'share_data is the `dimension`-long data part handed out by unpack_proof_mut and input has measurement.len() == input_len elements (checked at the top of shard)',
    '<vdaf::prio3::Prio3<T, P, SEED_SIZE> as vdaf::Aggregator<SEED_SIZE, 16>>::verify_init|call:index|Prio3::<T, P, SEED_SIZE>::derive_query_rands($1, $2, $3, $6)|Range{(Flp::query_rand_len($1.typ) Mul (<impl Iterator for Range<A>>::next(φ) as Some).0), ((1 Add (<impl Iterator for Range<A>>::next(φ) as Some).0) Mul Flp::q':
        'query_rands has query_rand_len() * num_proofs() elements (into_field_vec of exactly that length) and p ranges over 0..num_proofs()',
    'codec::encode_u16_items|call:copy_from_slice|<Vec<T, A> as IndexMut<I>>::index_mut($1, Range{len($1), (len($1) Add 2)})|<impl u16>::to_be_bytes(Result::<T, E>::map_err(<impl TryFrom<usize> for u16>::try_from(((len($1) Sub len($1)) Sub 2)), _)?)':
        'length-prefix back-patching over a growing Vec: len_offset was recorded before a placeholder of the prefix width was pushed, so bytes.len() >= len_offset + width at the later reads (the reconstructed terms cannot distinguish the two len() reads)',
    'codec::encode_u16_items|call:index_mut|$1|Range{len($1), (len($1) Add 2)}':
        'length-prefix back-patching over a growing Vec: len_offset was recorded before a placeholder of the prefix width was pushed, so bytes.len() >= len_offset + width at the later reads (the reconstructed terms cannot distinguish the two len() reads)',
    'codec::encode_u16_items|overflow:Sub|(len($1) Sub len($1))|2':
        'length-prefix back-patching over a growing Vec: len_offset was recorded before a placeholder of the prefix width was pushed, so bytes.len() >= len_offset + width at the later reads (the reconstructed terms cannot distinguish the two len() reads)',
    'codec::encode_u16_items|overflow:Sub|len($1)|len($1)':
        'length-prefix back-patching over a growing Vec: len_offset was recorded before a placeholder of the prefix width was pushed, so bytes.len() >= len_offset + width at the later reads (the reconstructed terms cannot distinguish the two len() reads)',
    'codec::encode_u32_items|call:copy_from_slice|<Vec<T, A> as IndexMut<I>>::index_mut($1, Range{len($1), (len($1) Add 4)})|<impl u32>::to_be_bytes(Result::<T, E>::map_err(<impl TryFrom<usize> for u32>::try_from(((len($1) Sub len($1)) Sub 4)), _)?)':
        'length-prefix back-patching over a growing Vec: len_offset was recorded before a placeholder of the prefix width was pushed, so bytes.len() >= len_offset + width at the later reads (the reconstructed terms cannot distinguish the two len() reads)',
    'codec::encode_u32_items|call:index_mut|$1|Range{len($1), (len($1) Add 4)}':
        'length-prefix back-patching over a growing Vec: len_offset was recorded before a placeholder of the prefix width was pushed, so bytes.len() >= len_offset + width at the later reads (the reconstructed terms cannot distinguish the two len() reads)',
    'codec::encode_u32_items|overflow:Sub|(len($1) Sub len($1))|4':
        'length-prefix back-patching over a growing Vec: len_offset was recorded before a placeholder of the prefix width was pushed, so bytes.len() >= len_offset + width at the later reads (the reconstructed terms cannot distinguish the two len() reads)',
    'codec::encode_u32_items|overflow:Sub|len($1)|len($1)':
        'length-prefix back-patching over a growing Vec: len_offset was recorded before a placeholder of the prefix width was pushed, so bytes.len() >= len_offset + width at the later reads (the reconstructed terms cannot distinguish the two len() reads)',
    'codec::encode_u8_items|index-call|$1|len($1)':
        'length-prefix back-patching over a growing Vec: len_offset was recorded before a placeholder of the prefix width was pushed, so bytes.len() >= len_offset + width at the later reads (the reconstructed terms cannot distinguish the two len() reads)',
    'codec::encode_u8_items|overflow:Sub|(len($1) Sub len($1))|1':
        'length-prefix back-patching over a growing Vec: len_offset was recorded before a placeholder of the prefix width was pushed, so bytes.len() >= len_offset + width at the later reads (the reconstructed terms cannot distinguish the two len() reads)',
    'codec::encode_u8_items|overflow:Sub|len($1)|len($1)':
        'length-prefix back-patching over a growing Vec: len_offset was recorded before a placeholder of the prefix width was pushed, so bytes.len() >= len_offset + width at the later reads (the reconstructed terms cannot distinguish the two len() reads)',
    'flp::Flp::query::{closure}|call:index|^^1|Range{^^1, ((Gadget::arity($2.0.pointer) Add gadget_poly_len(Gadget::degree($2.0.pointer), wire_poly_len(Gadget::calls($2.0.pointer)))) Add ^^1)}':
        'len(proof) was pinned to proof_len() = sum(arity + gadget_poly_len) by the guard at the top of query; the closure walks exactly that layout',
    'flp::Flp::query|call:unwrap|TryFrom::try_from(wire_poly_len(Gadget::calls((Iterator::next(φ) as Some).0.0.0.pointer)))':
        "wire_poly_len(calls) <= proof_len, and a circuit whose wire polynomial length does not fit the field's integer type cannot be instantiated (NTT size limit 2^20)",
    'flp::ProveShimGadget::<F>::new|call:index|$2|RangeTo{len(φ)}':
        'the only caller passes prove_rand[i..i + inner.arity()], and wire_values has inner.arity() rows',
    'flp::QueryShimGadget::<F>::new|bounds|len($2)|(<impl Iterator for Range<A>>::next(φ) as Some).0':
        'the only caller passes a proof_data slice of length arity + gadget_poly_len >= arity',
    'flp::QueryShimGadget::<F>::new|call:index|$2|RangeFrom{Gadget::arity($1.0.pointer)}':
        'the only caller passes a proof_data slice of length arity + gadget_poly_len >= arity',
    'flp::QueryShimGadget::<F>::new|overflow:Shl|1|(log2((<impl usize>::next_power_of_two(gadget_poly_len(Gadget::degree($1.0.pointer), wire_poly_len(Gadget::calls($1.0.pointer)))) as u128)) Sub log2((wire_poly_':
        'size = npo2(degree*(p-1)+1) >= p for every gadget of degree >= 1 (all in-crate gadgets have degree >= 2), and size/p <= 2*degree so the shift amount is tiny',
    'flp::QueryShimGadget::<F>::new|overflow:Sub|log2((<impl usize>::next_power_of_two(gadget_poly_len(Gadget::degree($1.0.pointer), wire_poly_len(Gadget::calls($1.0.pointer)))) as u128))|log2((wire_poly_len(Gadget::calls($1.0.pointer)) as u128))':
        'size = npo2(degree*(p-1)+1) >= p for every gadget of degree >= 1 (all in-crate gadgets have degree >= 2), and size/p <= 2*degree so the shift amount is tiny',
    'flp::gadget_poly_len|overflow:Add|(($2 Sub 1) Mul $1)|1':
        'A1: the gadget polynomial is materialised in the proof buffer, so degree*(wire_poly_len-1)+1 is an in-memory length',
    'flp::gadget_poly_len|overflow:Mul|$1|($2 Sub 1)':
        'A1: the gadget polynomial is materialised in the proof buffer, so degree*(wire_poly_len-1)+1 is an in-memory length',
    'idpf::Idpf::<VI, VL>::eval_from_node|call:index|$3.inner_correction_words|RangeFrom{$4}':
        'start_level is the length of a cached proper prefix (< prefix.len() <= bits) and inner_correction_words has bits - 1 entries',
    'idpf::Idpf::<VI, VL>::eval|overflow:Sub|<impl BitSlice<T, O>>::len(φ)|1':
        'Idpf::eval refuses an empty prefix before building cache_key, so cache_key.len() >= 1',
    'vdaf::prio2::Prio2::verify_init_with_query_rand|call:index|($3 as Leader).0|RangeTo{$1.input_len}':
        "generate_verification_message(..)? succeeded, so unpack_proof's guard pinned len(data) to proof_length(input_len) = input_len + 3 + n >= input_len",
    'vdaf::prio3::Prio3::<T, P, SEED_SIZE>::shard_with_random|call:index|Option::<T>::unwrap_or_default(Option::<T>::map(Prio3PublicShare{Option::<Result<T, E>>::transpose(Option::<T>::map(φ, closure Prio3::<T, P, SEED_SIZE>::{closur|Range{(Flp::joint_rand_len($1.typ) Mul (<impl Iterator for Range<A>>::next(φ) as Some).0), ((1 Add (<impl Iterator for Range<A>>::next(φ) as Some).0) Mul Flp::j':
        'joint_rands has joint_rand_len() * num_proofs() elements (empty when joint_rand_len() == 0) and p ranges over 0..num_proofs()',
    "vdaf::prio3::Prio3::<T, P, SEED_SIZE>::shard_with_random|call:index|Prio3::<T, P, SEED_SIZE>::derive_prove_rands($1, $2, Seed::<SEED_SIZE>::from_bytes(Option::<T>::unwrap(Iterator::next(φ))))|Range{(Flp::prove_rand_len($1.typ) Mul (<impl Iterator for Range<A>>::next(φ) as Some).0), ((1 Add (<impl Iterator for Range<A>>::next(φ) as Some).0) Mul Flp::p":
        'prove_rands has prove_rand_len() * num_proofs() elements and p ranges over 0..num_proofs()',
    'vdaf::prio3::Prio3::<T, P, SEED_SIZE>::shard_with_random|call:unwrap|<impl TryFrom<usize> for u8>::try_from((Iterator::next(φ) as Some).0.0)':
        'j enumerates the helper shares: j < num_aggregators - 1 <= 253, so j fits u8 and j + 1 <= 254',
    'vdaf::prio3::Prio3::<T, P, SEED_SIZE>::shard_with_random|overflow:Add|1|Result::<T, E>::unwrap(<impl TryFrom<usize> for u8>::try_from((Iterator::next(φ) as Some).0.0))':
        'j enumerates the helper shares: j < num_aggregators - 1 <= 253, so j fits u8 and j + 1 <= 254',
    "flp::types::dp::<impl flp::types::l1boundsum::L1BoundSum<F, S>>::add_noise|call:unwrap|<impl TryFrom<BigInt> for BigUint>::try_from((conv($1.max_value) Mul 2))":
        "BigInt::from(an unsigned integer) * 2 is non-negative, so the conversion to BigUint cannot fail",
}
