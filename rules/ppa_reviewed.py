"""Reviewed exceptions of the panic-precondition analysis: obligations the interval/relational domain
cannot discharge but that reading shows infeasible.  Keyed by (function id, edge kind, normalised
operand text) — never by line number.  Each entry carries its reason; the table is part of the
trusted base and its size is reported in the evidence."""

REVIEWED = {
    # --- IdpfPublicShare::decode_with_param: relations between `bits` and the packed bit vector
    "<idpf::IdpfPublicShare<VI, VL> as codec::ParameterizedDecode<usize>>::decode_with_param|call:index|BitVec::<T, O>::from_vec(φpacked_control_bits)|Range{0, (bits Mul 2)}":
        "the bit vector has 8*ceil(bits/4) >= 2*bits bits (built from vec![0; bits.div_ceil(4)] two lines above)",
    "<idpf::IdpfPublicShare<VI, VL> as codec::ParameterizedDecode<usize>>::decode_with_param|call:index|BitVec::<T, O>::from_vec(φpacked_control_bits)|RangeFrom{(bits Mul 2)}":
        "same relation: 2*bits <= 8*ceil(bits/4)",
    "<idpf::IdpfPublicShare<VI, VL> as codec::ParameterizedDecode<usize>>::decode_with_param|index-call|(<Chunks<'a, T, O> as Iterator>::next(φiter) as Some).0|0":
        "chunks(2) of a slice of even length 2*bits yields chunks of exactly 2 bits",
    "<idpf::IdpfPublicShare<VI, VL> as codec::ParameterizedDecode<usize>>::decode_with_param|index-call|(<Chunks<'a, T, O> as Iterator>::next(φiter) as Some).0|1":
        "chunks(2) of a slice of even length 2*bits yields chunks of exactly 2 bits",
    # --- Cursor invariant
    "codec::ParameterizedDecode::get_decoded_with_param|overflow:Sub|len(bytes)|(Cursor::<T>::position(φcursor) as usize)":
        "std invariant: a Cursor<&[u8]> advanced only through Read never moves past the end of its slice",
    # --- IdpfInput::prefix as used by the aggregation-parameter decoder
    "idpf::IdpfInput::prefix|call:index|self.index|RangeToInclusive{level}":
        "public infallible API with a documented panic; the decoder calls it with level < 8*prefix_byte_len = len(index) "
        "(buf has ceil((level+1)/8) bytes); callers in Poplar1 pass levels below the stored prefix length",
}
