from pat import *
from expr import fmt, walk
from harness import Skip
from guards import decision_table, phi_defs, necessary_edges, fmt_cond, block_conditions
from rules.ts import check_table, cond_matches
from rules.common import eqcov_impl, all_terms
from rules import effects

INFO = {
    "explanation": "TS/DEP/EFFECT rules over the MIR of topology::ping_pong: the message-kind x host-transition decision "
                   "tables of continued / helper_initialized / evaluate / evaluate_transition equal the draft-18 section "
                   "5.7.1 tables (exhaustive over the enum variants); an output share is constructed only on the "
                   "(Finish, Finish) row from verify_next's own result; verifier shares reach the combiner as "
                   "[leader, helper] (array order + reverse() exactly under is_leader; roles 0/true and 1/false at the "
                   "entry points); inbound bytes are decoded with the trailing-byte-rejecting get_decoded_with_param "
                   "under the right state; every fallible call's error is propagated; evaluate and every shipped "
                   "verify_next / verifier_shares_to_message cannot reach an RNG, clock or interior-mutable state, so a "
                   "stored continuation re-evaluates identically at any crash point; the continuation codec decodes the "
                   "message under the just-decoded state. Equality with a broadcast execution follows only together "
                   "with C07/C18 and is not decided by itself; third-party Aggregator impls are out of scope.",
    "trusted_base": ["rustc type checker and MIR construction (nightly)", "expression reconstruction (sa/expr.py)",
                     "state machine tables transcribed from draft-irtf-cfrg-vdaf-18 section 5.7.1",
                     "RNG/clock/interior-mutability source list in rules/effects.py"],
    "exhaustive": True,
    "assumptions": ["explicit data flow only"],
}

PP = "topology::ping_pong"


def V(subject, name):
    return ("variant", subject, name)


def run(ctx):
    # ---------------- continued
    rule = "R-C12.T.continued"
    try:
        f = ctx.fn(rule, name="continued", id_re=r"PingPongTopologyPrivate<.*>>::continued$")
        g = ctx.guards(f)
        inbound = Arg(6)
        is_leader = Arg(3)
        vn = Try(ThroughCasts(Mentions(Call("verify_next"))))
        vn_try = lambda e: e[0] == "try" and Mentions(Call("verify_next"))(e)

        # the Option tracking "peer sent a next verifier share"
        def peer_share_opt(e):
            return True

        rows = [
            ("(Continue,Continue)->Transition",
             Agg("Result::Ok", ThroughCasts(Agg("PingPongContinuationInner::Transition",
                                                Field(vn_try, name="0", variant="Continue"),
                                                Try(Mentions(Call("verifier_shares_to_message")))))),
             [V(vn_try, "Continue"), V(Any(), "Some")]),
            ("(Finish,Finish)->OutputShare",
             Agg("Result::Ok", ThroughCasts(Agg("PingPongContinuationInner::OutputShare",
                                                Field(vn_try, name="0", variant="Finish")))),
             [V(vn_try, "Finish"), V(Any(), "None")]),
        ]
        table = check_table(ctx, rule, f, rows)
        # tie the Some/None subject to the inbound message kind
        for rd, conds in table:
            for c in conds:
                if c[0] == "variant" and c[2] in ("Some", "None") and c[3]:
                    subj = c[1]
                    key = "%s:%s:peer-share-option-tracks-message-kind:%s" % (rule, f.id, c[2])
                    good = False
                    detail = fmt(subj)
                    # subject is component 1 of a phi tuple defined per inbound variant
                    base = subj
                    comp = None
                    if base[0] == "field" and base[1][0] == "phi":
                        comp = int(base[2]) if base[2].isdigit() else None
                        defs = phi_defs(g, base[1][1])
                        m = {}
                        for (de, dconds, bi) in defs:
                            vs = [d[2] for d in dconds if d[0] == "variant" and d[3] and inbound(d[1])]
                            if de[0] == "agg" and de[1] == "tuple" and comp is not None and comp < len(de[2]) and vs:
                                el = de[2][comp]
                                kind = "Some" if Agg("Option::Some")(el) else ("None" if Agg("Option::None")(el) else "?")
                                m[vs[0]] = kind
                        detail = str(m)
                        good = m == {"Continue": "Some", "Finish": "None"}
                    elif base[0] == "phi":
                        defs = phi_defs(g, base[1])
                        m = {}
                        for (de, dconds, bi) in defs:
                            vs = [d[2] for d in dconds if d[0] == "variant" and d[3] and inbound(d[1])]
                            if vs:
                                m[vs[0]] = "Some" if Agg("Option::Some")(de) else ("None" if Agg("Option::None")(de) else "?")
                        detail = str(m)
                        good = m == {"Continue": "Some", "Finish": "None"}
                    if good:
                        ctx.ok(rule, key, "peer-share option is Some exactly for Continue, None exactly for Finish: %s" % detail, loc=f.loc)
                    else:
                        ctx.bad(rule, key, "cannot establish that `%s` is Some exactly for an inbound Continue and None for Finish: %s" % (
                            fmt(subj)[:80], detail), loc=f.loc)
        # Initialize refused before verify_next is called
        key = "%s:%s:initialize-refused-before-verify_next" % (rule, f.id)
        init_edges = [e for e in g.edges if e.cond[0] == "variant" and e.cond[2] == "Initialize" and e.cond[3] and inbound(e.cond[1])]
        vn_blocks = [bi for bi, t in f.body.calls() if t.callee.name == "verify_next"]
        if init_edges and all(set(rd.kind for rd in e.leads) <= {"err"} and e.leads for e in init_edges) and vn_blocks and \
                all(not (set(vn_blocks) & f.body.reach_from(e.target)) for e in init_edges):
            ctx.ok(rule, key, "inbound Initialize leads only to Err and cannot reach the verify_next call", loc=f.loc)
        else:
            ctx.bad(rule, key, "inbound Initialize is not refused before verify_next", loc=f.loc)
        # verify_next receives the host state and the message decoded under the host state with
        # get_decoded_with_param
        key = "%s:%s:verify_next-args" % (rule, f.id)
        vcalls = [g.eb.call_expr(t) for bi, t in f.body.calls() if t.callee.name == "verify_next"]
        good = len(vcalls) == 1
        if good:
            a = vcalls[0][2]
            good = Arg(1)(a[0]) and Arg(2)(a[1]) and Arg(5)(a[2]) and \
                Try(ThroughCasts(Mentions(Call("get_decoded_with_param", Arg(5), Any()))))(a[3]) or \
                (Arg(1)(a[0]) and Arg(2)(a[1]) and Arg(5)(a[2]) and Mentions(Call("get_decoded_with_param", Arg(5), Any()))(a[3]))
        if good:
            ctx.ok(rule, key, "verify_next(self, ctx, host_state, get_decoded_with_param(&host_state, message)?)", loc=f.loc)
        else:
            ctx.bad(rule, key, "verify_next is not called with (ctx, host state, message decoded under the host state): %s" % [fmt(v)[:200] for v in vcalls], loc=f.loc)

        # share order
        rule2 = "R-C12.R.order"
        stm = [g.eb.call_expr(t) for bi, t in f.body.calls() if t.callee.name == "verifier_shares_to_message"]
        key = "%s:%s:continued-array-order" % (rule2, f.id)
        good = False
        detail = ""
        if len(stm) == 1:
            shares = stm[0][2][3]
            init = g.eb.init_expr(shares[1]) if shares[0] == "phi" else shares
            detail = fmt(init)[:300] if init else "?"
            if init is not None and init[0] == "agg" and init[1] == "array" and len(init[2]) == 2:
                peer, host = init[2]
                peer_ok = Mentions(Call("get_decoded_with_param", Field(vn_try, name="0", variant="Continue"), Any()))(peer)
                host_ok = Field(vn_try, name="1", variant="Continue")(host)
                good = peer_ok and host_ok
            # reverse() exactly under is_leader, and no other mutation of the array
            if good and shares[0] == "phi":
                l = shares[1]
                muts = []
                for bi, t in f.body.calls():
                    for a in t.args:
                        if a.place is not None:
                            ex = g.eb.operand(a)
                    ce = g.eb.call_expr(t)
                    if ce[0] != "call":
                        continue
                    if any(x == ("phi", l, shares[2]) for x in ce[2]) and t.callee.name != "verifier_shares_to_message":
                        muts.append((bi, t.callee.name, ce))
                revs = [m for m in muts if m[1] == "reverse"]
                others = [m for m in muts if m[1] not in ("reverse",)]
                partial = [d for d in f.body.defs.get(l, []) if d[2] == "partial"]
                cond_ok = False
                if len(revs) == 1:
                    conds = block_conditions(g, revs[0][0])
                    cond_ok = any(c[0] == "truth" and c[2] is True and is_leader(c[1]) for c in conds)
                    # and the non-leader path must bypass reverse: the combine call is reachable from the
                    # `!is_leader` edge without passing the reverse block
                    for e in g.edges:
                        if e.cond[0] == "truth" and e.cond[2] is False and is_leader(e.cond[1]):
                            if revs[0][0] in f.body.reach_from(e.target):
                                cond_ok = False
                good = cond_ok and not others and not partial
                detail += " reverse-under-is_leader=%s other-mutations=%s" % (cond_ok, [m[1] for m in others])
        if not good and len(stm) == 1 and stm[0][2][3][0] == "phi":
            # the same order spelled as a choice: `if is_leader { [host, peer] } else { [peer, host] }` (no later mutation)
            shares = stm[0][2][3]
            defs = phi_defs(g, shares[1])
            peer_p = Mentions(Call("get_decoded_with_param", Field(vn_try, name="0", variant="Continue"), Any()))
            host_p = Field(vn_try, name="1", variant="Continue")
            seen = {}
            for (de, dconds, bi) in defs:
                pol = [c[2] for c in dconds if c[0] == "truth" and is_leader(c[1])]
                if de is not None and de[0] == "agg" and de[1] == "array" and len(de[2]) == 2 and len(pol) == 1:
                    a0, a1 = de[2]
                    seen[pol[0]] = "host,peer" if (host_p(a0) and peer_p(a1)) else ("peer,host" if (peer_p(a0) and host_p(a1)) else "?")
            muts = [t.callee.name for bi, t in f.body.calls() for ce in [g.eb.call_expr(t)]
                    if ce[0] == "call" and any(x == shares for x in ce[2]) and t.callee.name != "verifier_shares_to_message"]
            partial = [d for d in f.body.defs.get(shares[1], []) if d[2] == "partial"]
            detail = "choice %s, mutations %s" % (seen, muts)
            good = len(defs) == 2 and seen == {True: "host,peer", False: "peer,host"} and not muts and not partial
        if good:
            ctx.ok(rule2, key, "shares = [peer, host], reversed exactly when is_leader => [leader, helper]: %s" % detail, loc=f.loc)
        else:
            ctx.bad(rule2, key, "verifier shares are not handed to the combiner as [peer, host] + reverse() iff is_leader: %s" % detail, loc=f.loc)
    except Skip:
        pass
    ctx.floor("R-C12.T.continued", 6)

    # ---------------- entry points
    rule = "R-C12.R.roles"
    for name, lit in (("leader_continued", 1), ("helper_continued", 0)):
        try:
            f = ctx.fn(rule, name=name, id_re=r"PingPongTopology<.*>>::%s$" % name)
            g = ctx.guards(f)
            key = "%s:%s" % (rule, f.id)
            calls = [g.eb.call_expr(t) for bi, t in f.body.calls() if t.callee.name == "continued"]
            if len(calls) == 1 and Lit(lit)(calls[0][2][2]) and Arg(1)(calls[0][2][0]) and Arg(2)(calls[0][2][1]) and \
                    Arg(3)(calls[0][2][3]) and Arg(4)(calls[0][2][4]) and Arg(5)(calls[0][2][5]) and \
                    all(rd.kind == "call" for rd in g.retdefs):
                ctx.ok(rule, key, "%s = continued(ctx, %s, param, state, inbound)" % (name, bool(lit)), loc=f.loc)
            else:
                ctx.bad(rule, key, "%s does not delegate to continued(.., is_leader=%s, ..) with its own arguments: %s" % (
                    name, bool(lit), [fmt(c)[:160] for c in calls]), loc=f.loc)
        except Skip:
            pass
    for name, lit in (("leader_initialized", 0), ("helper_initialized", 1)):
        try:
            f = ctx.fn(rule, name=name, id_re=r"PingPongTopology<.*>>::%s$" % name)
            g = ctx.guards(f)
            key = "%s:%s" % (rule, f.id)
            calls = [g.eb.call_expr(t) for bi, t in f.body.calls() if t.callee.name == "verify_init"]
            if len(calls) == 1 and Lit(lit)(calls[0][2][3]) and Arg(2)(calls[0][2][1]) and Arg(3)(calls[0][2][2]) and \
                    Arg(4)(calls[0][2][4]) and Arg(5)(calls[0][2][5]) and Arg(6)(calls[0][2][6]) and Arg(7)(calls[0][2][7]):
                ctx.ok(rule, key, "%s calls verify_init with aggregator id %d and its own arguments" % (name, lit), loc=f.loc)
            else:
                ctx.bad(rule, key, "%s does not call verify_init(verify_key, ctx, %d, ..): %s" % (name, lit, [fmt(c)[:200] for c in calls]), loc=f.loc)
        except Skip:
            pass
    ctx.floor(rule, 4)

    # ---------------- helper_initialized
    rule = "R-C12.T.helper_init"
    try:
        f = ctx.fn(rule, name="helper_initialized", id_re=r"PingPongTopology<.*>>::helper_initialized$")
        g = ctx.guards(f)
        vi = lambda e: e[0] == "try" and Mentions(Call("verify_init"))(e) and not Mentions(Call("verifier_shares_to_message"))(e)
        own_state = Field(vi, name="0")
        own_share = Field(vi, name="1")
        leader_share = Mentions(Call("get_decoded_with_param", own_state, Field(Arg(8), name="verifier_share", variant="Initialize")))
        rows = [("Initialize->Transition",
                 Agg("Result::Ok", ThroughCasts(Agg("PingPongContinuationInner::Transition", own_state,
                                                    Try(ThroughCasts(Call("map_err", Call("verifier_shares_to_message", Arg(1), Arg(3), Arg(4),
                                                                                          Agg("array", leader_share, own_share)))))))),
                 [V(Arg(8), "Initialize")])]
        check_table(ctx, rule, f, rows)
    except Skip:
        pass
    ctx.floor(rule, 1)

    # ---------------- evaluate / evaluate_transition
    rule = "R-C12.T.evaluate"
    try:
        f = ctx.fn(rule, name="evaluate", self_adt=PP + "::PingPongContinuation")
        inner = Field(Arg(1), "0")
        rows = [("OutputShare->Finished", Agg("Result::Ok", Agg("PingPongState::Finished", Field(inner, name="0", variant="OutputShare"))),
                 [V(inner, "OutputShare")]),
                ("Transition->evaluate_transition",
                 Call("evaluate_transition", Arg(2), Arg(3), Field(inner, name="previous_verifier_state", variant="Transition"),
                      Field(inner, name="current_verifier_message", variant="Transition")),
                 [V(inner, "Transition")])]
        check_table(ctx, rule, f, rows)
    except Skip:
        pass
    try:
        f = ctx.fn(rule, name="evaluate_transition", self_adt=PP + "::PingPongContinuation")
        g = ctx.guards(f)
        key = "%s:%s:verify_next-on-stored-state" % (rule, f.id)
        # two equivalent idioms: `verify_next(..).map_err(..).and_then(|transition| match ..)`  or
        #                        `let transition = verify_next(..).map_err(..)?; match transition ..`
        vn = Call("map_err", Call("verify_next", Arg(2), Arg(1), Arg(3), Arg(4)))
        rds = [rd for rd in g.retdefs if rd.kind == "call"]
        good = False
        clos = None
        body_fn, tr, enc_src = None, None, None
        if len(rds) == 1 and len(g.accept_defs(("err",))) == 1 and Call("and_then", vn, Any())(rds[0].expr):
            good = True
            clos = rds[0].expr[2][1]
            if clos[0] == "closure":
                body_fn, tr = ctx.prog.by_did.get(clos[3]), Arg(2)
        elif ctx.require_try_call(rule, f, vn, desc="verify_next(ctx, stored state, stored message).map_err(..)?", key=key + ":try") is not None:
            good = True
            body_fn, tr = f, Try(vn)
        if good:
            ctx.ok(rule, key, "evaluate_transition evaluates verify_next(ctx, state.clone(), message.clone()) and maps the transition", loc=f.loc)
        else:
            ctx.bad(rule, key, "evaluate_transition does not return verify_next(ctx, stored state, stored message) mapped through the transition table: %s" % [fmt(r.expr)[:200] for r in rds], loc=f.loc)
        if body_fn is not None:
            cf = body_fn
            msgbytes = lambda e: True
            rows = [("Continue->Continued",
                     Agg("Result::Ok", Agg("PingPongState::Continued", Agg("Continued",
                                                                           Agg("PingPongMessage::Continue", Any(), Try(Mentions(Call("get_encoded", Field(tr, name="1", variant="Continue"))))),
                                                                           Field(tr, name="0", variant="Continue")))),
                     [V(tr, "Continue")]),
                    ("Finish->FinishedWithOutbound",
                     Agg("Result::Ok", Agg("PingPongState::FinishedWithOutbound", Field(tr, name="0", variant="Finish"),
                                           Agg("PingPongMessage::Finish", Any()))),
                     [V(tr, "Finish")])]
            check_table(ctx, rule, cf, rows)
            # the outbound verifier message bytes are the encoding of the stored message
            key = "%s:%s:outbound-message-is-stored-message" % (rule, f.id)
            if clos is not None and clos[0] == "closure":
                caps = clos[2]
                okm = len(caps) == 1 and Try(ThroughCasts(Mentions(Call("get_encoded", Arg(4)))))(caps[0])
            else:
                gg = ctx.guards(cf)
                outs = [x for rd in gg.retdefs if rd.expr is not None for x in walk(rd.expr) if Agg("PingPongMessage::Continue")(x) or Agg("PingPongMessage::Finish")(x)]
                okm = bool(outs) and all(Mentions(Try(ThroughCasts(Mentions(Call("get_encoded", Arg(4))))))(x) or Mentions(Call("get_encoded", Arg(4)))(x) for x in outs)
            if okm:
                ctx.ok(rule, key, "the outbound verifier message is get_encoded(current_verifier_message)?", loc=f.loc)
            else:
                ctx.bad(rule, key, "outbound verifier message is not the encoding of the stored verifier message", loc=f.loc)
    except Skip:
        pass
    ctx.floor(rule, 6)

    # ---------------- output release
    rule = "R-C12.O.release"
    sites = []
    for f in ctx.prog.fns:
        if not f.file.endswith("topology/ping_pong.rs") or ctx.prog.is_test_util(f):
            continue
        for bi, si, s in f.body.iter_stmts():
            if s.rv is not None and s.rv.kind == "agg" and s.rv.agg == "adt" and s.rv.path and \
                    ((s.rv.path.endswith("PingPongContinuationInner") and s.rv.vname == "OutputShare") or
                     (s.rv.path.endswith("PingPongState") and s.rv.vname in ("Finished", "FinishedWithOutbound"))):
                sites.append((f, bi, s))
    allowed = {("continued", "OutputShare"), ("evaluate", "Finished"), ("{closure}", "FinishedWithOutbound"), ("evaluate_transition", "FinishedWithOutbound")}
    for f, bi, s in sites:
        key = "%s:%s:%s" % (rule, f.id, s.rv.vname)
        imp = ctx.prog.impl_by_did.get(f.impl) if f.impl is not None else None
        derived = imp is not None and imp.get("derived")
        if derived:
            continue
        if (f.name, s.rv.vname) in allowed:
            ctx.ok(rule, key, "%s constructed in %s (row checked by the decision tables)" % (s.rv.vname, f.id), loc="%s:%s" % (f.file, s.line))
        else:
            ctx.bad(rule, key, "output-share-carrying value %s constructed outside the (Finish, Finish) rows: %s" % (s.rv.vname, f.id),
                    loc="%s:%s" % (f.file, s.line))
    ctx.floor(rule, 3)

    # ---------------- decode discipline
    rule = "R-C12.D.decode"
    for nm in ("continued", "helper_initialized"):
        for f in ctx.prog.find(name=nm, id_re=r"ping_pong::PingPongTopology"):
            g = ctx.guards(f)
            for bi, t in f.body.calls():
                n = t.callee.name
                if n in ("get_decoded", "decode", "decode_with_param", "get_decoded_with_param"):
                    key = "%s:%s:%s" % (rule, f.id, n)
                    if n == "get_decoded_with_param":
                        ctx.ok(rule, key + ":%d" % t.line if False else key, "inbound bytes decoded with get_decoded_with_param (rejects trailing bytes)", loc="%s:%s" % (f.file, t.line))
                    else:
                        ctx.bad(rule, key, "inbound bytes decoded with `%s`, which does not reject trailing bytes / ignores the state" % n,
                                loc="%s:%s" % (f.file, t.line))
            # every fallible call's error is propagated: no unwrap/expect/ok()/unwrap_or in these functions
            for bi, t in f.body.calls():
                n = t.callee.name
                if n in ("unwrap", "expect", "ok", "unwrap_or", "unwrap_or_default", "unwrap_or_else", "unwrap_unchecked"):
                    ctx.bad(rule, "%s:%s:error-dropped:%s" % (rule, f.id, n), "a fallible result is consumed with `%s` instead of being propagated" % n,
                            loc="%s:%s" % (f.file, t.line))
    ctx.floor(rule, 2)

    # ---------------- continuation codec
    rule = "R-C12.S.codec"
    try:
        f = ctx.fn(rule, name="decode_with_param", self_adt=PP + "::PingPongContinuation")
        state = lambda e: e[0] == "try" and Call("decode_with_param", Arg(1), Arg(2))(e[1])
        rows = [("state-then-message-under-state",
                 Agg("Result::Ok", Agg("PingPongContinuation", Agg("PingPongContinuationInner::Transition", state,
                                                                   Try(Call("decode_with_param", state, Arg(2)))))), [])]
        check_table(ctx, rule, f, rows)
    except Skip:
        pass
    try:
        f = ctx.fn(rule, name="encode", trait="Encode", self_adt=PP + "::PingPongContinuation")
        g = ctx.guards(f)
        inner = Field(Arg(1), "0")
        encs = [(bi, g.eb.call_expr(t)) for bi, t in f.body.calls() if t.callee.name == "encode"]
        st = [bi for bi, e in encs if Field(inner, name="previous_verifier_state", variant="Transition")(e[2][0])]
        ms = [bi for bi, e in encs if Field(inner, name="current_verifier_message", variant="Transition")(e[2][0])]
        key = "%s:%s:order" % (rule, f.id)
        if len(st) == 1 and len(ms) == 1 and f.body.dominates(st[0], ms[0]) and len(encs) == 2:
            ctx.ok(rule, key, "encode writes the state, then the message", loc=f.loc)
        else:
            ctx.bad(rule, key, "encode does not write exactly [state, message] in that order", loc=f.loc)
        rows_acc = [rd for rd in g.retdefs if rd.kind not in ("err",)]
        key = "%s:%s:only-transition-encodes" % (rule, f.id)
        okk = True
        for rd in rows_acc:
            conds = block_conditions(g, rd.block)
            if not any(c[0] == "variant" and c[2] == "Transition" and c[3] for c in conds):
                okk = False
        if okk and rows_acc:
            ctx.ok(rule, key, "only the Transition variant encodes", loc=f.loc)
        else:
            ctx.bad(rule, key, "a non-Transition continuation can be encoded", loc=f.loc)
    except Skip:
        pass
    eqcov_impl(ctx, rule, PP + "::PingPongContinuation", "eq", "PartialEq")
    ctx.floor(rule, 4)
    # a stored continuation holds a verifier state and a message of ANY aggregator implementation: their writers and readers
    # must agree on the order of the fields (shared with C07; includes the test-util dummy VDAF)
    from rules import c07
    c07.order_rules(ctx, "R-C12.S.order")
    # "any message of the wrong kind ... is refused": the message-kind byte is decoded by an injective, complete table and every
    # other value is refused (shared with C07)
    c07.tag_rules(ctx, "R-C12.S.tags", floor=6)

    # ---------------- purity / restart
    rule = "R-C12.P.pure"
    roots = []
    for nm in ("evaluate", "evaluate_transition"):
        roots += ctx.prog.find(name=nm, self_adt=PP + "::PingPongContinuation")
    for nm in ("verify_next", "verifier_shares_to_message"):
        roots += [f for f in ctx.prog.find(name=nm, trait="Aggregator") if f.impl is not None]
    if len(roots) < 8:
        ctx.bad(rule, rule + ":roots", "expected evaluate, evaluate_transition and 3x(verify_next, verifier_shares_to_message); found %d" % len(roots), kind="anchor")
    for r in roots:
        key = "%s:%s" % (rule, r.id)
        hits = effects.impure_reach(ctx.prog, [r])
        if hits:
            ctx.bad(rule, key, "%s can reach a source of non-determinism or shared mutable state: %s" % (r.id, hits[:3]), loc=r.loc)
        else:
            n = len(ctx.prog.reachable_fns([r]))
            ctx.ok(rule, key, "%s: no RNG / clock / interior-mutable state reachable (%d functions in its call closure)" % (r.id, n), loc=r.loc)
        # takes no &mut parameter
        muts = [i for i in r.inputs if ctx.prog.types[i]["k"] == "ref" and ctx.prog.types[i].get("mut")]
        if muts:
            ctx.bad(rule, key + ":mut-param", "%s takes a &mut parameter" % r.id, loc=r.loc)
    # positive control: Client::shard for Prio3 must reach an RNG source (the detector works)
    pc = ctx.prog.find(name="shard", trait="Client", self_adt="vdaf::prio3::Prio3")
    key = rule + ":positive-control"
    hits = [h for h in effects.impure_reach(ctx.prog, pc) if h[1].startswith("rand::rng")] if pc else []
    if hits:
        ctx.ok(rule, key, "positive control: Prio3::shard reaches %s" % hits[0][1], nontrivial=False)
    else:
        ctx.bad(rule, key, "positive control failed: Prio3::shard does not reach an RNG source according to the effect analysis", kind="control")
    ctx.floor(rule, 9)
