from pat import *
from harness import Skip
import ppa as P
from rules import flp_shape
from rules.c16 import api_scope, policy, run_api_ppa
from expr import fmt, walk
from guards import block_conditions
from rules.common import calls_named, req, strip, S, clone_faithful, adapters_in

INFO = {
    "explanation": "Necessary structural conditions of Prio3's end-to-end correctness, decided on the MIR for the WHOLE parameter lattice "
                   "(symbolic aggregators/proofs/chunk lengths/bit widths, not sampled points): (S) FLP shape identities — for every "
                   "shipped circuit and every ParallelSumGadget impl, proof_len / verifier_len / prove_rand_len / num_gadgets equal "
                   "the generic formulas prove/query assert at run time, gadget_calls is the ceiling of input_len / chunk_length and "
                   "equals joint_rand_len, the range-check gadget's arity equals the 2*chunk_length buffer, eval_output_len equals the "
                   "size of valid()'s result (polynomial normal forms with uninterpreted npo2/div_ceil; syntactic equality, so a true "
                   "identity may be unproved but a false one is never accepted); (T) narrow-integer totality of the Prio3 honest "
                   "path under num_aggregators in [1,254], num_proofs in [1,255]; (N) lengths re-derived by the state decoder are "
                   "scaled per proof like the constructing code. (R/D/J/V) term-level necessary conditions of the value-shaping code: the range-check offset is the field inverse of the share count, Average::decode_result is sum/n through u64 only, every site absorbs the same schedule into the joint-randomness part, and truncate / decode_result of every circuit have the stated shapes over the whole input. Additive sharing, circuit semantics and result decoding (values) "
                   "are NOT decided.",
    "trusted_base": ["rustc type checker and MIR construction (nightly)", "sa/poly.py normal forms", "axiom: deg(poly_range_check(0,2)) = 2",
                     "sa/ppa.py field table and std models"],
    "assumptions": ["A1"],
}


# ----------------------------------------------------------------------
# R-C01.B: the range-checked integer codec accepts every bit width the constructors can produce

def _evn(e, env):
    """evaluate an integer/boolean term under env: {'params': {local: int}, 'n': len(input), 'es': ENCODED_SIZE, 'p': modulus}"""
    e = strip(e) if isinstance(e, tuple) and e[0] in ("cast", "conv", "try") else e
    if not isinstance(e, tuple):
        return None
    t = e[0]
    if t == "lit":
        return e[1] if isinstance(e[1], int) else None
    if t == "symlit":
        return int(e[2])
    if t == "param":
        return env["params"].get(e[2])
    if t == "len":
        return env.get("n") if (e[1][0] == "param") else None
    if t == "sym":
        if e[1].endswith("ENCODED_SIZE"):
            return env["es"]
        return None
    if t == "call":
        nm = e[1].split("::")[-1]
        if nm == "modulus":
            return env["p"]
        if nm == "zero":
            return 0
        if nm == "one":
            return 1
        return None
    if t == "bin":
        a, b = _evn(e[2], env), _evn(e[3], env)
        if a is None or b is None:
            return None
        op = e[1]
        return {"Add": a + b, "Sub": a - b, "Mul": a * b, "Shr": (a >> b) if 0 <= b < 4096 else None, "Shl": (a << b) if 0 <= b < 4096 else None,
                "Lt": a < b, "Le": a <= b, "Gt": a > b, "Ge": a >= b, "Eq": a == b, "Ne": a != b}.get(op)
    return None


def _holds(c, env):
    if c[0] == "rel":
        a, b = _evn(c[2], env), _evn(c[3], env)
        if a is None or b is None:
            return None
        return {"Lt": a < b, "Le": a <= b, "Gt": a > b, "Ge": a >= b, "Eq": a == b, "Ne": a != b}[c[1]]
    if c[0] == "truth":
        v = _evn(c[1], env)
        return None if v is None else (bool(v) == c[2])
    return None


def run_bitlength(ctx):
    rule = "R-C01.B"
    prog = ctx.prog
    try:
        fv = ctx.fn(rule, name="valid_integer_bitlength", id_re=r"^field::FieldElementWithIntegerExt::valid_integer_bitlength$")
        fe = ctx.fn(rule, name="encode_range_checked_int", id_re=r"^flp::types::encode_range_checked_int$")
        fd = ctx.fn(rule, name="decode_range_checked_int", id_re=r"^flp::types::decode_range_checked_int$")
        fa = ctx.fn(rule, name="encode_as_bitvector", id_re=r"^field::FieldElementWithInteger::encode_as_bitvector$")
        fb = ctx.fn(rule, name="decode_bitvector", id_re=r"^field::FieldElementWithInteger::decode_bitvector$")
    except Skip:
        return
    gv = ctx.guards(fv)

    def valid(k, es, p):
        """the value of valid_integer_bitlength(k), read off its guard structure; None if not decidable"""
        env = {"params": {1: k}, "es": es, "p": p}
        hits = []
        for rd in gv.retdefs:
            conds = block_conditions(gv, rd.block)
            vals = [_holds(c, env) for c in conds]
            if any(v is None for v in vals):
                return None
            if all(vals):
                if rd.kind in ("true", "false"):
                    hits.append(rd.kind == "true")
                else:
                    v = _evn(rd.expr, env) if rd.expr is not None else None
                    if v is None:
                        return None
                    hits.append(bool(v))
        if len(hits) != 1:
            return None
        return hits[0]

    # argument of every validity check reachable from the codec pair, as a function of n = bits
    def direct_args(f, param_is_len):
        out = []
        for bi, c in calls_named(ctx, f, "valid_integer_bitlength"):
            out.append(c[2][0])
        return out
    sites = []   # (where, lambda n -> checked width)
    # encoder: encode_as_bitvector(v, A(bits)) ; inside: valid(bits')
    inner_enc = direct_args(fa, False)
    for bi, c in calls_named(ctx, fe, "encode_as_bitvector"):
        A = c[2][1]
        for ia in inner_enc:
            if not Local(2)(strip(ia)):
                ctx.bad(rule, rule + ":encode_as_bitvector:arg", "encode_as_bitvector validates %s, not its `bits` parameter" % fmt(ia)[:60], loc=fa.loc)
                continue
            sites.append(("encode_range_checked_int -> encode_as_bitvector(%s)" % fmt(A)[:40], (lambda n, A=A: _evn(A, {"params": {2: n}, "es": 0, "p": 0}))))
    for ia in direct_args(fe, False):
        sites.append(("encode_range_checked_int: valid(%s)" % fmt(ia)[:40], (lambda n, ia=ia: _evn(ia, {"params": {2: n}, "es": 0, "p": 0}))))
    # decoder: decode_bitvector(X) ; inside: valid(len(input'))
    inner_dec = direct_args(fb, True)

    def len_of(x):
        """length of slice term x of decode_range_checked_int as a function of n = len(input)"""
        if Local(1)(x):
            return lambda n: n
        if Field(Field(Call("split_last", Local(1)), name="0", variant="Some"), name="1")(x):
            return lambda n: n - 1
        return None
    for bi, c in calls_named(ctx, fd, "decode_bitvector"):
        X = c[2][0]
        lf = len_of(X)
        for ia in inner_dec:
            if not Len(Local(1))(strip(ia)):
                ctx.bad(rule, rule + ":decode_bitvector:arg", "decode_bitvector validates %s, not len(input)" % fmt(ia)[:60], loc=fb.loc)
                continue
            if lf is None:
                ctx.bad(rule, rule + ":decode:slice", "cannot relate %s to len(input)" % fmt(X)[:80], loc=fd.loc)
                continue
            sites.append(("decode_range_checked_int -> decode_bitvector(%s)" % fmt(X)[:50], lf))
    for ia in direct_args(fd, True):
        if Len(Local(1))(strip(ia)):
            sites.append(("decode_range_checked_int: valid(len(input))", lambda n: n))
        else:
            ctx.bad(rule, rule + ":decode:direct", "unrecognised validity argument %s" % fmt(ia)[:60], loc=fd.loc)
    if len(sites) < 2:
        ctx.bad(rule, rule + ":sites", "expected the encoder and the decoder to validate a bit width, found %d sites" % len(sites), kind="anchor")
    fields = []
    for fld, fp, w in (("Field64", "FP64", 64), ("Field128", "FP128", 128), ("FieldPrio2", "FP32", 32)):
        pc = prog.const_by_path.get("<fp::%s as fp::ops::FieldParameters<u%d>>::PRIME" % (fp, w))
        ec = prog.const_by_path.get("<field::%s as field::FieldElement>::ENCODED_SIZE" % fld)
        if pc and ec and "vs" in pc and "vs" in ec:
            fields.append((fld, int(pc["vs"]), int(ec["vs"])))
    if len(fields) < 3:
        ctx.bad(rule, rule + ":fields", "field constants not found", kind="anchor")
    for where, widthf in sites:
        for fld, p, es in fields:
            bad = []
            und = False
            for n in range(1, p.bit_length() + 1):        # bits = ilog2(max) + 1 for 0 < max < p
                k = widthf(n)
                v = valid(k, es, p) if k is not None and k >= 0 else None
                if v is None:
                    und = True
                    break
                if not v:
                    bad.append(n)
            key = "%s:%s:%s" % (rule, fld, where)
            if und:
                ctx.bad(rule, key, "cannot evaluate the bit-width validity predicate for %s" % where, loc=fv.loc)
            elif bad:
                ctx.bad(rule, key, "%s: for %s the honest codec is refused at bits = %s (max_measurement >= 2^%d is admitted by the constructors): "
                                   "honest reports at the top of the range are rejected" % (where, fld, bad[:4], bad[0] - 1), loc=fd.loc)
            else:
                ctx.ok(rule, key, "%s: valid for every bits in 1..=%d (%s)" % (where, p.bit_length(), fld), loc=fd.loc)
    ctx.floor(rule, 6)


def run_values(ctx):
    """value-shaping code of the honest path whose formulas are short enough to be compared term by term:
    R-C01.R  the range-check helper offsets every input by exactly 1/num_shares (the field inverse of the share count);
    R-C01.D  Average::decode_result is sum / num_measurements in f64 with the sum taken through u64 only;
    R-C01.J  client and aggregators absorb the same schedule into the joint-randomness part."""
    prog = ctx.prog
    rule = "R-C01.R"
    try:
        f = ctx.fn(rule, name="parallel_sum_range_checks", id_re=r"^flp::types::parallel_sum_range_checks$")
        g = ctx.guards(f)
        b = f.body
        INV = Call("inv", ThroughCasts(Try(Call("valid_integer_try_from", Arg(5)))))
        inv_direct = lambda e: INV(e) or (e[0] == "call" and str(e[1]).split("::")[-1] == "inv" and Mentions(Call("valid_integer_try_from", Arg(5)))(e)
                                          and not [x for x in walk(e) if isinstance(x, tuple) and x[0] == "bin"])
        stores = []
        for bi, si, st in b.iter_stmts():
            if st.kind == "assign" and st.place and any(isinstance(pe, tuple) and pe[0] in ("ix", "cix", "i") for pe in st.place[1]) and st.rv is not None:
                stores.append((bi, g.eb.rvalue(st.rv)))
        offs = [e for bi, e in stores if Mentions(Call("inv"))(e)]
        good = len(offs) >= 2 and all((Bin("Sub", Any(), inv_direct)(e) and not Mentions(Call("inv"))(e[2])) or
                                      (e[0] == "un" and e[1] == "Neg" and inv_direct(e[2])) or (e[0] == "call" and str(e[1]).endswith("neg") and inv_direct(e[2][0]))
                                      for e in offs)
        # and the inverse is of the share count itself, not of something derived from it by arithmetic
        key = "%s:%s:offset-is-inverse-of-num_shares" % (rule, f.id)
        if good:
            ctx.ok(rule, key, "every second gadget argument is input - 1/num_shares (padding: -1/num_shares), 1/num_shares = F::from(num_shares).inv()", loc=f.loc)
        else:
            ctx.bad(rule, key, "the range-check offset is not the field inverse of num_shares at every store: %s" % [fmt(e)[:100] for e in offs], loc=f.loc)
        invs = [c for bi, c in calls_named(ctx, f, "inv")]
        key = "%s:%s:one-inverse" % (rule, f.id)
        others = [t.callee.name for bi, t in b.calls() if t.callee.name in ("pow", "shr", "shl", "half", "div")]
        if len(invs) == 1 and not others:
            ctx.ok(rule, key, "1/num_shares is computed once, by FieldElement::inv", loc=f.loc)
        else:
            ctx.bad(rule, key, "1/num_shares is not computed by a single FieldElement::inv (inv calls %d, other arithmetic %s)" % (len(invs), others), loc=f.loc)
    except Skip:
        pass
    ctx.floor(rule, 2)

    rule = "R-C01.D"
    try:
        f = ctx.fn(rule, name="decode_result", trait="Type", self_adt="flp::types::Average")
        g = ctx.guards(f)
        key = "%s:%s" % (rule, f.id)
        oks = [rd for rd in g.retdefs if rd.kind == "ok" and rd.payload is not None]
        errs = [rd for rd in g.retdefs if rd.kind == "err"]
        good = False
        detail = ""
        if len(oks) == 1:
            e = oks[0].payload
            detail = fmt(e)[:200]
            narrow = [x for x in walk(e) if isinstance(x, tuple) and ((x[0] == "cast" and str(x[2]) in ("u8", "u16", "u32", "i8", "i16", "i32", "f32")) or
                                                                      (x[0] == "call" and ("for u32" in str(x[3]) or "for u16" in str(x[3]) or "for u8" in str(x[3]) or
                                                                                           "<u32 as" in str(x[3]) or "<f32 as" in str(x[3]))))]
            good = Bin("Div", Mentions(Call("decode_result", Field(Arg(1), "summer"), Arg(2), Any())), ThroughCasts(Arg(3)))(e) and not narrow and len(errs) == 2
        if good:
            ctx.ok(rule, key, "mean = (sum as f64) / (num_measurements as f64), the sum converted through u64 only; two refusals (the sum's, the u64 conversion's)", loc=f.loc)
        else:
            ctx.bad(rule, key, "Average::decode_result is not sum/num_measurements in f64 with only the u64 conversion able to refuse: %s (%d Err returns)" % (detail, len(errs)), loc=f.loc)
    except Skip:
        pass
    ctx.floor(rule, 1)

    # joint-randomness part: init(blind, [dst(JOINT_RAND_PART), ctx]); update([agg id]); update(nonce); for every element of the
    # measurement share { encode into an empty buffer; update(buffer); clear } ; into_seed - the same schedule at every site
    rule = "R-C01.J"
    n_sites = 0
    for fname, kw in (("shard_with_random", dict(name="shard_with_random", self_adt="vdaf::prio3::Prio3", trait="")),
                      ("verify_init", dict(name="verify_init", trait="Aggregator", self_adt="vdaf::prio3::Prio3"))):
        try:
            f0 = ctx.fn(rule, **kw)
        except Skip:
            continue
        # the function and the closures it builds (the leader's part is computed in a closure handed to Option::map)
        group = [f0] + [x for x in prog.fns if x.id.startswith(f0.id + "::{closure") and x.body is not None]
        for f in group:
          g = ctx.guards(f)
          b = f.body
          inits = [(bi, c) for bi, c in calls_named(ctx, f, "init") if Mentions(Sym("DST_JOINT_RAND_PART"))(c) or "DST_JOINT_RAND_PART" in fmt(c)]
          _run_jr_sites(ctx, rule, f, g, b, inits)
          n_sites += len(inits)
    ctx.floor(rule, 3)


def run_truncate_decode(ctx):
    """R-C01.V: per circuit, `truncate` (encoded measurement share -> output share) and `decode_result` (aggregate -> result) have the
    shapes the aggregate's exactness rests on: the whole input (or exactly the prefix / chunks named here), every element."""
    rule = "R-C01.V"
    T = "flp::types::"
    me, inp = Arg(1), Arg(2)
    drc = lambda x: Call("decode_range_checked_int", x, Field(me, "last_weight_field"))
    item = Field(Call("next"), name="0", variant="Some")

    def ok_payload(f):
        g = ctx.guards(f)
        oks = [rd for rd in g.retdefs if rd.kind in ("ok", "call") and rd.expr is not None]
        return g, oks

    def chunk_loop(f, g, take=None):
        """Ok(vec) where vec is pushed once per chunk of `input.chunks(self.bits)` [.take(take)] with decode_range_checked_int(chunk)"""
        pushes = [(bi, c) for bi, c in calls_named(ctx, f, "push") if g.loop_of(bi) is not None]
        if not pushes:
            # `decode(chunk).map(|v| out.push(v))?` - the push sits in the closure handed to Result::map
            maps = [(bi, c) for bi, c in calls_named(ctx, f, "map") if g.loop_of(bi) is not None and c[2] and drc(item)(c[2][0]) and len(c[2]) == 2 and c[2][1][0] == "closure"]
            if len(maps) == 1:
                cf = ctx.prog.by_did.get(maps[0][1][2][1][3])
                inner = [c for bi, c in calls_named(ctx, cf, "push")] if cf is not None and cf.body is not None else []
                if len(inner) == 1:
                    pushes = [(maps[0][0], ("call", "push", (inner[0][2][0], ("try", maps[0][1][2][0])), None, None))]
        if len(pushes) != 1 or not Try(drc(item))(pushes[0][1][2][1]):
            return False
        class _E:
            block = pushes[0][0]
        src = ctx.loop_source(f, _E)
        ch = Call("chunks", inp, Field(me, "bits"))
        want = Call("take", ch, Field(me, take)) if take else ch
        lp = g.loop_of(pushes[0][0])
        latches = [t for (t, hh) in f.body.back_edges() if hh == lp[0]]
        from rules.common import early_exits
        return src is not None and want(src) and adapters_in(src) == (["take"] if take else []) and \
            all(f.body.dominates(pushes[0][0], t) for t in latches) and not early_exits(g, f.body, lp)

    table = [
        ("Count", "truncate", lambda f, g, oks: len(oks) == 1 and Agg("Result::Ok", inp)(oks[0].expr), "Ok(input)"),
        ("Histogram", "truncate", lambda f, g, oks: len(oks) == 1 and Agg("Result::Ok", inp)(oks[0].expr), "Ok(input)"),
        ("Sum", "truncate", lambda f, g, oks: len(oks) == 1 and Agg("Result::Ok", Agg("vec", Try(drc(inp))))(oks[0].expr), "Ok(vec![decode_range_checked_int(input, last_weight)?])"),
        ("Average", "truncate", lambda f, g, oks: len(oks) == 1 and Call("truncate", Field(me, "summer"), inp)(oks[0].expr), "self.summer.truncate(input)"),
        ("MultihotCountVec", "truncate", lambda f, g, oks: len(oks) == 1 and Agg("Result::Ok", Call("to_vec", Call("index", inp, Agg("RangeTo", Field(me, "length")))))(oks[0].expr),
         "Ok(input[..self.length].to_vec())"),
        ("SumVec", "truncate", lambda f, g, oks: len(oks) == 1 and chunk_loop(f, g), "one decode_range_checked_int per chunk of input.chunks(self.bits)"),
        ("l1boundsum::L1BoundSum", "truncate", lambda f, g, oks: len(oks) == 1 and chunk_loop(f, g, "measurement_len"), "... per chunk of input.chunks(self.bits).take(self.measurement_len)"),
        ("Count", "decode_result", lambda f, g, oks: len(oks) == 1 and Call("decode_result", inp)(oks[0].expr), "decode_result(data)"),
        ("Sum", "decode_result", lambda f, g, oks: len(oks) == 1 and Call("decode_result", inp)(oks[0].expr), "decode_result(data)"),
        ("Histogram", "decode_result", lambda f, g, oks: len(oks) == 1 and Call("decode_result_vec", inp, Field(me, "length"))(oks[0].expr), "decode_result_vec(data, self.length)"),
        ("MultihotCountVec", "decode_result", lambda f, g, oks: len(oks) == 1 and Call("decode_result_vec", inp, Field(me, "length"))(oks[0].expr), "decode_result_vec(data, self.length)"),
        ("SumVec", "decode_result", lambda f, g, oks: len(oks) == 1 and Call("decode_result_vec", inp, Field(me, "len"))(oks[0].expr), "decode_result_vec(data, self.len)"),
        ("l1boundsum::L1BoundSum", "decode_result", lambda f, g, oks: len(oks) == 1 and Call("decode_result_vec", inp, Field(me, "measurement_len"))(oks[0].expr),
         "decode_result_vec(data, self.measurement_len)"),
    ]
    for ty, meth, pred, want in table:
        try:
            f = ctx.fn(rule, name=meth, trait="Type", self_adt=T + ty)
        except Skip:
            continue
        g, oks = ok_payload(f)
        key = "%s:%s::%s" % (rule, ty, meth)
        try:
            good = bool(pred(f, g, oks))
        except Exception:
            good = False
        if good:
            ctx.ok(rule, key, "%s::%s = %s" % (ty, meth, want), loc=f.loc)
        else:
            ctx.bad(rule, key, "%s::%s is not `%s`: %s" % (ty, meth, want, [fmt(rd.expr)[:120] for rd in oks]), loc=f.loc)
    # the two free helpers
    try:
        f = ctx.fn(rule, name="decode_result", id_re=r"^flp::types::decode_result$")
        g = ctx.guards(f)
        ctx.require_guard(rule, f, "Ne", Len(Arg(1)), Lit(1), desc="decode_result: len(data) != 1 -> Err")
        oks = [rd for rd in g.retdefs if rd.kind == "ok"]
        key = "%s:decode_result:value" % rule
        if len(oks) == 1 and Agg("Result::Ok", ThroughCasts(Index(Arg(1), Lit(0))))(oks[0].expr):
            ctx.ok(rule, key, "Ok(F::Integer::from(data[0]))", loc=f.loc)
        else:
            ctx.bad(rule, key, "decode_result does not return data[0] converted: %s" % [fmt(rd.expr)[:100] for rd in oks], loc=f.loc)
        f = ctx.fn(rule, name="decode_result_vec", id_re=r"^flp::types::decode_result_vec$")
        g = ctx.guards(f)
        ctx.require_guard(rule, f, "Ne", Len(Arg(1)), Arg(2), desc="decode_result_vec: len(data) != expected_len -> Err")
        key = "%s:decode_result_vec:every-element" % rule
        pushes = [(bi, c) for bi, c in calls_named(ctx, f, "push") if g.loop_of(bi) is not None]
        good = False
        if len(pushes) == 1 and ThroughCasts(Field(Call("next"), name="0", variant="Some"))(pushes[0][1][2][1]):
            class _E:
                block = pushes[0][0]
            src = ctx.loop_source(f, _E)
            good = src is not None and Mentions(Arg(1))(src) and not adapters_in(src)
        if good:
            ctx.ok(rule, key, "every element of data is converted and collected, in order", loc=f.loc)
        else:
            ctx.bad(rule, key, "decode_result_vec does not convert every element of data", loc=f.loc)
    except Skip:
        pass
    ctx.floor(rule, 15)


def _run_jr_sites(ctx, rule, f, g, b, inits):
        n_sites = 0
        for k, (ibi, ic) in enumerate(inits):
            n_sites += 1
            key = "%s:%s:site%d" % (rule, f.id, k)
            # updates reachable from this init before the matching into_seed, in dominance order
            ups = [(bi, c) for bi, c in calls_named(ctx, f, "update") if b.dominates(ibi, bi)]
            seeds = [bi for bi, c in calls_named(ctx, f, "into_seed") if b.dominates(ibi, bi)]
            if not seeds:
                ctx.bad(rule, key, "no into_seed after the joint-randomness-part init", loc=f.loc)
                continue
            first_seed = min(seeds, key=lambda x: len([y for y in seeds if b.dominates(y, x)]))
            # only updates on the path init .. first into_seed of THIS xof: same receiver as the init's result
            mine = [(bi, c) for bi, c in ups if first_seed in b.reach_from(bi) and not any(b.dominates(s2, bi) for s2 in seeds if s2 != first_seed and b.dominates(ibi, s2) and b.dominates(s2, first_seed))]
            recv = None
            for bi, c in mine:
                r0 = c[2][0]
                if recv is None and r0[0] == "phi":
                    di = g.eb.init_expr(r0[1])
                    if di is not None and di == ic:
                        recv = r0
            mine = [(bi, c) for bi, c in mine if recv is None or c[2][0] == recv]
            pre = [(bi, c) for bi, c in mine if g.loop_of(bi) is None or g.loop_of(bi) == g.loop_of(ibi)]
            inl = [(bi, c) for bi, c in mine if (bi, c) not in pre]
            problems = []
            if len(pre) != 2:
                problems.append("%d updates before the element loop (expected aggregator id, nonce)" % len(pre))
            else:
                order = sorted(pre, key=lambda x: 0 if b.dominates(x[0], pre[0][0]) and x[0] != pre[0][0] else 1)
                a0, a1 = (pre[0], pre[1]) if b.dominates(pre[0][0], pre[1][0]) else (pre[1], pre[0])
                x0, x1 = a0[1][2][1], a1[1][2][1]
                if not ((x0[0] == "agg" and x0[1] == "array" and len(x0[2]) == 1) or x0[0] in ("sym", "lit", "symlit")):     # `&[agg_id]` or the promoted `&[0]`
                    problems.append("the first update is not the one-byte aggregator id")
                if not (x1[0] in ("param", "upvar")):
                    problems.append("the second update is not the nonce parameter")
            if len(inl) != 1:
                problems.append("%d updates inside loops (expected one per element)" % len(inl))
            else:
                ubi, uc = inl[0]
                buf = uc[2][1]
                lp = g.loop_of(ubi)
                class _E:
                    block = ubi
                src = ctx.loop_source(f, _E)
                if src is None or [a for a in adapters_in(src) if a not in ("zip",)]:
                    problems.append("the element loop iterates an adapted source (%s)" % (fmt(src)[:80] if src else None))
                encs = [bi for bi, c in calls_named(ctx, f, "encode") if bi in lp[1] and c[2][-1] == buf]
                clears = [bi for bi, c in calls_named(ctx, f, "clear") if bi in lp[1] and c[2][0] == buf]
                latches = [t for (t, hh) in b.back_edges() if hh == lp[0]]
                if len(encs) != 1 or not b.dominates(encs[0], ubi):
                    problems.append("the element is not encoded into the buffer before the update")
                if len(clears) != 1 or not b.dominates(ubi, clears[0]) or not all(b.dominates(clears[0], t) for t in latches):
                    problems.append("the buffer is not cleared after every update (earlier elements would be absorbed again)")
                inner = [l for l in b.loops().items() if l[0] != lp[0] and l[0] in lp[1] and ubi in l[1]]
                if inner:
                    problems.append("the update sits in a nested loop")
            if problems:
                ctx.bad(rule, key, "joint-randomness part schedule differs from init; update([id]); update(nonce); per element {encode; update; clear}: %s" % "; ".join(problems), loc=f.loc)
            else:
                ctx.ok(rule, key, "init(blind, [dst, ctx]); update([agg id]); update(nonce); per element: encode, update(buffer), clear", loc=f.loc)


def run(ctx):
    run_values(ctx)
    run_truncate_decode(ctx)
    run_bitlength(ctx)
    # a cloned instance is the same instance (VDAF objects are cloned by callers and by the parallel gadget)
    clone_faithful(ctx, "R-C01.CL")
    flp_shape.run_shape(ctx, "R-C01.S")
    ctx.floor("R-C01.S", 40)
    prog = ctx.prog
    roots, scope = api_scope(prog)
    ppa = P.PPA(prog, scope, roots, adversarial_roots=True)
    P.propagate_taint(ppa, roots, policy)
    run_api_ppa(ctx, "R-C01.T", ppa, scope, 20, only=lambda f: f.file == "src/vdaf/prio3.rs")
    # decoder/constructor agreement on per-proof scaling
    import rules.c07 as c07
    class _Sub:
        pass
    # reuse the R-C07.N logic under this property's rule id
    from rules.common import all_terms
    from expr import walk
    rule = "R-C01.N"
    for f in [g for g in prog.fns if g.name == "decode_with_param" and g.file.endswith("vdaf/prio3.rs") and not prog.is_test_util(g)]:
        terms = all_terms(ctx, f)
        for acc in ("proof_len", "verifier_len"):
            uses = [x for t in terms for x in walk(t) if isinstance(x, tuple) and x[0] == "call" and x[1].split("::")[-1] == acc]
            if not uses:
                continue
            key = "%s:%s:%s" % (rule, f.id, acc)
            scaled = any(Mentions(Bin("Mul", Mentions(Call(acc)), Mentions(Call("num_proofs")), commutative=True))(t) for t in terms)
            unscaled = any(isinstance(o, tuple) and o[0] == "call" and o[1].split("::")[-1] == acc
                           for t in terms for x in walk(t) if isinstance(x, tuple) and x[0] in ("agg", "call") for o in x[2])
            if scaled and not unscaled:
                ctx.ok(rule, key, "%s() is used only as %s() * num_proofs()" % (acc, acc), loc=f.loc)
            else:
                ctx.bad(rule, key, "%s: a length derived from %s() is not scaled by num_proofs()" % (f.id, acc), loc=f.loc)
    ctx.floor(rule, 2)
