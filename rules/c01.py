from pat import *
from harness import Skip
import ppa as P
from rules import flp_shape
from rules.c16 import api_scope, policy, run_api_ppa

INFO = {
    "explanation": "Necessary structural conditions of Prio3's end-to-end correctness, decided on the MIR for the WHOLE parameter lattice "
                   "(symbolic aggregators/proofs/chunk lengths/bit widths, not sampled points): (S) FLP shape identities — for every "
                   "shipped circuit and every ParallelSumGadget impl, proof_len / verifier_len / prove_rand_len / num_gadgets equal "
                   "the generic formulas prove/query assert at run time, gadget_calls is the ceiling of input_len / chunk_length and "
                   "equals joint_rand_len, the range-check gadget's arity equals the 2*chunk_length buffer, eval_output_len equals the "
                   "size of valid()'s result (polynomial normal forms with uninterpreted npo2/div_ceil; syntactic equality, so a true "
                   "identity may be unproved but a false one is never accepted); (T) narrow-integer totality of the Prio3 honest "
                   "path under num_aggregators in [1,254], num_proofs in [1,255]; (N) lengths re-derived by the state decoder are "
                   "scaled per proof like the constructing code. Additive sharing, circuit semantics and result decoding (values) "
                   "are NOT decided.",
    "trusted_base": ["rustc type checker and MIR construction (nightly)", "sa/poly.py normal forms", "axiom: deg(poly_range_check(0,2)) = 2",
                     "sa/ppa.py field table and std models"],
    "assumptions": ["A1"],
}


def run(ctx):
    flp_shape.run_shape(ctx, "R-C01.S")
    ctx.floor("R-C01.S", 40)
    prog = ctx.prog
    roots, scope = api_scope(prog)
    ppa = P.PPA(prog, scope, roots, adversarial_roots=True)
    P.propagate_taint(ppa, roots, policy)
    run_api_ppa(ctx, "R-C01.T", ppa, scope, 20, only=lambda f: f.file == "src/vdaf/prio3.rs")
    # decoder/constructor agreement on per-proof scaling
    import rules.c07 as c07
    class _Sub:
        pass
    # reuse the R-C07.N logic under this property's rule id
    from rules.common import all_terms
    from expr import walk
    rule = "R-C01.N"
    for f in [g for g in prog.fns if g.name == "decode_with_param" and g.file.endswith("vdaf/prio3.rs") and not prog.is_test_util(g)]:
        terms = all_terms(ctx, f)
        for acc in ("proof_len", "verifier_len"):
            uses = [x for t in terms for x in walk(t) if isinstance(x, tuple) and x[0] == "call" and x[1].split("::")[-1] == acc]
            if not uses:
                continue
            key = "%s:%s:%s" % (rule, f.id, acc)
            scaled = any(Mentions(Bin("Mul", Mentions(Call(acc)), Mentions(Call("num_proofs")), commutative=True))(t) for t in terms)
            unscaled = any(isinstance(o, tuple) and o[0] == "call" and o[1].split("::")[-1] == acc
                           for t in terms for x in walk(t) if isinstance(x, tuple) and x[0] in ("agg", "call") for o in x[2])
            if scaled and not unscaled:
                ctx.ok(rule, key, "%s() is used only as %s() * num_proofs()" % (acc, acc), loc=f.loc)
            else:
                ctx.bad(rule, key, "%s: a length derived from %s() is not scaled by num_proofs()" % (f.id, acc), loc=f.loc)
    ctx.floor(rule, 2)
