from pat import *
from expr import fmt, walk
from harness import Skip
from rules.ts import check_table
from rules.common import eqcov_impl

INFO = {
    "explanation": "TS/GUARD rules over the MIR of Poplar1's verification path: the decision table of verify_next "
                   "(state variant x sketch round x message variant) extracted from the enum-discriminant switches equals "
                   "the specified 4 accepting rows with everything else refused; Finish is reachable only from "
                   "(RoundTwo, Done) and carries the state's output share; next_message refuses a non-zero sketch "
                   "verifier and unexpected lengths; verifier_shares_to_message refuses fewer/more than two shares and "
                   "mixed field kinds and merges them with a merge_vector that refuses unequal lengths before writing (shared with C13); "
                   "the message decoder follows the state's round. The sketch algebra (that only "
                   "one-hot 0/1 vectors pass) is NOT decided.",
    "trusted_base": ["rustc type checker and MIR construction (nightly)", "expression reconstruction (sa/expr.py)",
                     "expected decision table transcribed from draft-irtf-cfrg-vdaf-18 section 8.2"],
    "exhaustive": True,
    "assumptions": ["field arithmetic is correct (C09 not decided)"],
}

POPLAR1 = "vdaf::poplar1::Poplar1"


def V(subject, name):
    return ("variant", subject, name)


def sketch_rules(ctx):
    """R-C04.S: the sketch is computed over every candidate prefix with the specified formulas
    (draft-18 section 8.2.2/8.2.3): sketch = corr + sum_i (d_i*r_i, d_i*r_i^2, a_i*r_i); finish:
    A*s0 + B (+ s0^2 - s1 - s2 for the helper)."""
    from poly import to_poly, Poly
    from rules.common import adapters_in
    from guards import block_conditions, fmt_cond
    rule = "R-C04.S.sketch"
    try:
        f = ctx.fn(rule, name="eval_and_sketch", self_adt=POPLAR1)
        g = ctx.guards(f)
        prefixes = Field(Arg(6), "prefixes")
        adds = [(bi, g.eb.call_expr(t)) for bi, t in f.body.calls() if t.callee.name == "add_assign"]
        sk = {}
        for bi, ce in adds:
            tgt, val = ce[2][0], ce[2][1]
            if tgt[0] == "index" and tgt[1][0] == "phi" and tgt[1][2] == "sketch_share" or (tgt[0] == "index" and Lit()(tgt[2])):
                k = tgt[2][1] if tgt[2][0] == "lit" else None
                sk[k] = (bi, val, tgt)
        key = "%s:%s:three-updates" % (rule, f.id)
        if sorted(k for k in sk if k is not None) != [0, 1, 2] or len(adds) != 3:
            ctx.bad(rule, key, "expected exactly the three updates sketch[0..2] += ..; found %s" % [fmt(a[1])[:80] for a in adds], loc=f.loc)
            raise Skip()
        # atoms
        is_share = lambda e: Mentions(Call("eval"))(e)

        def atomize(e):
            if e[0] == "index" and is_share(e) and Lit()(e[2]):
                return ("share%d" % e[2][1],)
            if Call("get")(e) and not Mentions(Arg(9))(e):
                return ("r",)
            return None
        d0, d1, r = Poly.atom(("share0",)), Poly.atom(("share1",)), Poly.atom(("r",))
        want = {0: d0 * r, 1: d0 * r * r, 2: d1 * r}
        okk = True
        det = []
        for k in (0, 1, 2):
            got = to_poly(sk[k][1], atomize)
            det.append("sketch[%d] += %r" % (k, got))
            if got != want[k]:
                okk = False
        if okk:
            ctx.ok(rule, key, "; ".join(det), loc=f.loc, sample={"rule": rule, "formulas": det})
        else:
            ctx.bad(rule, key, "sketch update formulas differ from (d*r, d*r^2, a*r): %s" % "; ".join(det), loc=f.loc)
        # same loop, over all candidate prefixes, one r and one IDPF evaluation per prefix
        key = "%s:%s:every-candidate-contributes" % (rule, f.id)
        loops = set()
        for k in (0, 1, 2):
            lp = g.loop_of(sk[k][0])
            loops.add(lp[0] if lp else None)
        good = len(loops) == 1 and None not in loops
        src = None
        if good:
            class _E:
                block = sk[0][0]
            src = ctx.loop_source(f, _E)
            good = src is not None and Mentions(prefixes)(src) and not adapters_in(src) and \
                not any(isinstance(x, tuple) and x[0] == "call" and x[1].endswith("Iterator::zip") for x in walk(src))
            lp = g.loop_of(sk[0][0])
            gets = [bi for bi, t in f.body.calls() if t.callee.name == "get" and bi in lp[1]]
            evals = [bi for bi, t in f.body.calls() if t.callee.name == "eval" and bi in lp[1]]
            pushes = [bi for bi, t in f.body.calls() if t.callee.name == "push" and bi in lp[1]]
            latches = [t for (t, hh) in f.body.back_edges() if hh == lp[0]]
            every = lambda bs: len(bs) == 1 and all(f.body.dominates(bs[0], t) for t in latches)
            good = good and every(gets) and every(evals) and every(pushes) and all(every([sk[k][0]]) for k in (0, 1, 2))
        if good:
            ctx.ok(rule, key, "one IDPF evaluation, one verification-randomness draw, three sketch updates and one output element per candidate, over %s" % fmt(src)[:80], loc=f.loc)
        else:
            ctx.bad(rule, key, "the sketch loop does not cover every candidate prefix exactly once (source=%s)" % (fmt(src)[:160] if src else None), loc=f.loc)
        # initial sketch share = three draws from the correlated randomness stream
        key = "%s:%s:initial-share" % (rule, f.id)
        base = sk[0][2][1]
        init = g.eb.init_expr(base[1]) if base[0] == "phi" else None
        if init is not None and init[0] == "agg" and init[1] == "vec" and len(init[2]) == 3 and all(Call("get", Arg(9))(x) for x in init[2]):
            ctx.ok(rule, key, "sketch starts as [corr.get(), corr.get(), corr.get()]", loc=f.loc)
        else:
            ctx.bad(rule, key, "sketch share does not start from three draws of the correlated-randomness stream: %s" % (fmt(init)[:120] if init else None), loc=f.loc)
        # the pushed output element is share[0] of the same evaluation
        key = "%s:%s:output-is-data-share" % (rule, f.id)
        ps = [g.eb.call_expr(t) for bi, t in f.body.calls() if t.callee.name == "push"]
        if len(ps) == 1 and to_poly(ps[0][2][1], atomize) == d0:
            ctx.ok(rule, key, "out_share.push(share[0])", loc=f.loc)
        else:
            ctx.bad(rule, key, "the output share element is not the data share of the evaluated prefix", loc=f.loc)
    except Skip:
        pass
    try:
        f = ctx.fn(rule, name="finish_sketch", id_re=r"^vdaf::poplar1::finish_sketch$")
        g = ctx.guards(f)
        sketch, A, B, lead = Arg(1), Arg(2), Arg(3), Arg(4)

        def atomize(e):
            if Index(sketch, Lit())(e):
                return ("s%d" % e[2][1],)
            if A(e):
                return ("A",)
            if B(e):
                return ("B",)
            return None
        s0, s1, s2, a, b = (Poly.atom((n,)) for n in ("s0", "s1", "s2", "A", "B"))
        key = "%s:%s" % (rule, f.id)
        good = False
        det = ""
        # decided per path of this small loop-free function: the returned one-element vector holds  A*s0 + B  plus the sum of
        # the `+=` operands met on the path; paths on which is_leader is false must add exactly s0^2 - s1 - s2, the others nothing.
        # (`if !is_leader { x += .. }`, `if is_leader { return vec![x] } x += ..` and `let d = if ..` spell the same paths.)
        from rules.common import enumerate_paths
        paths = enumerate_paths(f.body)
        rets = {}
        for rd in g.retdefs:
            if rd.expr is not None and rd.expr[0] == "agg" and rd.expr[1] == "vec" and len(rd.expr[2]) == 1:
                rets[rd.block] = rd.expr[2][0]
        adds = dict((bi, g.eb.call_expr(t)) for bi, t in f.body.calls() if t.callee.name == "add_assign")
        edge_at = {}
        for e in g.edges:
            edge_at[(e.block, e.target)] = e
        if paths and rets and len(rets) == len([rd for rd in g.retdefs]):
            good = True
            seen_roles = set()
            for path in paths:
                on = [bi for bi in path if bi in rets]
                v = rets[on[-1]] if on else None
                if v is None:
                    good = False
                    break
                if v[0] == "phi":
                    base = g.eb.init_expr(v[1])
                    extra = [adds[bi][2][1] for bi in path if bi in adds and adds[bi][2][0] == v]
                    if any(bi in adds and adds[bi][2][0] != v for bi in path):
                        good = False
                else:
                    base, extra = v, []
                role = None
                for x, y in zip(path, path[1:]):
                    e = edge_at.get((x, y))
                    if e is not None and e.cond[0] == "truth" and lead(e.cond[1]):
                        role = bool(e.cond[2])
                try:
                    total = to_poly(base, atomize)
                    for x in extra:
                        total = total + to_poly(x, atomize)
                except Exception:
                    total = None
                det += "[is_leader=%s: %r] " % (role, total)
                seen_roles.add(role)
                if role is True:
                    good = good and total == a * s0 + b
                elif role is False:
                    good = good and total == a * s0 + b + s0 * s0 - s1 - s2
                else:
                    good = False
            good = good and seen_roles == {True, False}
        if good:
            ctx.ok(rule, key, "finish_sketch: " + det, loc=f.loc, sample={"rule": rule, "formula": det})
        else:
            ctx.bad(rule, key, "finish_sketch is not [A*s0 + B (+ s0^2 - s1 - s2 iff !is_leader)]: %s" % det, loc=f.loc)
    except Skip:
        pass
    ctx.floor(rule, 5)


def run(ctx):
    sketch_rules(ctx)
    # the sketch's verification randomness must differ per candidate: for the fixed-key AES instantiation that is the
    # keystream rule of C11 (block counter over all eight little-endian bytes, block range, offsets), shared here
    from rules import c11
    c11.run_fill(ctx)
    # ... and the element sampler that turns the stream into the per-candidate randomness: every buffered byte is a fresh stream
    # byte (chunk / advance / refill discipline, shared with C11)
    c11.run_prng(ctx)
    # the combiner adds the two verifier shares with merge_vector: shares of different lengths (different rounds) must be
    # refused, not truncated (shared with C13)
    from rules import c13
    c13.merge_vector_rules(ctx, "R-C04.G.merge_vector")
    rule = "R-C04.T.verify_next"
    try:
        f = ctx.fn(rule, name="verify_next", trait="Aggregator", self_adt=POPLAR1)
        state = Field(Arg(3), "0")
        msg = Field(Arg(4), "0")

        def sketch_of(kind):
            return Field(Mentions(state), "sketch")

        def out_share(kind):
            # the state's own output share of that variant
            return lambda e: e[0] == "field" and e[2] == "output_share" and Mentions(state)(e) and \
                any(isinstance(x, tuple) and x[0] in ("vfield", "vcast") and x[2] == kind for x in __import__("expr").walk(e))

        def cont_row(kind, msgv):
            payload = Agg("Result::Ok", Agg("VerifyTransition::Continue",
                                            Agg("Poplar1VerifierState", Agg("VerifierStateVariant::" + kind,
                                                Agg("VerifierState", Agg("SketchState::RoundTwo"), out_share(kind)))),
                                            Agg("Poplar1FieldVec::" + kind, Call("finish_sketch"))))
            return ("Continue(%s,RoundTwo)" % kind, payload,
                    [V(state, kind), V(msg, msgv), V(sketch_of(kind), "RoundOne")])

        def fin_row(kind):
            payload = Agg("Result::Ok", Agg("VerifyTransition::Finish", Agg("Poplar1FieldVec::" + kind, out_share(kind))))
            return ("Finish(%s)" % kind, payload, [V(state, kind), V(msg, "Done"), V(sketch_of(kind), "RoundTwo")])

        rows = [cont_row("Inner", "SketchInner"), cont_row("Leaf", "SketchLeaf"), fin_row("Inner"), fin_row("Leaf")]
        check_table(ctx, rule, f, rows)
        # finish_sketch receives the message sketch and the state's A/B shares and role
        g = ctx.guards(f)
        for rd in g.retdefs:
            if rd.kind != "ok":
                continue
            for x in __import__("expr").walk(rd.expr):
                if Call("finish_sketch")(x):
                    key = "%s:%s:finish_sketch-args:%s" % (rule, f.id, "Inner" if "Inner" in fmt(x) else "Leaf")
                    a = x[2]
                    good = len(a) == 4 and Mentions(msg)(a[0]) and Field(Any(), "A_share")(a[1]) and \
                        Field(Any(), "B_share")(a[2]) and Field(Any(), "is_leader")(a[3])
                    if good:
                        ctx.ok(rule, key, "finish_sketch(message sketch, state.A_share, state.B_share, state.is_leader)", loc=f.loc)
                    else:
                        ctx.bad(rule, key, "finish_sketch is called with unexpected operands: %s" % fmt(x)[:240], loc=f.loc)
    except Skip:
        pass
    ctx.floor(rule, 6)

    rule = "R-C04.G.next_message"
    try:
        f = ctx.fn(rule, name="next_message", id_re=r"^vdaf::poplar1::next_message$")
        s0 = Arg(1)
        ctx.require_try_call(rule, f, Call("merge_vector", Arg(1), Arg(2)), desc="merge_vector(share_0, share_1)")
        rows = [
            ("None (sketch verified)", Agg("Result::Ok", Agg("Option::None")),
             [("rel", "Eq", Len(s0), Lit(1)), ("rel", "Eq", Index(s0, Lit(0)), Call("zero"))]),
            ("Some(sketch)", Agg("Result::Ok", Agg("Option::Some", Agg("array", Index(s0, Lit(0)), Index(s0, Lit(1)), Index(s0, Lit(2))))),
             [("rel", "Eq", Len(s0), Lit(3))]),
        ]
        check_table(ctx, rule, f, rows)
        ctx.require_guard(rule, f, "Ne", Index(s0, Lit(0)), Call("zero"), dominates=False,
                          desc="merged[0] != zero() -> Err (when len == 1)")
    except Skip:
        pass
    ctx.floor(rule, 4)

    rule = "R-C04.G.combine"
    try:
        f = ctx.fn(rule, name="verifier_shares_to_message", trait="Aggregator", self_adt=POPLAR1)
        g = ctx.guards(f)
        nxt = Call("next", Any())
        # two shares required: two refusals `inputs.next() is None -> Err` (spelled `.ok_or_else(..)?`, `let Some(..) = .. else`,
        # or a match) dominate every accepting return
        n_req = 0
        for e in g.edges:
            c = e.cond
            if c[0] != "variant" or not c[3]:
                continue
            hit = (c[2] == "Break" and Mentions(Call("ok_or_else", nxt))(c[1])) or (c[2] == "Break" and Mentions(Call("ok_or", nxt))(c[1])) or \
                  (c[2] == "None" and nxt(c[1]))
            if hit and e.leads and set(rd.kind for rd in e.leads) <= {"err"} and g.dominates_accepts(e):
                n_req += 1
        key = "%s:%s:two-shares-required" % (rule, f.id)
        if n_req >= 2:
            ctx.ok(rule, key, "two `inputs.next()` absences are refused and dominate every accepting return", loc=f.loc)
        else:
            ctx.bad(rule, key, "fewer than two required-share checks dominate the accepting returns (%d)" % n_req, loc=f.loc)
        # a third share is refused
        ctx.require_variant_guard(rule, f, nxt, "Some", True, desc="third share -> Err")
        # variants must agree, and the message kind follows the share kind.  Rows = accepting returns, with a value that was
        # merged before being wrapped taken apart again (guards.expanded_accepts), so both spellings give the same rows.
        rows = __import__("guards").expanded_accepts(g)
        kinds_seen = {}
        okk = bool(rows)
        det = []
        for e, conds, rd in rows:
            vs = [c[2] for c in conds if c[0] == "variant" and c[3] and c[2] in ("Inner", "Leaf")]
            det.append(vs)
            if not (len(vs) == 2 and vs[0] == vs[1]):
                okk = False
                continue
            kinds_seen.setdefault(vs[0], []).append((e, conds, rd))
        key = "%s:%s:field-kinds-agree" % (rule, f.id)
        if okk and set(kinds_seen) == {"Inner", "Leaf"}:
            ctx.ok(rule, key, "accepting returns require both shares of the same kind: %s" % sorted(set(map(tuple, det))), loc=f.loc)
        else:
            ctx.bad(rule, key, "an accepting return does not require both verifier shares to have the same field kind: %s" % det, loc=f.loc)
        # error of next_message propagated
        nprop = sum(1 for ed in g.edges if ed.cond[0] == "variant" and ed.cond[2] == "Break" and ed.cond[3] and
                    ed.cond[1][0] == "call" and ed.cond[1][2] and Call("next_message")(ed.cond[1][2][0]) and
                    set(rd.kind for rd in ed.leads) <= {"err"} and ed.leads)
        key = "%s:%s:next_message-error-propagated" % (rule, f.id)
        if nprop == 2:
            ctx.ok(rule, key, "next_message(..)? is propagated in both the Inner and the Leaf arm", loc=f.loc)
        else:
            ctx.bad(rule, key, "the error of next_message is propagated in %d arm(s), expected both" % nprop, loc=f.loc)
        # Inner shares give Done / SketchInner, Leaf shares give Done / SketchLeaf (the constructor may sit in a map_or closure)
        W = __import__("expr").walk
        for kind in ("Inner", "Leaf"):
            key = "%s:%s:message-kind:%s" % (rule, f.id, kind)
            variants = set()
            from_nm = True
            for e, conds, rd in kinds_seen.get(kind, []):
                for x in W(e):
                    if isinstance(x, tuple) and x[0] == "agg" and "VerifierMessageVariant::" in str(x[1]):
                        variants.add(str(x[1]).split("::")[-1])
                    if isinstance(x, tuple) and x[0] == "closure":
                        cf = ctx.prog.by_did.get(x[3])
                        if cf is not None:
                            for crd in ctx.guards(cf).retdefs:
                                for y in W(crd.expr) if crd.expr is not None else []:
                                    if isinstance(y, tuple) and y[0] == "agg" and "VerifierMessageVariant::" in str(y[1]):
                                        variants.add(str(y[1]).split("::")[-1])
                if not (Mentions(Call("next_message"))(e) or any(Mentions(Call("next_message"))(c[1]) for c in conds if c[0] == "variant")):
                    from_nm = False
            if variants == {"Done", "Sketch" + kind} and from_nm:
                ctx.ok(rule, key, "%s shares produce Done or Sketch%s, decided by next_message" % (kind, kind), loc=f.loc)
            else:
                ctx.bad(rule, key, "%s arm does not map to exactly Done / Sketch%s from next_message: %s" % (kind, kind, sorted(variants)), loc=f.loc)
    except Skip:
        pass
    ctx.floor(rule, 6)

    # decoders follow the state's round
    rule = "R-C04.T.decode"
    try:
        f = ctx.fn(rule, name="decode_sketch", self_adt="vdaf::poplar1::SketchState")
        rows = [("RoundOne->Some([3])", Agg("Result::Ok", Agg("Option::Some", Agg("array", Any(), Any(), Any()))), [V(Arg(1), "RoundOne")]),
                ("RoundTwo->None", Agg("Result::Ok", Agg("Option::None")), [V(Arg(1), "RoundTwo")])]
        check_table(ctx, rule, f, rows)
    except Skip:
        pass
    try:
        f = ctx.fn(rule, name="decode_sketch_share", self_adt="vdaf::poplar1::SketchState")
        g = ctx.guards(f)
        table = __import__("guards").decision_table(g)
        for rd, conds in table:
            vs = [c[2] for c in conds if c[0] == "variant" and c[3]]
            ndec = sum(1 for x in __import__("expr").walk(rd.expr) if Call("decode")(x) and x[0] == "call") if rd.expr else 0
            # count decode calls through the vec! macro: the elements flow through a boxed array; count
            # the F::decode calls dominated by the variant edge instead
            key = "%s:%s:%s" % (rule, f.id, vs[0] if vs else "?")
            ctx.ok(rule, key, "accepting return under %s" % vs, loc=f.loc, nontrivial=False) if vs else \
                ctx.bad(rule, key, "accepting return of decode_sketch_share not guarded by the round", loc=f.loc)
    except Skip:
        pass
    ctx.floor(rule, 4)

    # equality of states covers all fields (used when continuations are compared / stored)
    rule = "R-C04.E"
    for adt in ("vdaf::poplar1::VerifierState", "vdaf::poplar1::SketchState", "vdaf::poplar1::VerifierStateVariant",
                "vdaf::poplar1::Poplar1FieldVec"):
        eqcov_impl(ctx, rule, adt, "ct_eq", "ConstantTimeEq")
    ctx.floor(rule, 4)
