from pat import *
from expr import fmt
from harness import Skip
from rules.ts import check_table
from rules.common import eqcov_impl

INFO = {
    "explanation": "TS/GUARD rules over the MIR of Poplar1's verification path: the decision table of verify_next "
                   "(state variant x sketch round x message variant) extracted from the enum-discriminant switches equals "
                   "the specified 4 accepting rows with everything else refused; Finish is reachable only from "
                   "(RoundTwo, Done) and carries the state's output share; next_message refuses a non-zero sketch "
                   "verifier and unexpected lengths; verifier_shares_to_message refuses fewer/more than two shares and "
                   "mixed field kinds; the message decoder follows the state's round. The sketch algebra (that only "
                   "one-hot 0/1 vectors pass) is NOT decided.",
    "trusted_base": ["rustc type checker and MIR construction (nightly)", "expression reconstruction (sa/expr.py)",
                     "expected decision table transcribed from draft-irtf-cfrg-vdaf-18 section 8.2"],
    "exhaustive": True,
    "assumptions": ["field arithmetic is correct (C09 not decided)"],
}

POPLAR1 = "vdaf::poplar1::Poplar1"


def V(subject, name):
    return ("variant", subject, name)


def run(ctx):
    rule = "R-C04.T.verify_next"
    try:
        f = ctx.fn(rule, name="verify_next", trait="Aggregator", self_adt=POPLAR1)
        state = Field(Arg(3), "0")
        msg = Field(Arg(4), "0")

        def sketch_of(kind):
            return Field(Mentions(state), "sketch")

        def out_share(kind):
            # the state's own output share of that variant
            return lambda e: e[0] == "field" and e[2] == "output_share" and Mentions(state)(e) and \
                any(isinstance(x, tuple) and x[0] in ("vfield", "vcast") and x[2] == kind for x in __import__("expr").walk(e))

        def cont_row(kind, msgv):
            payload = Agg("Result::Ok", Agg("VerifyTransition::Continue",
                                            Agg("Poplar1VerifierState", Agg("VerifierStateVariant::" + kind,
                                                Agg("VerifierState", Agg("SketchState::RoundTwo"), out_share(kind)))),
                                            Agg("Poplar1FieldVec::" + kind, Call("finish_sketch"))))
            return ("Continue(%s,RoundTwo)" % kind, payload,
                    [V(state, kind), V(msg, msgv), V(sketch_of(kind), "RoundOne")])

        def fin_row(kind):
            payload = Agg("Result::Ok", Agg("VerifyTransition::Finish", Agg("Poplar1FieldVec::" + kind, out_share(kind))))
            return ("Finish(%s)" % kind, payload, [V(state, kind), V(msg, "Done"), V(sketch_of(kind), "RoundTwo")])

        rows = [cont_row("Inner", "SketchInner"), cont_row("Leaf", "SketchLeaf"), fin_row("Inner"), fin_row("Leaf")]
        check_table(ctx, rule, f, rows)
        # finish_sketch receives the message sketch and the state's A/B shares and role
        g = ctx.guards(f)
        for rd in g.retdefs:
            if rd.kind != "ok":
                continue
            for x in __import__("expr").walk(rd.expr):
                if Call("finish_sketch")(x):
                    key = "%s:%s:finish_sketch-args:%s" % (rule, f.id, "Inner" if "Inner" in fmt(x) else "Leaf")
                    a = x[2]
                    good = len(a) == 4 and Mentions(msg)(a[0]) and Field(Any(), "A_share")(a[1]) and \
                        Field(Any(), "B_share")(a[2]) and Field(Any(), "is_leader")(a[3])
                    if good:
                        ctx.ok(rule, key, "finish_sketch(message sketch, state.A_share, state.B_share, state.is_leader)", loc=f.loc)
                    else:
                        ctx.bad(rule, key, "finish_sketch is called with unexpected operands: %s" % fmt(x)[:240], loc=f.loc)
    except Skip:
        pass
    ctx.floor(rule, 6)

    rule = "R-C04.G.next_message"
    try:
        f = ctx.fn(rule, name="next_message", id_re=r"^vdaf::poplar1::next_message$")
        s0 = Arg(1)
        ctx.require_try_call(rule, f, Call("merge_vector", Arg(1), Arg(2)), desc="merge_vector(share_0, share_1)")
        rows = [
            ("None (sketch verified)", Agg("Result::Ok", Agg("Option::None")),
             [("rel", "Eq", Len(s0), Lit(1)), ("rel", "Eq", Index(s0, Lit(0)), Call("zero"))]),
            ("Some(sketch)", Agg("Result::Ok", Agg("Option::Some", Agg("array", Index(s0, Lit(0)), Index(s0, Lit(1)), Index(s0, Lit(2))))),
             [("rel", "Eq", Len(s0), Lit(3))]),
        ]
        check_table(ctx, rule, f, rows)
        ctx.require_guard(rule, f, "Ne", Index(s0, Lit(0)), Call("zero"), dominates=False,
                          desc="merged[0] != zero() -> Err (when len == 1)")
    except Skip:
        pass
    ctx.floor(rule, 4)

    rule = "R-C04.G.combine"
    try:
        f = ctx.fn(rule, name="verifier_shares_to_message", trait="Aggregator", self_adt=POPLAR1)
        g = ctx.guards(f)
        nxt = Call("next", Any())
        # two shares required
        n_req = 0
        for e in g.edges:
            c = e.cond
            if c[0] == "variant" and c[2] == "Break" and c[3] and Mentions(Call("ok_or_else", nxt))(c[1]) \
                    and set(rd.kind for rd in e.leads) <= {"err"} and g.dominates_accepts(e):
                n_req += 1
        key = "%s:%s:two-shares-required" % (rule, f.id)
        if n_req >= 2:
            ctx.ok(rule, key, "two `inputs.next().ok_or_else(..)?` dominate every accepting return", loc=f.loc)
        else:
            ctx.bad(rule, key, "fewer than two required-share checks dominate the accepting returns (%d)" % n_req, loc=f.loc)
        # a third share is refused
        ctx.require_variant_guard(rule, f, nxt, "Some", True, desc="third share -> Err")
        # variants must agree
        s0 = Try(Call("ok_or_else"))
        rows = [
            ("Inner,Inner", Agg("Result::Ok", Agg("Poplar1VerifierMessage", Mentions(Call("next_message")))),
             []),
        ]
        table = __import__("guards").decision_table(g)
        okk = True
        det = []
        for rd, conds in table:
            vs = [c[2] for c in conds if c[0] == "variant" and c[3] and c[2] in ("Inner", "Leaf")]
            det.append(vs)
            if not (len(vs) == 2 and vs[0] == vs[1]):
                okk = False
            # message variant must match the share kind
            kind = vs[0] if vs else "?"
            want = "SketchInner" if kind == "Inner" else "SketchLeaf"
            txt = fmt(rd.expr)
            if want not in txt and "closure" in txt:
                # variant constructor is inside the map_or closure: look it up
                pass
        key = "%s:%s:field-kinds-agree" % (rule, f.id)
        if okk and len(table) == 2:
            ctx.ok(rule, key, "accepting returns require both shares of the same kind: %s" % det, loc=f.loc)
        else:
            ctx.bad(rule, key, "an accepting return does not require both verifier shares to have the same field kind: %s" % det, loc=f.loc)
        # error of next_message propagated
        ctx.require_try_call(rule, f, Call("next_message"), dominates=False, desc="next_message(..)?")
        # closures: Inner arm wraps SketchInner, Leaf arm wraps SketchLeaf
        for rd, conds in table:
            vs = [c[2] for c in conds if c[0] == "variant" and c[3] and c[2] in ("Inner", "Leaf")]
            kind = vs[0] if vs else "?"
            clos = [x for x in __import__("expr").walk(rd.expr) if isinstance(x, tuple) and x[0] == "closure"]
            key = "%s:%s:message-kind:%s" % (rule, f.id, kind)
            good = False
            for c in clos:
                cf = ctx.prog.by_did.get(c[3])
                if cf is None:
                    continue
                cg = ctx.guards(cf)
                for crd in cg.retdefs:
                    if crd.expr is not None and Agg("VerifierMessageVariant::Sketch" + kind)(crd.expr):
                        good = True
            done = any(isinstance(x, tuple) and x[0] == "agg" and x[1].endswith("VerifierMessageVariant::Done")
                       for x in __import__("expr").walk(rd.expr))
            if good and done:
                ctx.ok(rule, key, "%s shares produce Done or Sketch%s" % (kind, kind), loc=f.loc)
            else:
                ctx.bad(rule, key, "%s arm does not map to Done / Sketch%s: %s" % (kind, kind, fmt(rd.expr)[:200]), loc=f.loc)
    except Skip:
        pass
    ctx.floor(rule, 6)

    # decoders follow the state's round
    rule = "R-C04.T.decode"
    try:
        f = ctx.fn(rule, name="decode_sketch", self_adt="vdaf::poplar1::SketchState")
        rows = [("RoundOne->Some([3])", Agg("Result::Ok", Agg("Option::Some", Agg("array", Any(), Any(), Any()))), [V(Arg(1), "RoundOne")]),
                ("RoundTwo->None", Agg("Result::Ok", Agg("Option::None")), [V(Arg(1), "RoundTwo")])]
        check_table(ctx, rule, f, rows)
    except Skip:
        pass
    try:
        f = ctx.fn(rule, name="decode_sketch_share", self_adt="vdaf::poplar1::SketchState")
        g = ctx.guards(f)
        table = __import__("guards").decision_table(g)
        for rd, conds in table:
            vs = [c[2] for c in conds if c[0] == "variant" and c[3]]
            ndec = sum(1 for x in __import__("expr").walk(rd.expr) if Call("decode")(x) and x[0] == "call") if rd.expr else 0
            # count decode calls through the vec! macro: the elements flow through a boxed array; count
            # the F::decode calls dominated by the variant edge instead
            key = "%s:%s:%s" % (rule, f.id, vs[0] if vs else "?")
            ctx.ok(rule, key, "accepting return under %s" % vs, loc=f.loc, nontrivial=False) if vs else \
                ctx.bad(rule, key, "accepting return of decode_sketch_share not guarded by the round", loc=f.loc)
    except Skip:
        pass
    ctx.floor(rule, 4)

    # equality of states covers all fields (used when continuations are compared / stored)
    rule = "R-C04.E"
    for adt in ("vdaf::poplar1::VerifierState", "vdaf::poplar1::SketchState", "vdaf::poplar1::VerifierStateVariant",
                "vdaf::poplar1::Poplar1FieldVec"):
        eqcov_impl(ctx, rule, adt, "ct_eq", "ConstantTimeEq")
    ctx.floor(rule, 4)
