from pat import *
from expr import fmt, walk
from harness import Skip
from guards import block_conditions
from rules.common import adapters_in, calls_named, req, strip, S, field_reads

INFO = {
    "explanation": "Static rules over MIR for the clauses of C06 whose truth is in the shape of the code. Cache transparency: (K) cache keys "
                   "are canonical - NormalizedBitVec is built only by its From<BitVec>, which aligns the storage and clears the "
                   "unused bits before wrapping, and every IdpfCache impl keys on NormalizedBitVec::from(input.to_bitvec()) of the "
                   "whole input; (E) key equality and hash read the same two projections (raw storage and bit length); (C) "
                   "HashMapCache/RingBufferCache return a stored value only for an equal key and store exactly the given value; "
                   "(L) the node state inserted after level l is the post-eval_next (key, control bit) under key prefix[..=l], a "
                   "hit on a key of length n resumes at start_level n with the cached (key, control bit), the lookup starts at the "
                   "longest proper prefix and shortens by one bit, the root evaluation starts at level 0 with key.0 and control "
                   "bit = !is_leader; (F) an evaluation is a function of its arguments only - Idpf and the fixed-key XOF types "
                   "carry no interior-mutable state, the fixed-key instances for the inner levels are derived inside the call "
                   "from this call's (ctx, nonce) with the extend/convert domain separators paired to their roles, identically in "
                   "gen and eval. Reconstruction: (A) eval_next, generate_correction_word, extend, convert, the seed helpers and "
                   "merge are compared term by term with the IDPF of draft-irtf-cfrg-vdaf (correction-word seed, control bits and "
                   "value formulas; the evaluator's correction, selection, conversion, output and sign). The value-level identity "
                   "share0 + share1 = beta on the path and 0 off it follows from those formulas by the published argument and is "
                   "NOT re-proved; no key is generated or evaluated.",
    "trusted_base": ["rustc type checker and MIR construction (nightly)", "expression reconstruction over MIR (sa/expr.py)",
                     "bitvec's force_align / set_uninitialized / as_raw_slice contracts", "draft-irtf-cfrg-vdaf IDPF (oracle for the shapes)"],
    "assumptions": ["IdpfCache implementations outside the crate honour the trait contract (get returns only what insert stored for an equal key)"],
}

NBV_FROM = "<idpf::NormalizedBitVec as std::convert::From<bitvec::vec::BitVec>>::from"
INTERIOR = ("OnceLock", "OnceCell", "LazyLock", "LazyCell", "RefCell", "Cell<", "Mutex", "RwLock", "Atomic", "UnsafeCell", "thread_local")


def nbv_key(inp):
    """NormalizedBitVec::from(<inp>.to_bitvec())"""
    def m(e):
        return isinstance(e, tuple) and e[0] == "conv" and len(e) > 2 and e[2] == NBV_FROM and Call("to_bitvec", inp)(e[1])
    return m


def run_keys(ctx):
    prog = ctx.prog
    rule = "R-C06.K"
    try:
        f = ctx.fn(rule, name="from", self_adt="idpf::NormalizedBitVec", trait="From")
        g = ctx.guards(f)
        b = f.body
        K = "%s:%s:" % (rule, f.id)
        rds = [rd for rd in g.retdefs if rd.expr is not None]
        fa = calls_named(ctx, f, "force_align")
        su = calls_named(ctx, f, "set_uninitialized")
        good = len(rds) == 1 and Agg("NormalizedBitVec", Local(1))(rds[0].expr)
        req(ctx, rule, K + "wraps-argument", good, "Self(value)", "NormalizedBitVec::from does not wrap its argument", loc=f.loc)
        good = len(fa) == 1 and Local(1)(fa[0][1][2][0]) and rds and b.dominates(fa[0][0], rds[0].block)
        req(ctx, rule, K + "force-align", good, "value.force_align() before wrapping",
            "the bit vector is not force_align()ed before it becomes a key: keys whose storage starts at different bit offsets "
            "compare and hash differently", loc=f.loc)
        good = len(su) == 1 and Local(1)(su[0][1][2][0]) and Lit(0)(su[0][1][2][1]) and rds and b.dominates(su[0][0], rds[0].block) and \
            (not fa or b.dominates(fa[0][0], su[0][0]))
        req(ctx, rule, K + "clear-unused", good, "value.set_uninitialized(false) after aligning, before wrapping",
            "the unused storage bits are not cleared (after alignment) before the vector becomes a key", loc=f.loc)
    except Skip:
        pass
    # who may construct
    makers = []
    for f in prog.fns:
        if f.body is None:
            continue
        for bi, si, s in f.body.iter_stmts():
            if s.rv is not None and s.rv.kind == "agg" and (s.rv.path or "").endswith("idpf::NormalizedBitVec"):
                makers.append(f.id)
    good = sorted(set(makers)) == [NBV_FROM]
    req(ctx, rule, rule + ":who-constructs", good, "NormalizedBitVec is constructed only by its From<BitVec>",
        "NormalizedBitVec is constructed outside its normalising From<BitVec>: %s" % sorted(set(makers)))
    # every cache impl keys on the normalised whole input
    for adt, nm, use in (("idpf::HashMapCache", "get", "get"), ("idpf::HashMapCache", "insert", "entry"),
                         ("idpf::RingBufferCache", "get", None), ("idpf::RingBufferCache", "insert", "push_back")):
        try:
            f = ctx.fn(rule, name=nm, trait="IdpfCache", self_adt=adt)
            key = nbv_key(Local(2))
            terms = [c for bi, c in calls_named(ctx, f, "get", "entry", "push_back", "insert", "contains_key", "get_mut", "remove")]
            K = "%s:%s:normalised-key" % (rule, f.id)
            if use is not None:
                cs = [c for bi, c in calls_named(ctx, f, use)]
                good = len(cs) == 1 and (key(cs[0][2][1]) or (cs[0][2][1][0] == "agg" and key(cs[0][2][1][2][0])))
                others = [c for c in terms if c not in cs]
                good = good and not others
            else:
                g = ctx.guards(f)
                good = any(e.cond[0] == "rel" and e.cond[1] == "Eq" and (key(e.cond[2]) or key(e.cond[3])) for e in g.edges)
            req(ctx, rule, K, good, "keys on NormalizedBitVec::from(input.to_bitvec())",
                "%s::%s does not key on the normalised whole input" % (adt, nm), loc=f.loc)
        except Skip:
            pass
    ctx.floor(rule, 8)

    rule = "R-C06.E"
    try:
        fe = ctx.fn(rule, name="eq", trait="PartialEq", self_adt="idpf::NormalizedBitVec")
        fh = ctx.fn(rule, name="hash", trait="Hash", self_adt="idpf::NormalizedBitVec")
        ge = ctx.guards(fe)
        raw = lambda p: Call("as_raw_slice", Field(p, "0"))
        ln = lambda p: Or(Len(Field(p, "0")), Call("len", Field(p, "0")))
        # eq: true only if raw storage equal and lengths equal
        rds = [rd for rd in ge.retdefs]
        raw_ne = [e for e in ge.edges if e.cond[0] == "rel" and e.cond[1] == "Ne" and
                  ((raw(Local(1))(e.cond[2]) and raw(Local(2))(e.cond[3])) or (raw(Local(2))(e.cond[2]) and raw(Local(1))(e.cond[3])))]
        len_eq = Bin("Eq", ln(Local(1)), ln(Local(2)), commutative=True)
        whole = [rd for rd in rds if rd.expr is not None and Bin("BitAnd")(rd.expr)]
        good = (len(raw_ne) == 1 and all(rd.kind == "false" for rd in raw_ne[0].leads) and
                [rd for rd in rds if rd.kind != "false"] and all(rd.expr is not None and len_eq(rd.expr) for rd in rds if rd.kind != "false")) or \
               (len(whole) == 1 and len(rds) == 1)
        req(ctx, rule, "%s:%s" % (rule, fe.id), good, "eq = raw storage equal && bit lengths equal",
            "NormalizedBitVec::eq is not `raw storage equal and bit length equal` (keys `0` and `00` would collide)", loc=fe.loc)
        hs = [c for bi, c in calls_named(ctx, fh, "hash")]
        good = len(hs) == 2 and any(raw(Local(1))(c[2][0]) for c in hs) and any(ln(Local(1))(c[2][0]) for c in hs) and \
            all(Local(2)(c[2][1]) for c in hs)
        req(ctx, rule, "%s:%s" % (rule, fh.id), good, "hash feeds the raw storage and the bit length - the projections eq compares",
            "NormalizedBitVec::hash does not hash exactly the projections that eq compares (raw storage, bit length)", loc=fh.loc)
    except Skip:
        pass
    ctx.floor(rule, 2)


def run_caches(ctx):
    rule = "R-C06.C"
    try:
        f = ctx.fn(rule, name="get", trait="IdpfCache", self_adt="idpf::HashMapCache")
        g = ctx.guards(f)
        rds = [rd for rd in g.retdefs if rd.expr is not None]
        good = len(rds) == 1 and S(Call("get", Field(Local(1), "map"), nbv_key(Local(2))))(strip_cloned(rds[0].expr))
        req(ctx, rule, "%s:%s" % (rule, f.id), good, "map.get(&key).cloned()", "HashMapCache::get is not the map lookup of the key: %s" % [fmt(r.expr)[:120] for r in rds], loc=f.loc)
        f = ctx.fn(rule, name="insert", trait="IdpfCache", self_adt="idpf::HashMapCache")
        oi = calls_named(ctx, f, "or_insert", "insert")
        good = len(oi) == 1 and Local(3)(oi[0][1][2][-1]) and Mentions(Field(Local(1), "map"))(oi[0][1])
        req(ctx, rule, "%s:%s" % (rule, f.id), good, "stores *values under the key", "HashMapCache::insert does not store the given value under the key", loc=f.loc)
    except Skip:
        pass
    try:
        f = ctx.fn(rule, name="get", trait="IdpfCache", self_adt="idpf::RingBufferCache")
        g = ctx.guards(f)
        K = "%s:%s:" % (rule, f.id)
        some = [rd for rd in g.retdefs if rd.kind == "some"]
        good = len(some) == 1
        if good:
            pay = some[0].payload if some[0].payload is not None else some[0].expr[2][0]
            item = Field(Call("next"), name="0", variant="Some")
            conds = block_conditions(g, some[0].block)
            keyeq = [c for c in conds if c[0] == "rel" and c[1] == "Eq" and
                     ((nbv_key(Local(2))(c[2]) and Field(item, name="0")(c[3])) or (nbv_key(Local(2))(c[3]) and Field(item, name="0")(c[2])))]
            good = bool(keyeq) and pay[0] == "agg" and len(pay[2]) == 2 and Field(item, name="1")(pay[2][0]) and Field(item, name="2")(pay[2][1])
            if good:
                ent = keyeq[0][3] if nbv_key(Local(2))(keyeq[0][2]) else keyeq[0][2]
                good = pay[2][0][1] == ent[1] and pay[2][1][1] == ent[1]

                eqe = [e for e in g.edges if e.cond == keyeq[0]]

                class _E:
                    block = eqe[0].block if eqe else some[0].block
                src = ctx.loop_source(f, _E)
                good = good and src is not None and Mentions(Field(Local(1), "ring"))(src) and set(adapters_in(src)) <= {"rev"}
        req(ctx, rule, K + "hit-only-on-equal-key", good, "returns Some((entry.1, entry.2)) only for the entry whose key equals the normalised input",
            "RingBufferCache::get can return a value stored under a different key", loc=f.loc)
        others = [rd for rd in g.retdefs if rd.kind not in ("some", "none")]
        req(ctx, rule, K + "miss-is-none", not others, "otherwise None", "unexpected return in RingBufferCache::get", loc=f.loc)
        f = ctx.fn(rule, name="insert", trait="IdpfCache", self_adt="idpf::RingBufferCache")
        g = ctx.guards(f)
        K = "%s:%s:" % (rule, f.id)
        pb = calls_named(ctx, f, "push_back", "push_front")
        pf = calls_named(ctx, f, "pop_front", "pop_back", "clear", "truncate", "drain")
        good = len(pb) == 1 and pb[0][1][2][1][0] == "agg" and len(pb[0][1][2][1][2]) == 3 and nbv_key(Local(2))(pb[0][1][2][1][2][0]) and \
            Field(Local(3), "0")(pb[0][1][2][1][2][1]) and Field(Local(3), "1")(pb[0][1][2][1][2][2])
        req(ctx, rule, K + "stores-given-state", good, "push_back((key, values.0, values.1))", "RingBufferCache::insert does not store the given (key, seed, control bit)", loc=f.loc)
        # stored entries are immutable: the ring changes only by push_back / pop; nothing rewrites an entry in place
        # (an entry rewritten under another entry's key is a stale hit waiting to happen)
        muts = sorted(set(t.callee.name for bi, t in f.body.calls()
                          if t.callee.name in ("index_mut", "get_mut", "iter_mut", "back_mut", "front_mut", "swap", "insert", "as_mut_slices", "make_contiguous", "range_mut", "retain_mut")
                          and t.args and Mentions(Field(Local(1), "ring"))(g.eb.operand(t.args[0]))))
        req(ctx, rule, K + "entries-immutable", not muts, "no stored entry is modified in place", "stored entries are modified in place via %s" % muts, loc=f.loc)
        # eviction policy is deliberately not constrained: losing entries is always harmless for transparency
        ctx.note("RingBufferCache eviction calls: %s (not constrained - a cache may drop anything)" % [c[1].split("::")[-1] for _, c in pf])
    except Skip:
        pass
    try:
        f = ctx.fn(rule, name="get", trait="IdpfCache", self_adt="idpf::NoCache")
        g = ctx.guards(f)
        req(ctx, rule, "%s:%s" % (rule, f.id), all(rd.kind == "none" for rd in g.retdefs), "NoCache::get = None", "NoCache::get returns a value", loc=f.loc)
    except Skip:
        pass
    ctx.floor(rule, 6)


def strip_cloned(e):
    while isinstance(e, tuple) and e[0] == "call" and e[1].split("::")[-1] in ("cloned", "copied") and e[2]:
        e = e[2][0]
    return e


def run_levels(ctx):
    rule = "R-C06.L"
    try:
        f = ctx.fn(rule, name="eval_from_node", self_adt="idpf::Idpf")
        fe = ctx.fn(rule, name="eval", self_adt="idpf::Idpf")
    except Skip:
        return
    g = ctx.guards(f)
    b = f.body
    K = "%s:%s:" % (rule, f.id)
    # parameters: 1 self, 2 is_leader, 3 public_share, 4 start_level, 5 key, 6 control_bit, 7 prefix, 8 ctx, 9 nonce, 10 cache
    START, KEY, CB, PREFIX, CACHE = Local(4), Local(5), Local(6), Local(7), Local(10)
    ev = [(bi, c) for bi, c in calls_named(ctx, f, "eval_next") if g.loop_of(bi) is not None]
    ins = calls_named(ctx, f, "insert")
    good = len(ev) == 1 and len(ins) == 1
    if good:
        class _E:
            block = ev[0][0]
        src = ctx.loop_source(f, _E)
        lp = g.loop_of(ev[0][0])
        cws = Call("index", Field(Local(3), "inner_correction_words"), Agg("RangeFrom", START))
        bits = Call("index", PREFIX, Agg("RangeFrom", START))
        lv = Agg("RangeFrom", START)
        good = src is not None and Call("zip", Call("zip", cws, S(bits)), lv)(src) and not adapters_in(src)
        if not good and src is not None:
            # tolerate `iter()` wrappers
            good = Call("zip", Call("zip", cws, Mentions(bits)), lv)(src) and not adapters_in(src)
        req(ctx, rule, K + "walk", good, "zip(correction_words[start_level..], prefix[start_level..], start_level..)",
            "the level walk is not correction_words[start_level..] zipped with prefix[start_level..] and start_level..: %s" % (fmt(src)[:200] if src else None), loc=f.loc)
        item = Field(Call("next"), name="0", variant="Some")
        cw_i = Field(Field(item, name="0"), name="0")
        bit_i = Field(Field(item, name="0"), name="1")
        lvl_i = Field(item, name="1")
        c = ev[0][1]
        good = Local(2)(c[2][0]) and Field(Local(1), "inner_node_value_parameter")(c[2][1]) and KEY(c[2][2]) and CB(c[2][3]) and \
            cw_i(c[2][4]) and S(Cast(bit_i))(c[2][5]) or (Local(2)(c[2][0]) and KEY(c[2][2]) and CB(c[2][3]) and cw_i(c[2][4]) and Mentions(bit_i)(c[2][5]))
        req(ctx, rule, K + "inner-step", good, "eval_next(is_leader, inner parameter, &mut key, &mut control_bit, cw[level], prefix bit[level], ..)",
            "the per-level step does not advance (key, control_bit) with this level's correction word and prefix bit", loc=f.loc)
        ic = ins[0][1]
        val = ic[2][2]
        good = CACHE(ic[2][0]) and Call("index", PREFIX, Agg("RangeToInclusive", lvl_i))(ic[2][1]) and val[0] == "agg" and len(val[2]) == 2 and \
            KEY(val[2][0]) and Call("unwrap_u8", CB)(val[2][1]) and ins[0][0] in lp[1] and b.dominates(ev[0][0], ins[0][0]) and \
            all(b.dominates(ins[0][0], t) for (t, hh) in b.back_edges() if hh == lp[0])
        req(ctx, rule, K + "insert-after-step", good, "cache.insert(&prefix[..=level], &(key, control_bit)) after the level's eval_next, every level",
            "the cached node is not (prefix[..=level] -> post-step key and control bit) inserted after every inner level", loc=f.loc)
    else:
        ctx.bad(rule, K + "walk", "expected one eval_next in the level loop and one cache insert", loc=f.loc)
    # leaf step
    leaf = [(bi, c) for bi, c in calls_named(ctx, f, "eval_next") if g.loop_of(bi) is None]
    bitsn = Bin("Add", Len(Field(Local(3), "inner_correction_words")), Lit(1), commutative=True)
    good = len(leaf) == 1
    if good:
        c = leaf[0][1]
        conds = block_conditions(g, leaf[0][0])
        good = any(cd[0] == "rel" and cd[1] == "Eq" and Len(PREFIX)(cd[2]) and bitsn(cd[3]) for cd in conds) and \
            Field(Local(1), "leaf_node_value_parameter")(c[2][1]) and KEY(c[2][2]) and CB(c[2][3]) and Field(Local(3), "leaf_correction_word")(c[2][4]) and \
            Mentions(Index(PREFIX, Bin("Sub", bitsn, Lit(1))))(c[2][5])
        rds = g.retdefs
        okl = [rd for rd in rds if rd.kind == "ok" and Agg("IdpfOutputShare::Leaf", lambda x: x == c)(rd.payload)]
        def _last_inner(x):
            # Option local that is None initially and Some(<the level loop's eval_next result>) afterwards - by definition, not by name
            x = strip(x)
            if not (isinstance(x, tuple) and x[0] == "phi"):
                return False
            from guards import phi_defs as _pd
            ds = [d[0] for d in _pd(g, x[1])]
            return len(ds) == 2 and any(Agg("Option::None")(d) for d in ds) and any(Agg("Option::Some", lambda y: ev and y == ev[0][1])(d) for d in ds)
        oki = [rd for rd in rds if rd.kind == "ok" and Agg("IdpfOutputShare::Inner", _last_inner)(rd.payload)]
        good = good and len(okl) == 1 and len(oki) == 1 and len(rds) == 2
    req(ctx, rule, K + "leaf-step", good, "len(prefix) == bits: Leaf(eval_next(leaf parameter, leaf cw, prefix[bits-1])); else Inner(last inner output)",
        "the leaf level is not evaluated exactly when the prefix has full length, or the wrong output is returned", loc=f.loc)

    # ---- eval: lookup
    g = ctx.guards(fe)
    b = fe.body
    K = "%s:%s:" % (rule, fe.id)
    # params: 1 self, 2 agg_id, 3 public_share, 4 key, 5 prefix, 6 ctx, 7 nonce, 8 cache
    PREFIX, CACHE = Local(5), Local(8)
    ctx.require_guard(rule, fe, "Gt", Local(2), Lit(1), desc="agg_id > 1 -> Err")
    ctx.require_guard(rule, fe, "Eq", Len(PREFIX), Lit(0), desc="empty prefix -> Err")
    ctx.require_guard(rule, fe, "Gt", Len(PREFIX), Bin("Add", Len(Field(Local(3), "inner_correction_words")), Lit(1), commutative=True),
                      desc="len(prefix) > bits -> Err")
    calls = calls_named(ctx, fe, "eval_from_node")
    gets = calls_named(ctx, fe, "get")
    is_leader = Bin("Eq", Local(2), Lit(0), commutative=True)
    root = [(bi, c) for bi, c in calls if Lit(0)(c[2][3])]
    hit = [(bi, c) for bi, c in calls if not Lit(0)(c[2][3])]
    good = len(root) == 1 and len(calls) == 2
    if good:
        c = root[0][1]
        good = Local(1)(c[2][0]) and is_leader(c[2][1]) and Local(3)(c[2][2]) and Field(Local(4), "0")(c[2][4]) and \
            S(Un("Not", is_leader))(c[2][5]) and PREFIX(c[2][6]) and Local(6)(c[2][7]) and Local(7)(c[2][8]) and CACHE(c[2][9])
    req(ctx, rule, K + "root", good, "root: eval_from_node(is_leader, share, 0, key.0, control_bit = !is_leader, prefix, ctx, nonce, cache)",
        "the evaluation from the root does not start at level 0 with the key share and control bit !is_leader", loc=fe.loc)
    good = len(hit) == 1 and len(gets) == 1 and g.loop_of(gets[0][0]) is not None
    if good:
        c = hit[0][1]
        gc = gets[0][1]
        ck = gc[2][1]
        some = Field(lambda x: x == gc, name="0", variant="Some")
        conds = block_conditions(g, hit[0][0])
        good = CACHE(gc[2][0]) and ck[0] == "phi" and \
            any(cd[0] == "variant" and cd[1] == gc and cd[2] == "Some" and cd[3] for cd in conds) and \
            is_leader(c[2][1]) and Local(3)(c[2][2]) and (Len(lambda x: x == ck)(c[2][3]) or Call("len", lambda x: x == ck)(c[2][3])) and \
            Field(some, name="0")(c[2][4]) and S(Field(some, name="1"))(c[2][5]) and PREFIX(c[2][6]) and Local(6)(c[2][7]) and Local(7)(c[2][8]) and CACHE(c[2][9])
        req(ctx, rule, K + "resume-at-hit", good, "hit on key k: eval_from_node(start_level = len(k), cached key, cached control bit, prefix, ..)",
            "a cache hit does not resume at start_level = len(hit key) with the cached (key, control bit)", loc=fe.loc)
        # lookup key sequence: prefix[..len-1], then shortened by one, while non-empty
        from guards import phi_defs
        defs = [d[0] for d in phi_defs(g, ck[1])]
        ln = lambda p: Or(Len(p), Call("len", p))
        first = Call("index", PREFIX, Agg("RangeTo", Bin("Sub", ln(PREFIX), Lit(1))))
        nxt = Call("index", lambda x: x == ck, Agg("RangeTo", Bin("Sub", ln(lambda x: x == ck), Lit(1))))
        good = len(defs) == 2 and any(first(d) for d in defs) and any(nxt(d) for d in defs)
        req(ctx, rule, K + "lookup-order", good, "lookup keys: prefix[..len-1], then one bit shorter each time",
            "the lookup does not start at the longest proper prefix and shorten by one bit: %s" % [fmt(d)[:100] for d in defs], loc=fe.loc)
        # a proper prefix only: guarded by len(prefix) > 1 and !is_empty
        lp = g.loop_of(gets[0][0])
        ne = [e for e in g.edges if e.block in lp[1] and e.cond[0] == "rel" and e.cond[1] == "Ne" and ln(lambda x: x == ck)(e.cond[2]) and Lit(0)(e.cond[3])]
        ne2 = [e for e in g.edges if e.block in lp[1] and e.cond[0] == "truth" and Call("is_empty", lambda x: x == ck)(e.cond[1]) and e.cond[2] is False]
        okg = any(b.dominates(e.target, gets[0][0]) for e in ne + ne2)
        req(ctx, rule, K + "nonempty-key", okg, "the cache is consulted for non-empty keys only",
            "the cache may be consulted with an empty key", loc=fe.loc)
    else:
        ctx.bad(rule, K + "resume-at-hit", "expected one cache lookup in a loop and one resumed evaluation", loc=fe.loc)
    ctx.floor(rule, 11)


def Un(op, p=None):
    def m(e):
        return isinstance(e, tuple) and e[0] == "un" and e[1] == op and (p is None or p(e[2]))
    return m


def reads_param_after(b, call_block, arg_index, param_local, write_blocks, before=False):
    """the arg_index-th operand of the call terminating call_block is read from *param_local (not from an earlier
    copy of it) at a point dominated by every block in write_blocks"""
    t = b.blocks[call_block].term
    op = t.args[arg_index]
    seen = set()
    cur = op.place
    while cur is not None and cur[0] not in seen:
        seen.add(cur[0])
        if cur[0] == param_local:
            return True
        ds = [d for d in b.defs.get(cur[0], []) if d[2] == "whole"]
        if len(ds) != 1 or ds[0][1] == "term":
            return False
        bi, si, _ = ds[0]
        rv = b.blocks[bi].stmts[si].rv
        src = None
        if rv.kind in ("use", "cast") and rv.ops and rv.ops[0].place is not None:
            src = rv.ops[0].place
        elif rv.kind == "ref" and rv.place is not None:
            src = rv.place
        if src is None:
            return False
        if src[0] == param_local:
            if before:
                return all(b.dominates(bi, w) and bi != w for w in write_blocks)
            return all(b.dominates(w, bi) for w in write_blocks)
        cur = src
    return False


def run_fresh(ctx):
    prog = ctx.prog
    rule = "R-C06.F"
    # no interior-mutable or hidden state in the evaluator's types
    for path in ("idpf::Idpf", "idpf::IdpfPublicShare", "idpf::IdpfCorrectionWord", "vdaf::xof::XofFixedKeyAes128Key",
                 "vdaf::xof::XofFixedKeyAes128", "vdaf::xof::SeedStreamFixedKeyAes128", "idpf::XofMode", "idpf::IdpfInput"):
        adt = prog.adt_by_path.get(path)
        if adt is None:
            ctx.bad(rule, "%s:adt:%s" % (rule, path), "type %s not found" % path, kind="anchor")
            continue
        bad = []
        for var in adt["variants"]:
            for fld in var["fields"]:
                ts = prog.types[fld["t"]]["s"]
                if any(k in ts for k in INTERIOR):
                    bad.append("%s: %s" % (fld["n"], ts))
        req(ctx, rule, "%s:state:%s" % (rule, path), not bad, "%s has no interior-mutable field" % path,
            "%s carries interior-mutable state across calls (%s): an evaluation may depend on earlier evaluations" % (path, bad))
    adt = prog.adt_by_path.get("idpf::Idpf")
    if adt is not None:
        names = [fl["n"] for v in adt["variants"] for fl in v["fields"]]
        req(ctx, rule, rule + ":idpf-fields", sorted(names) == ["inner_node_value_parameter", "leaf_node_value_parameter"],
            "Idpf holds only the two value parameters", "Idpf holds state beyond the two value parameters: %s" % names)
    # keys derived per call, roles paired, gen/eval agree
    specs = [("eval_from_node", 8, 9), ("gen_with_random", 5, 6)]
    shapes = {}
    for nm, ci, ni in specs:
        try:
            f = ctx.fn(rule, name=nm, self_adt="idpf::Idpf")
        except Skip:
            continue
        g = ctx.guards(f)
        K = "%s:%s:" % (rule, f.id)
        CTX, NONCE = Local(ci), Local(ni)
        mk = lambda dom: Call("new", Agg("array", Sym(dom), CTX), NONCE)
        steps = [c for bi, c in calls_named(ctx, f, "eval_next", "generate_correction_word")]
        inner = [c for c in steps if Mentions(Agg("XofMode::Inner"))(("t",) + tuple(c[2][-2:]))]
        leafs = [c for c in steps if Mentions(Agg("XofMode::Leaf"))(("t",) + tuple(c[2][-2:]))]
        good = len(inner) == 1 and len(leafs) == 1
        if good:
            e_mode, c_mode = inner[0][2][-2], inner[0][2][-1]
            good = Agg("XofMode::Inner", mk("EXTEND_DOMAIN_SEP"))(e_mode) and Agg("XofMode::Inner", mk("CONVERT_DOMAIN_SEP"))(c_mode) and \
                "XofFixedKeyAes128Key" in fmt(e_mode)
        req(ctx, rule, K + "inner-keys-per-call", good,
            "inner levels use XofFixedKeyAes128Key::new([EXTEND|CONVERT_DOMAIN_SEP, ctx], nonce) derived in this call, extend/convert in their roles",
            "%s does not derive the inner-level fixed keys from this call's (ctx, nonce) with EXTEND for extend and CONVERT for convert" % nm, loc=f.loc)
        good = len(leafs) == 1 and all(Agg("XofMode::Leaf", CTX, NONCE)(m) for m in leafs[0][2][-2:])
        req(ctx, rule, K + "leaf-mode", good, "leaf level uses XofMode::Leaf(ctx, nonce) for both roles",
            "%s does not bind the leaf level to this call's (ctx, nonce)" % nm, loc=f.loc)
        shapes[nm] = True
    # the mode parameters reach extend and convert in their roles
    for nm, ei, ci in (("eval_next", 7, 8), ("generate_correction_word", 6, 7)):
        try:
            f = ctx.fn(rule, name=nm, id_re=r"^idpf::%s$" % nm)
            ex = [c for bi, c in calls_named(ctx, f, "extend")]
            cv = [c for bi, c in calls_named(ctx, f, "convert")]
            good = ex and cv and all(Local(ei)(c[2][1]) for c in ex) and all(Local(ci)(c[2][1]) for c in cv)
            req(ctx, rule, "%s:%s:roles" % (rule, f.id), good, "extend(.., extend_mode), convert(.., convert_mode, ..)",
                "%s passes the wrong XOF mode to extend/convert" % nm, loc=f.loc)
        except Skip:
            pass
    for nm, dom in (("extend", "EXTEND_DOMAIN_SEP"), ("convert", "CONVERT_DOMAIN_SEP")):
        try:
            f = ctx.fn(rule, name=nm, id_re=r"^idpf::%s$" % nm)
            g = ctx.guards(f)
            K = "%s:%s:" % (rule, f.id)
            mode = Local(2)
            ws = [c for bi, c in calls_named(ctx, f, "with_seed")]
            fs = [c for bi, c in calls_named(ctx, f, "from_seed_slice")]
            up = [c for bi, c in calls_named(ctx, f, "update")]
            good = len(ws) == 1 and len(fs) == 1 and len(up) == 1 and \
                Field(mode, name="0", variant="Inner")(ws[0][2][0]) and Local(1)(ws[0][2][1]) and \
                Local(1)(fs[0][2][0]) and Agg("array", Sym(dom), Field(mode, name="0", variant="Leaf"))(fs[0][2][1]) and \
                Field(mode, name="1", variant="Leaf")(up[0][2][1])
            req(ctx, rule, K + "streams", good, "Inner: fixed_key.with_seed(seed); Leaf: TurboShake(seed, [%s, ctx]).update(nonce)" % dom,
                "%s does not derive its stream from (seed, fixed key) / (seed, %s, ctx, nonce)" % (nm, dom), loc=f.loc)
        except Skip:
            pass
    ctx.floor(rule, 17)


def _by_const_index(g, stores):
    """(constant index, store) for stores `(*p)[k] = ..`; textual order when an index is not a constant"""
    out = []
    for n, w in enumerate(sorted(stores, key=lambda w: (w[0], w[1]))):
        pe = w[2].place[1][-1]
        k = None
        if isinstance(pe, tuple) and pe[0] == "cix" and not pe[2]:
            k = pe[1]
        elif isinstance(pe, tuple) and pe[0] == "ix":
            e = g.eb.local(pe[1])
            if e[0] == "lit" and isinstance(e[1], int):
                k = e[1]
        out.append((k, w))
    if any(k is None for k, _ in out) or sorted(k for k, _ in out) != list(range(len(out))):
        return list(enumerate(w for _, w in out))
    return sorted(out, key=lambda kw: kw[0])


def run_algebra(ctx):
    rule = "R-C06.A"
    # seed helpers
    for nm, op in (("xor_seeds", "BitXor"), ("and_seeds", "BitAnd"), ("or_seeds", "BitOr")):
        try:
            f = ctx.fn(rule, name=nm, id_re=r"^idpf::%s$" % nm)
            g = ctx.guards(f)
            b = f.body
            good = False
            cands = [(bi, g.eb.rvalue(s.rv)) for bi, si, s in b.iter_stmts() if s.kind == "assign" and s.rv is not None and s.rv.kind == "bin"]
            cands += [(bi, g.eb.call_expr(t)) for bi, t in b.calls()]
            for bi, ex in cands:
                if ex[0] == "bin" and ex[1] == op and g.loop_of(bi) is not None:
                    class _E:
                        block = bi
                    src = ctx.loop_source(f, _E)
                    item = Field(Call("next"), name="0", variant="Some")
                    good = src is not None and Call("zip", Local(1), Call("zip", Local(2), Any()))(src) and not adapters_in(src) and \
                        Field(item, name="0")(ex[2]) and Field(Field(item, name="1"), name="0")(ex[3])
            rds = [rd for rd in g.retdefs if rd.expr is not None]
            req(ctx, rule, "%s:%s" % (rule, f.id), good and len(rds) == 1, "%s: out[i] = left[i] %s right[i] for all 16 bytes" % (nm, op),
                "%s is not the byte-wise %s of its two arguments over all bytes" % (nm, op), loc=f.loc)
        except Skip:
            pass
    try:
        f = ctx.fn(rule, name="control_bit_to_seed_mask", id_re=r"^idpf::control_bit_to_seed_mask$")
        g = ctx.guards(f)
        rds = [rd for rd in g.retdefs if rd.expr is not None]
        good = len(rds) == 1 and rds[0].expr[0] == "repeat" and S(Un("Neg", S(Call("unwrap_u8", Local(1)))))(rds[0].expr[1])
        req(ctx, rule, "%s:%s" % (rule, f.id), good, "mask = [-(bit as i8) as u8; 16]  (0x00 or 0xff)",
            "control_bit_to_seed_mask is not the all-zeros/all-ones mask of the bit: %s" % [fmt(r.expr)[:100] for r in rds], loc=f.loc)
        f = ctx.fn(rule, name="conditional_xor_seeds", id_re=r"^idpf::conditional_xor_seeds$")
        g = ctx.guards(f)
        rds = [rd for rd in g.retdefs if rd.expr is not None]
        good = len(rds) == 1 and Call("xor_seeds", Local(1), Call("and_seeds", Local(2), Call("control_bit_to_seed_mask", Local(3))))(rds[0].expr) or \
            (len(rds) == 1 and Call("xor_seeds", Local(1), Call("and_seeds", Call("control_bit_to_seed_mask", Local(3)), Local(2)))(rds[0].expr))
        req(ctx, rule, "%s:%s" % (rule, f.id), good, "normal ^ (switched & mask(control))", "conditional_xor_seeds is not normal ^ (switched & mask(control))", loc=f.loc)
        f = ctx.fn(rule, name="conditional_select_seed", id_re=r"^idpf::conditional_select_seed$")
        g = ctx.guards(f)
        rds = [rd for rd in g.retdefs if rd.expr is not None]
        m = lambda p: Call("control_bit_to_seed_mask", p)
        a0 = Call("and_seeds", m(Un("Not", Local(1))), Index(Local(2), Lit(0)))
        a1 = Call("and_seeds", m(Local(1)), Index(Local(2), Lit(1)))
        good = len(rds) == 1 and (Call("or_seeds", a0, a1)(rds[0].expr) or Call("or_seeds", a1, a0)(rds[0].expr))
        req(ctx, rule, "%s:%s" % (rule, f.id), good, "(mask(!select) & seeds[0]) | (mask(select) & seeds[1])",
            "conditional_select_seed does not select seeds[0] for 0 and seeds[1] for 1: %s" % [fmt(r.expr)[:160] for r in rds], loc=f.loc)
    except Skip:
        pass
    # extend: two seeds from one stream in order, control bits stolen from bit 0 of byte 0 and cleared
    try:
        f = ctx.fn(rule, name="extend", id_re=r"^idpf::extend$")
        g = ctx.guards(f)
        b = f.body
        K = "%s:%s:" % (rule, f.id)
        fills = calls_named(ctx, f, "fill_bytes")
        good = len(fills) == 4 and Index(AnyLocal(), Lit(0))(fills[0][1][2][1])
        SEEDS = Same(fills[0][1][2][1][1]) if good else Any()
        if good:
            pairs = [(fills[0], fills[1]), (fills[2], fills[3])]
            for (x, y) in pairs:
                good = good and Index(SEEDS, Lit(0))(x[1][2][1]) and Index(SEEDS, Lit(1))(y[1][2][1]) and \
                    x[1][2][0] == y[1][2][0] and b.dominates(x[0], y[0])
        req(ctx, rule, K + "two-seeds-in-order", good, "seeds[0] then seeds[1] read from the same stream in both modes",
            "extend does not read seeds[0] then seeds[1] from one stream", loc=f.loc)
        rds = [rd for rd in g.retdefs if rd.expr is not None]
        good = len(rds) == 1 and rds[0].expr[0] == "agg" and len(rds[0].expr[2]) == 2
        if good:
            sd, cbs = rds[0].expr[2]
            bit = lambda i: S(Bin("BitAnd", Index(Index(SEEDS, Lit(i)), Lit(0)), Lit(1)))
            good = SEEDS(sd) and cbs[0] == "agg" and len(cbs[2]) == 2 and bit(0)(cbs[2][0]) and bit(1)(cbs[2][1])
        # the clearing writes
        clears = 0
        for bi, si, s in b.iter_stmts():
            if s.kind == "assign" and s.rv is not None and s.rv.kind == "bin" and s.rv.op == "BitAnd":
                ex = g.eb.rvalue(s.rv)
                if Lit(0xfe)(ex[3]) or Lit(0xfe)(ex[2]):
                    clears += 1
        req(ctx, rule, K + "control-bits", good and clears == 2, "control bits = seeds[b][0] & 1, then seeds[b][0] &= 0xfe",
            "extend does not take the control bits from bit 0 of each seed and clear it (clears=%d)" % clears, loc=f.loc)
    except Skip:
        pass
    # convert: next seed first, then the value from the same stream
    try:
        f = ctx.fn(rule, name="convert", id_re=r"^idpf::convert$")
        g = ctx.guards(f)
        b = f.body
        fills = calls_named(ctx, f, "fill_bytes")
        gens = calls_named(ctx, f, "generate")
        rds = [rd for rd in g.retdefs if rd.expr is not None]
        good = len(fills) == 2 and len(gens) == 2 and len(rds) == 2 and AnyLocal()(fills[0][1][2][1])
        NS = Same(fills[0][1][2][1]) if good else Any()
        if good:
            for (x, y, rd) in zip(fills, gens, rds):
                good = good and NS(x[1][2][1]) and x[1][2][0] == y[1][2][0] and Local(3)(y[1][2][1]) and b.dominates(x[0], y[0]) and \
                    rd.expr[0] == "agg" and NS(rd.expr[2][0]) and rd.expr[2][1] == y[1]
        req(ctx, rule, "%s:%s" % (rule, f.id), good, "next_seed = first 16 bytes; value = V::generate(rest of the same stream, parameter)",
            "convert does not read the next seed and then the value from one stream", loc=f.loc)
    except Skip:
        pass
    # eval_next
    try:
        f = ctx.fn(rule, name="eval_next", id_re=r"^idpf::eval_next$")
        g = ctx.guards(f)
        b = f.body
        K = "%s:%s:" % (rule, f.id)
        # params: 1 is_leader 2 parameter 3 key 4 control_bit 5 correction_word 6 input_bit 7 extend_mode 8 convert_mode
        KEY, CB, CW, BIT = Local(3), Local(4), Local(5), Local(6)
        ex = calls_named(ctx, f, "extend")
        cx = calls_named(ctx, f, "conditional_xor_seeds")
        bx = calls_named(ctx, f, "bitxor_assign")
        good = len(ex) == 1 and KEY(ex[0][1][2][0]) and len(cx) == 2 and len(bx) == 2 and \
            Index(AnyLocal(), Lit(0))(cx[0][1][2][0]) and Index(AnyLocal(), Lit(0))(bx[0][1][2][0])
        SDS = Same(cx[0][1][2][0][1]) if good else Any()
        CBS2 = Same(bx[0][1][2][0][1]) if good else Any()
        if good:
            # they are the two components of extend(key, extend_mode)
            s_l, c_l = cx[0][1][2][0][1], bx[0][1][2][0][1]
            si = g.eb.init_expr(s_l[1]) if s_l[0] == "phi" else None
            ci = g.eb.init_expr(c_l[1]) if c_l[0] == "phi" else None
            good = si is not None and ci is not None and Field(Same(ex[0][1]), name="0")(si) and Field(Same(ex[0][1]), name="1")(ci)
        if good:
            for i in (0, 1):
                good = good and Index(SDS, Lit(i))(cx[i][1][2][0]) and Field(CW, "seed")(cx[i][1][2][1]) and CB(cx[i][1][2][2]) and \
                    Index(CBS2, Lit(i))(bx[i][1][2][0]) and \
                    Bin("BitAnd", Index(Field(CW, "control_bits"), Lit(i)), CB, commutative=True)(bx[i][1][2][1])
        req(ctx, rule, K + "correction", good, "seeds[b] ^= cw.seed if t; control_bits[b] ^= cw.control_bits[b] & t   (b = 0, 1)",
            "eval_next does not apply the correction word to both children under the current control bit", loc=f.loc)
        sel = calls_named(ctx, f, "conditional_select_seed")
        csel = [c for c in calls_named(ctx, f, "conditional_select") if "Choice" in (c[1][3] or "")]
        cv = calls_named(ctx, f, "convert")
        vsel = [c for c in calls_named(ctx, f, "conditional_select") if "IdpfValue" in (c[1][1] or "")]
        neg = calls_named(ctx, f, "conditional_negate")
        good = len(sel) == 1 and len(csel) == 1 and len(cv) == 1 and len(vsel) == 1 and len(neg) == 1
        if good:
            good = BIT(sel[0][1][2][0]) and SDS(sel[0][1][2][1]) and \
                Index(CBS2, Lit(0))(csel[0][1][2][0]) and Index(CBS2, Lit(1))(csel[0][1][2][1]) and BIT(csel[0][1][2][2]) and \
                cv[0][1][2][0] == sel[0][1] and Local(2)(cv[0][1][2][2]) and \
                Call("zero", Local(2))(vsel[0][1][2][0]) and Field(CW, "value")(vsel[0][1][2][1]) and (CB(vsel[0][1][2][2]) or vsel[0][1][2][2] == csel[0][1]) and \
                S(Un("Not", Local(1)))(neg[0][1][2][1])
        # stores through the &mut parameters, and their order relative to the value selection
        wk = [(bi, si) for bi, si, s in b.iter_stmts() if s.kind == "assign" and s.place == (3, ("*",))]
        wc = [(bi, si) for bi, si, s in b.iter_stmts() if s.kind == "assign" and s.place == (4, ("*",))]
        if good:
            good = len(wk) == 1 and len(wc) == 1 and b.dominates(csel[0][0], wc[0][0]) and \
                (b.dominates(wc[0][0], vsel[0][0]) or vsel[0][1][2][2] == csel[0][1]) and \
                all(b.dominates(x[0], wc[0][0]) for x in cx + bx) and b.dominates(cv[0][0], wk[0][0])
            vk = g.eb.rvalue(b.blocks[wk[0][0]].stmts[wk[0][1]].rv)
            vc = g.eb.rvalue(b.blocks[wc[0][0]].stmts[wc[0][1]].rv)
            good = good and Field(lambda x: x == cv[0][1], name="0")(vk) and vc == csel[0][1]
        req(ctx, rule, K + "select-convert", good,
            "seed = select(bit, seeds); *control_bit = select(control_bits, bit); (*key, w) = convert(seed); value-select uses the NEW control bit",
            "eval_next does not select the child by the input bit, update (key, control_bit) and then convert", loc=f.loc)
        rds = [rd for rd in g.retdefs if rd.expr is not None]
        good = len(rds) == 1 and len(vsel) == 1 and len(cv) == 1
        if good:
            out = rds[0].expr
            init = g.eb.init_expr(out[1]) if out[0] == "phi" else out
            good = init is not None and Bin("Add", Field(lambda x: x == cv[0][1], name="1"), lambda x: x == vsel[0][1], commutative=True)(init) and \
                neg and neg[0][1][2][0] == out
        req(ctx, rule, K + "output", good, "out = w + (t' ? cw.value : 0); negated iff !is_leader",
            "eval_next's output is not w + select(0, cw.value, t'), negated for the helper", loc=f.loc)
    except Skip:
        pass
    # generate_correction_word
    try:
        f = ctx.fn(rule, name="generate_correction_word", id_re=r"^idpf::generate_correction_word$")
        g = ctx.guards(f)
        b = f.body
        K = "%s:%s:" % (rule, f.id)
        # params: 1 input_bit 2 value 3 parameter 4 keys 5 control_bits 6 extend_mode 7 convert_mode
        BIT, VALUE, KEYS, CBS = Local(1), Local(2), Local(4), Local(5)
        rds = [rd for rd in g.retdefs if rd.expr is not None]
        ext = lambda i: Call("extend", Index(KEYS, Lit(i)), Local(6))
        sd = lambda i: Field(ext(i), name="0")
        t = lambda i, j: Index(Field(ext(i), name="1"), Lit(j))
        lose = Un("Not", BIT)
        cw_seed = Call("xor_seeds", Call("conditional_select_seed", lose, sd(0)), Call("conditional_select_seed", lose, sd(1)))
        good = len(rds) == 1 and rds[0].expr[0] == "agg" and "IdpfCorrectionWord" in rds[0].expr[1]
        flds = dict(zip(rds[0].expr[3], rds[0].expr[2])) if good else {}
        req(ctx, rule, K + "cw-seed", good and cw_seed(flds.get("seed", ("unk",))), "cw.seed = select(lose, s0) ^ select(lose, s1), lose = !bit",
            "the correction seed is not the xor of the two `lose` children: %s" % fmt(flds.get("seed", ("unk",)))[:200], loc=f.loc)

        def xor_set(e):
            """flatten a ^-chain into a list of operands"""
            if isinstance(e, tuple) and e[0] == "bin" and e[1] == "BitXor":
                return xor_set(e[2]) + xor_set(e[3])
            return [e]

        def is_set(e, pats):
            xs = xor_set(e)
            if len(xs) != len(pats):
                return False
            rest = list(xs)
            for p in pats:
                hit = [x for x in rest if p(x)]
                if not hit:
                    return False
                rest.remove(hit[0])
            return not rest
        cb = flds.get("control_bits", ("unk",))
        good = good and cb[0] == "agg" and len(cb[2]) == 2 and is_set(cb[2][0], [t(0, 0), t(1, 0), BIT, S(Lit(1))]) and is_set(cb[2][1], [t(0, 1), t(1, 1), BIT])
        req(ctx, rule, K + "cw-control-bits", good, "cw.control_bits = [t0L ^ t1L ^ bit ^ 1, t0R ^ t1R ^ bit]",
            "the correction control bits are not [t0L^t1L^bit^1, t0R^t1R^bit]: %s" % fmt(cb)[:240], loc=f.loc)
        # corrected seeds and conversion
        cv = calls_named(ctx, f, "convert")
        good = len(cv) == 2
        if good:
            for i in (0, 1):
                arg = cv[i][1][2][0]
                want = Call("conditional_xor_seeds", Call("conditional_select_seed", BIT, sd(i)), cw_seed, Any())
                a = arg
                if a[0] == "index":
                    a = a[1][2][i] if a[1][0] == "agg" and len(a[1][2]) == 2 else a
                elif a[0] == "agg" and len(a[2]) == 2:
                    a = a[2][i]
                good = good and want(a) and Local(7)(cv[i][1][2][1]) and Local(3)(cv[i][1][2][2])
        req(ctx, rule, K + "keep-seeds", good, "next seed_b = select(keep, s_b) ^ (cw.seed if previous t_b), then convert with convert_mode",
            "the kept children are not corrected with cw.seed under the previous control bits before conversion", loc=f.loc)
        # the previous control bits are the ones read before the update: conditional_xor_seeds third args are copies taken
        # before control_bits[b] is overwritten
        wcb = [(bi, si, s) for bi, si, s in b.iter_stmts() if s.kind == "assign" and s.place and s.place[0] == 5 and s.place[1] and s.place[1][0] == "*"
               and len(s.place[1]) == 2]
        good = len(wcb) == 2
        if good:
            for k, (bi, si, s) in _by_const_index(g, wcb):
                ex = g.eb.rvalue(s.rv)
                keep_t = Call("conditional_select", t(k, 0), t(k, 1), BIT)
                good = good and Bin("BitXor", keep_t, Bin("BitAnd", Call("conditional_select"), Any(), commutative=True), commutative=True)(ex)
        cxs = calls_named(ctx, f, "conditional_xor_seeds")
        good_prev = len(cxs) == 2 and all(reads_param_after(b, x[0], 2, 5, [w[0] for w in wcb], before=True) and
                                          Index(CBS, Lit(k))(x[1][2][2]) for k, x in enumerate(cxs))
        req(ctx, rule, K + "previous-control-bits", good_prev, "the seed correction uses the control bits from BEFORE this level's update",
            "the kept seeds are corrected under control bits that were already updated for this level (or the wrong party's bit)", loc=f.loc)
        req(ctx, rule, K + "control-bit-update", good, "t_b = select(keep, t_bL, t_bR) ^ (cw_keep & previous t_b)",
            "the control-bit update is not select(keep, t_b) ^ (cw_keep & previous t_b)", loc=f.loc)
        val = flds.get("value", ("unk",))
        neg = calls_named(ctx, f, "conditional_negate")
        good = len(cv) == 2 and len(neg) == 1
        if good:
            init = g.eb.init_expr(val[1]) if val[0] == "phi" else val
            w = lambda i: Field(lambda x: x == cv[i][1], name="1")
            good = init is not None and Bin("Add", Bin("Sub", VALUE, w(0)), w(1), commutative=True)(init) and neg[0][1][2][0] == val and \
                Index(CBS, Lit(1))(neg[0][1][2][1]) and all(b.dominates(x[0], neg[0][0]) for x in wcb) and \
                reads_param_after(b, neg[0][0], 1, 5, [x[0] for x in wcb])
        req(ctx, rule, K + "cw-value", good, "cw.value = (value - w0 + w1), negated iff the helper's NEW control bit is set",
            "the correction value is not value - w0 + w1 negated under control_bits[1] (after its update)", loc=f.loc)
        wk = [(bi, si, s) for bi, si, s in b.iter_stmts() if s.kind == "assign" and s.place and s.place[0] == 4 and s.place[1] and s.place[1][0] == "*"
              and len(s.place[1]) == 2]
        good = len(wk) == 2 and len(cv) == 2
        if good:
            for k, (bi, si, s) in _by_const_index(g, wk):
                good = good and Field(lambda x: x == cv[k][1], name="0")(g.eb.rvalue(s.rv))
        req(ctx, rule, K + "keys-advance", good, "keys[b] = convert(...).0", "the keys are not advanced to the converted seeds", loc=f.loc)
    except Skip:
        pass
    # merge
    try:
        f = ctx.fn(rule, name="merge", self_adt="idpf::IdpfOutputShare")
        g = ctx.guards(f)
        K = "%s:%s" % (rule, f.id)
        adds = calls_named(ctx, f, "add_assign", "add")
        oks = [rd for rd in g.retdefs if rd.kind == "ok"]
        errs = [rd for rd in g.retdefs if rd.kind == "err"]
        good = len(adds) == 2 and len(oks) == 2 and len(errs) == 1
        if good:
            for var in ("Inner", "Leaf"):
                a = [c for bi, c in adds if Field(Local(2), name="0", variant=var)(c[2][1])]
                o = [rd for rd in oks if Agg("IdpfOutputShare::" + var)(rd.payload)]
                good = good and len(a) == 1 and len(o) == 1 and a[0][2][0] == o[0].payload[2][0]
                if good:
                    conds = block_conditions(g, o[0].block)
                    good = any(c[0] == "variant" and Local(1)(c[1]) and c[2] == var for c in conds) and any(c[0] == "variant" and Local(2)(c[1]) and c[2] == var for c in conds)
        req(ctx, rule, K, good, "Inner+Inner -> Inner(a+b); Leaf+Leaf -> Leaf(a+b); otherwise MismatchedLevel",
            "merge is not the level-wise sum with a mismatch error", loc=f.loc)
    except Skip:
        pass
    # gen_with_random: every level's correction word in order; initial control bits (0, 1)
    try:
        f = ctx.fn(rule, name="gen_with_random", self_adt="idpf::Idpf")
        g = ctx.guards(f)
        b = f.body
        K = "%s:%s:" % (rule, f.id)
        # params: 1 self 2 input 3 inner_values 4 leaf_value 5 ctx 6 nonce 7 random
        gcw = calls_named(ctx, f, "generate_correction_word")
        inner = [x for x in gcw if g.loop_of(x[0]) is not None]
        leaf = [x for x in gcw if g.loop_of(x[0]) is None]
        good = len(inner) == 1 and len(leaf) == 1
        if good:
            class _E:
                block = inner[0][0]
            src = ctx.loop_source(f, _E)
            item = Field(Call("next"), name="0", variant="Some")
            c = inner[0][1]
            bitsm1 = Bin("Sub", Len(Local(2)), Lit(1))
            good = src is not None and Call("enumerate", Local(3))(src) and adapters_in(src) == [] and \
                Mentions(Index(Local(2), Field(item, name="0")))(c[2][0]) and Field(item, name="1")(c[2][1]) and \
                Field(Local(1), "inner_node_value_parameter")(c[2][2]) and AnyLocal()(c[2][3]) and AnyLocal()(c[2][4]) and c[2][3] != c[2][4]
            cl = leaf[0][1]
            good = good and Mentions(Index(Local(2), bitsm1))(cl[2][0]) and Local(4)(cl[2][1]) and Field(Local(1), "leaf_node_value_parameter")(cl[2][2]) and \
                cl[2][3] == c[2][3] and cl[2][4] == c[2][4]
            # the inner loop precedes the leaf
            lp = g.loop_of(inner[0][0])
            good = good and b.dominates(lp[0], leaf[0][0])
        req(ctx, rule, K + "levels", good, "cw[level] from (input[level], value[level]) for every inner level in order, then the leaf from input[bits-1]",
            "gen does not produce one correction word per level from that level's input bit and value, in order", loc=f.loc)
        ctx.require_guard(rule, f, "Ge", Field(Field(Call("next"), name="0", variant="Some"), name="0"), Bin("Sub", Len(Local(2)), Lit(1)),
                          every_iteration=True, desc="too many inner values -> Err")
        pushes = [c for bi, c in calls_named(ctx, f, "push") if inner and c[2][1] == inner[0][1]]
        ICW = Same(pushes[0][2][0]) if len(pushes) == 1 else (lambda e: False)
        req(ctx, rule, K + "words-collected", len(pushes) == 1, "every inner correction word is pushed onto one vector", "the inner correction words are not collected by a single push per level", loc=f.loc)
        ctx.require_guard(rule, f, "Ne", Len(ICW), Bin("Sub", Len(Local(2)), Lit(1)), desc="too few inner values -> Err")
        # initial state
        kinit = g.eb.init_expr([c for bi, c in gcw][0][2][3][1]) if gcw and gcw[0][1][2][3][0] == "phi" else None
        cinit = g.eb.init_expr(gcw[0][1][2][4][1]) if gcw and gcw[0][1][2][4][0] == "phi" else None
        good = cinit is not None and cinit[0] == "agg" and len(cinit[2]) == 2 and S(Lit(0))(cinit[2][0]) and S(Lit(1))(cinit[2][1]) and \
            kinit is not None and kinit[0] == "agg" and len(kinit[2]) == 2 and all(Mentions(Index(Local(7), Lit(i)))(kinit[2][i]) for i in (0, 1))
        req(ctx, rule, K + "initial-state", good, "keys = random[0], random[1]; control bits = (0, 1)",
            "gen does not start from the two random keys with control bits (0, 1): %s / %s" % (fmt(kinit)[:100] if kinit else None, fmt(cinit)[:80] if cinit else None), loc=f.loc)
        acc = g.accept_defs(("err",))
        good = len(acc) == 1 and acc[0].payload is not None and acc[0].payload[0] == "agg" and len(acc[0].payload[2]) == 2
        if good:
            ps, ks = acc[0].payload[2]
            good = ps[0] == "agg" and "IdpfPublicShare" in ps[1] and ICW(ps[2][0]) and ps[2][1] == leaf[0][1] if leaf else False
        req(ctx, rule, K + "result", good, "Ok((IdpfPublicShare { all inner words, leaf word }, initial keys))",
            "gen does not return all correction words and the initial keys", loc=f.loc)
    except Skip:
        pass
    ctx.floor(rule, 20)


def run_values(ctx):
    """the IdpfValue implementations shipped with the crate are the group the formulas assume"""
    rule = "R-C06.V"
    prog = ctx.prog
    PV = "vdaf::poplar1::Poplar1IdpfValue"
    # blanket impl for field elements
    for f in prog.find(name="conditional_select", trait="IdpfValue"):
        rds = [rd for rd in ctx.guards(f).retdefs if rd.expr is not None]
        good = len(rds) == 1 and Call("conditional_select", Local(1), Local(2), Local(3))(rds[0].expr) and "ConditionallySelectable" in fmt(rds[0].expr)
        req(ctx, rule, "%s:%s" % (rule, f.id), good, "IdpfValue::conditional_select(a, b, c) forwards (a, b, c) in order",
            "IdpfValue::conditional_select does not forward (a, b, choice) in that order: %s" % [fmt(r.expr)[:120] for r in rds], loc=f.loc)
    for f in prog.find(name="zero", trait="IdpfValue"):
        rds = [rd for rd in ctx.guards(f).retdefs if rd.expr is not None]
        e = rds[0].expr if len(rds) == 1 else ("unk",)
        good = Call("zero")(e) or (Agg("Poplar1IdpfValue")(e) and all(Call("zero")(x) for x in walk(e[2][0]) if isinstance(x, tuple) and x[0] == "call")
                                   and Mentions(Call("zero"))(e))
        req(ctx, rule, "%s:%s" % (rule, f.id), good, "IdpfValue::zero is the additive identity", "IdpfValue::zero is not built from F::zero(): %s" % fmt(e)[:120], loc=f.loc)
    for f in prog.find(name="generate", trait="IdpfValue"):
        g = ctx.guards(f)
        draws = calls_named(ctx, f, "generate_random", "generate")
        good = bool(draws) and all(Local(1)(c[2][0]) for bi, c in draws) and \
            not [t.callee.name for bi, t in f.body.calls() if t.callee.name in ("fill_bytes", "next_u32", "next_u64", "random")]
        n = 2 if "Poplar1IdpfValue" in f.id else 1
        good = good and len(draws) == n and all(f.body.dominates(draws[i][0], draws[i + 1][0]) for i in range(len(draws) - 1))
        req(ctx, rule, "%s:%s" % (rule, f.id), good, "generate draws %d field element(s) in order from the given stream" % n,
            "IdpfValue::generate does not draw exactly %d element(s) from the given stream" % n, loc=f.loc)
    # element-wise group operations of Poplar1IdpfValue
    comp = lambda p, i: Index(Field(p, "0"), Lit(i))
    for nm, tr, op in (("add", "Add", "Add"), ("sub", "Sub", "Sub")):
        try:
            f = ctx.fn(rule, name=nm, trait=tr, self_adt=PV)
            rds = [rd for rd in ctx.guards(f).retdefs if rd.expr is not None]
            good = len(rds) == 1 and Agg("Poplar1IdpfValue", Agg("array", Bin(op, comp(Local(1), 0), comp(Local(2), 0)), Bin(op, comp(Local(1), 1), comp(Local(2), 1))))(rds[0].expr)
            req(ctx, rule, "%s:%s" % (rule, f.id), good, "%s is element-wise, self %s rhs" % (nm, op), "Poplar1IdpfValue::%s is not element-wise self %s rhs: %s" % (nm, op, [fmt(r.expr)[:120] for r in rds]), loc=f.loc)
        except Skip:
            pass
    try:
        f = ctx.fn(rule, name="add_assign", trait="AddAssign", self_adt=PV)
        cs = [c for bi, c in calls_named(ctx, f, "add_assign")]
        good = len(cs) == 2 and all(comp(Local(1), i)(cs[i][2][0]) and comp(Local(2), i)(cs[i][2][1]) for i in (0, 1))
        req(ctx, rule, "%s:%s" % (rule, f.id), good, "add_assign is element-wise", "Poplar1IdpfValue::add_assign is not element-wise", loc=f.loc)
        f = ctx.fn(rule, name="conditional_select", trait="ConditionallySelectable", self_adt=PV)
        rds = [rd for rd in ctx.guards(f).retdefs if rd.expr is not None]
        sel = lambda i: Call("conditional_select", comp(Local(1), i), comp(Local(2), i), Local(3))
        good = len(rds) == 1 and Agg("Poplar1IdpfValue", Agg("array", sel(0), sel(1)))(rds[0].expr)
        req(ctx, rule, "%s:%s" % (rule, f.id), good, "conditional_select is element-wise select(a[i], b[i], choice)", "Poplar1IdpfValue::conditional_select is not element-wise (a, b, choice)", loc=f.loc)
        f = ctx.fn(rule, name="conditional_negate", trait="ConditionallyNegatable", self_adt=PV)
        cs = [c for bi, c in calls_named(ctx, f, "conditional_negate")]
        good = len(cs) == 2 and all(comp(Local(1), i)(cs[i][2][0]) and Local(2)(cs[i][2][1]) for i in (0, 1))
        req(ctx, rule, "%s:%s" % (rule, f.id), good, "conditional_negate negates both components under the same choice", "Poplar1IdpfValue::conditional_negate does not negate both components", loc=f.loc)
    except Skip:
        pass
    ctx.floor(rule, 11)


def run(ctx):
    run_keys(ctx)
    run_values(ctx)
    run_caches(ctx)
    run_levels(ctx)
    run_fresh(ctx)
    run_algebra(ctx)
