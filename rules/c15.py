from pat import *
from expr import fmt, walk
from harness import Skip
from guards import phi_defs, block_conditions, SWAP
import poly as polymod
from rules.common import adapters_in, calls_named, req, strip, S, find_rel_edges, closure_ret_in_parent

INFO = {
    "explanation": "Static transcription rules over MIR: each private sampler layer is compared, as a reconstructed term/CFG shape, with "
                   "the corresponding algorithm of Canonne-Kamath-Steinke (uniform big integer by rejection from ceil(bits/32) words "
                   "with the top word shifted to the bound's bit length; Bernoulli(n/d) as `s <= n` for s uniform on [1, d]; "
                   "Bernoulli(exp(-g)) for g<=1 by the alternating series with parity of the stopping index, and for g>1 by floor(g) "
                   "unit trials then the fractional part; geometric as floor((u + t*v)/s) with u uniform on [0,t) accepted with "
                   "probability exp(-u/t) and v counting unit successes; Laplace with a fair sign, rejecting negative zero; Gaussian "
                   "by rejection from Laplace(t = floor(sigma)+1) with acceptance exp(-(|y| - sigma^2/t)^2 / (2 sigma^2))). Also decided: "
                   "the RNG is consumed by exactly one function (random_bits, one `fill` of the whole word buffer) and is otherwise only "
                   "passed on; create_distribution computes sensitivity / epsilon; each noise-capable type passes its documented "
                   "sensitivity, computed in big-integer arithmetic; add_iid_noise_to_field_vec draws once per coordinate inside the "
                   "coordinate loop, reduces with mod_floor by the field modulus and adds the result to the entry. The probability law "
                   "itself (that these algorithms realise the exact distributions, over all random tapes) is the published theorem and "
                   "is NOT decided here; no sampler is executed.",
    "trusted_base": ["rustc type checker and MIR construction (nightly)", "expression reconstruction over MIR (sa/expr.py)",
                     "num-bigint / num-rational arithmetic", "Canonne, Kamath, Steinke 2020, Algorithms 1-3 (oracle for the shapes)"],
    "assumptions": ["rand's RngExt::fill on a [u32] buffer yields independent uniform words from the supplied Rng"],
}

DIST = "dp::distributions::"
one = Call("one")
zero = Call("zero")
numer = lambda p: Call("numer", p)
denom = lambda p: Call("denom", p)
RNG = Local(2)


def fn_at(ctx, rule, name, prefix=DIST):
    return ctx.fn(rule, name=name, id_re="^" + prefix.replace(":", r"\:") + name + "$")


def truth_edges(g, pat):
    return [e for e in g.edges if e.cond[0] == "truth" and pat(e.cond[1])]


def returns_from(b, start, header):
    """return blocks reachable from `start` without passing through `header`"""
    return [x for x in b.reach_from(start, avoid=(header,)) if b.blocks[x].term.kind == "return"]


def run_uniform(ctx):
    rule = "R-C15.U"
    RB = "dp::rand_bigint::"
    try:
        f = fn_at(ctx, rule, "random_biguint_below", RB)
        g = ctx.guards(f)
        K = "%s:%s:" % (rule, f.id)
        draw = Call("random_biguint", Local(1), Call("bits", Local(2)))
        rds = [rd for rd in g.retdefs if rd.expr is not None]
        acc = find_rel_edges(g, "Lt", draw, Local(2))
        rej = find_rel_edges(g, "Ge", draw, Local(2))
        good = len(rds) == 1 and draw(rds[0].expr) and len(acc) == 1 and len(rej) == 1 and g.loop_of(acc[0].block) is not None
        if good:
            lp = g.loop_of(acc[0].block)
            good = f.body.dominates(acc[0].target, rds[0].block) and not returns_from(f.body, rej[0].target, lp[0]) and \
                len(calls_named(ctx, f, "random_biguint")) == 1
        req(ctx, rule, K + "rejection", good, "loop { n = random_biguint(rng, bound.bits()); if n < bound { return n } }",
            "random_biguint_below is not `draw bound.bits() bits, return the draw exactly when it is < bound, otherwise redraw`", loc=f.loc)
    except Skip:
        pass
    def check_consumer(f, DATA, REM, where):
        """in f: the rng fills DATA whole exactly once, then the top word is shifted down to REM bits when REM > 0"""
        g = ctx.guards(f)
        b = f.body
        K = "%s:%s:" % (rule, where)
        fl = [(bi, c) for bi, c in calls_named(ctx, f, "fill", "fill_bytes", "try_fill") if "rand" in (c[4] or c[1])]
        good = len(fl) == 1 and Local(1)(fl[0][1][2][0]) and S(DATA)(fl[0][1][2][1]) and g.loop_of(fl[0][0]) is None
        req(ctx, rule, K + "fill-whole", good, "rng.fill(data) over the whole word buffer, once",
            "the whole word buffer is not filled from the rng exactly once", loc=f.loc)
        pos = find_rel_edges(g, "Gt", REM, Lit(0))
        shifts = []
        for bi, si, s in b.iter_stmts():
            # `data[last] >>= ..` on a slice (indexed place) or on a Vec (through IndexMut): the old value is data[last]
            if s.kind == "assign" and s.rv is not None and s.rv.kind == "bin" and s.rv.op in ("Shr", "ShrUnchecked"):
                ex = g.eb.rvalue(s.rv)
                tgt = ex[2]
                if s.place and s.place[1] == ("*",):
                    # written through the reference returned by IndexMut::index_mut(data, i)
                    ie = g.eb.init_expr(s.place[0])
                    if ie is not None and ie[0] == "index":
                        tgt = ie
                if isinstance(tgt, tuple) and tgt[0] == "index":
                    shifts.append((bi, ("bin", ex[1], tgt, ex[3]), tgt[2]))
        good = len(pos) == 1 and len(shifts) == 1
        if good:
            bi, ex, ix = shifts[0]
            good = b.dominates(pos[0].target, bi) and S(Bin("Sub", Lit(32), REM))(ex[3]) and \
                Bin("Sub", Len(S(DATA)), Lit(1))(ix) and Index(S(DATA))(ex[2]) and bool(fl) and b.dominates(fl[0][0], bi)
        req(ctx, rule, K + "top-word", good, "if rem > 0 { data[len-1] >>= 32 - rem }",
            "the top word is not reduced to `rem` bits by `data[len-1] >>= 32 - rem` exactly when rem > 0", loc=f.loc)

    try:
        f = fn_at(ctx, rule, "random_biguint", RB)
        g = ctx.guards(f)
        K = "%s:%s:" % (rule, f.id)
        dr = Call("div_rem", Local(2), Lit(32))
        q = Field(dr, name="0")
        r = Field(dr, name="1")
        words = S(Call("to_usize", Bin("Add", q, S(Cmp("Gt", r, Lit(0))), commutative=True)))
        rds = [rd for rd in g.retdefs if rd.expr is not None]
        good = len(rds) == 1 and Call("new")(rds[0].expr)
        data = rds[0].expr[2][0] if good else None
        if good:
            init = g.eb.init_expr(data[1]) if data[0] == "phi" else data
            good = init is not None and Call("from_elem", Lit(0), words)(init)
        # the consumer of the rng: a separate helper (random_bits) or this function itself (helper inlined)
        consumers = [x for x in ctx.prog.fns if x.body is not None and x.id.startswith(RB) and
                     any("rand" in (t.callee.path or "") and t.callee.name in ("fill", "fill_bytes", "try_fill") for bi, t in x.body.calls())]
        if good and len(consumers) == 1 and consumers[0].did == f.did:
            check_consumer(f, Same(data), r, "random_biguint(inlined)")
            fillb = [bi for bi, c in calls_named(ctx, f, "fill")]
            good = bool(fillb) and f.body.dominates(fillb[0], rds[0].block)
        elif good and len(consumers) == 1:
            cf = consumers[0]
            rb = calls_named(ctx, f, cf.name)
            good = len(rb) == 1 and Local(1)(rb[0][1][2][0]) and rb[0][1][2][1] == data and r(rb[0][1][2][2]) and f.body.dominates(rb[0][0], rds[0].block)
            check_consumer(cf, Local(2), Local(3), cf.id)
        else:
            good = False
        req(ctx, rule, K + "word-count", good, "data = vec![0u32; bits/32 + (bits%32 > 0)]; filled from the rng with bits%32 as the top word's width; BigUint::new(data)",
            "random_biguint does not fill exactly ceil(bits/32) words and pass bits%32 as the top word's width", loc=f.loc)
    except Skip:
        pass
    try:
        f = ctx.fn(rule, name="new", self_adt="dp::rand_bigint::UniformBigUint")
        g = ctx.guards(f)
        ctx.require_guard(rule, f, "Ge", Local(1), Local(2), desc="low >= high -> Err(EmptyRange)")
        acc = g.accept_defs(("err",))
        good = len(acc) == 1 and acc[0].payload is not None and acc[0].payload[0] == "agg"
        BASE = LEN = None
        if good:
            # the two (private) fields are identified by what the constructor stores in them, not by their names
            for name, val in zip(acc[0].payload[3], acc[0].payload[2]):
                if Local(1)(strip(val)):
                    BASE = name
                elif Bin("Sub", Local(2), Local(1))(strip(val)):
                    LEN = name
            good = BASE is not None and LEN is not None and len(acc[0].payload[2]) == 2
        req(ctx, rule, "%s:%s:range" % (rule, f.id), good, "UniformBigUint { base: low, len: high - low }",
            "UniformBigUint::new does not store base = low and len = high - low", loc=f.loc)
        f = ctx.fn(rule, name="new_inclusive", self_adt="dp::rand_bigint::UniformBigUint")
        g = ctx.guards(f)
        ctx.require_guard(rule, f, "Gt", Local(1), Local(2), desc="low > high -> Err(EmptyRange)")
        rds = [rd for rd in g.retdefs if rd.kind == "call"]
        good = len(rds) == 1 and Call("new", Local(1), Bin("Add", Local(2), Lit(1), commutative=True))(rds[0].expr)
        req(ctx, rule, "%s:%s:range" % (rule, f.id), good, "new_inclusive(low, high) = new(low, high + 1)",
            "new_inclusive is not new(low, high + 1)", loc=f.loc)
        f = ctx.fn(rule, name="sample", self_adt="dp::rand_bigint::UniformBigUint")
        g = ctx.guards(f)
        rds = [rd for rd in g.retdefs if rd.expr is not None]
        good = len(rds) == 1 and BASE is not None and Bin("Add", Field(Local(1), BASE), Call("random_biguint_below", Local(2), Field(Local(1), LEN)))(rds[0].expr)
        req(ctx, rule, "%s:%s" % (rule, f.id), good, "sample = base + random_biguint_below(rng, len)",
            "UniformBigUint::sample is not base + uniform[0, len)", loc=f.loc)
    except Skip:
        pass
    ctx.floor(rule, 9)


def run_bernoulli(ctx):
    rule = "R-C15.B"
    try:
        f = fn_at(ctx, rule, "sample_bernoulli")
        g = ctx.guards(f)
        K = "%s:%s:" % (rule, f.id)
        rds = [rd for rd in g.retdefs if rd.expr is not None]
        good = False
        detail = [fmt(r.expr)[:200] for r in rds]
        if len(rds) == 1 and rds[0].expr[0] == "bin" and rds[0].expr[1] in ("Le", "Lt", "Ge", "Gt"):
            op, a, bb = rds[0].expr[1], rds[0].expr[2], rds[0].expr[3]
            if numer(Local(1))(a):
                op, a, bb = SWAP[op], bb, a
            if numer(Local(1))(bb) and Call("sample", Any(), RNG)(a):
                rng_src = strip(a[2][0])
                d = denom(Local(1))
                # accepted outcomes must number exactly numer(gamma)
                if Call("new_inclusive", one, d)(rng_src) and op == "Le":
                    good = True      # s in [1, d], s <= n  : n outcomes
                elif Call("new", zero, d)(rng_src) and op == "Lt":
                    good = True      # s in [0, d), s < n   : n outcomes
        req(ctx, rule, K + "accept-count", good, "returns s <= numer for s uniform on [1, denom] (numer of denom outcomes accept)",
            "sample_bernoulli does not accept exactly numer(gamma) of denom(gamma) equally likely outcomes: %s" % detail, loc=f.loc)
        good = len(calls_named(ctx, f, "sample")) == 1
        req(ctx, rule, K + "one-draw", good, "one uniform draw per call", "sample_bernoulli draws more or less than once", loc=f.loc)
    except Skip:
        pass
    ctx.floor(rule, 2)

    rule = "R-C15.E1"
    try:
        f = fn_at(ctx, rule, "sample_bernoulli_exp1")
        g = ctx.guards(f)
        b = f.body
        K = "%s:%s:" % (rule, f.id)
        te = truth_edges(g, Call("sample_bernoulli", Bin("Div", Local(1), AnyLocal()), RNG))
        tt = [e for e in te if e.cond[2] is True]
        ff = [e for e in te if e.cond[2] is False]
        inc = calls_named(ctx, f, "add_assign")
        rds = [rd for rd in g.retdefs if rd.expr is not None]
        good = len(tt) == 1 and len(ff) == 1 and len(inc) == 1 and len(rds) == 1
        if good:
            kterm = tt[0].cond[1][2][0][3]
            init = g.eb.init_expr(kterm[1]) if kterm[0] == "phi" else None
            lp = g.loop_of(tt[0].block)
            good = init is not None and one(init) and lp is not None and \
                inc[0][1][2][0] == kterm and Lit(1)(inc[0][1][2][1]) and b.dominates(tt[0].target, inc[0][0]) and inc[0][0] in lp[1] and \
                not returns_from(b, tt[0].target, lp[0]) and \
                Call("is_odd", lambda x: x == kterm)(rds[0].expr) and b.dominates(ff[0].target, rds[0].block) and \
                len(calls_named(ctx, f, "sample_bernoulli")) == 1
        req(ctx, rule, K + "series", good, "k = 1; loop { if bernoulli(gamma / k) { k += 1 } else { return k is odd } }",
            "sample_bernoulli_exp1 is not the alternating-series sampler (k from 1, trial gamma/k, increment on success, parity of k on failure)", loc=f.loc)
    except Skip:
        pass
    ctx.floor(rule, 1)

    rule = "R-C15.E"
    try:
        f = fn_at(ctx, rule, "sample_bernoulli_exp")
        g = ctx.guards(f)
        b = f.body
        K = "%s:%s:" % (rule, f.id)
        unit = Call("sample_bernoulli_exp1", one, RNG)
        te = truth_edges(g, unit)
        ff = [e for e in te if e.cond[2] is False]
        tt = [e for e in te if e.cond[2] is True]
        rds = g.retdefs
        fl = Call("floor", Local(1))
        good = len(ff) == 1 and len(tt) == 1 and len(rds) == 2
        if good:
            class _E:
                block = ff[0].block
            src = ctx.loop_source(f, _E)
            lp = g.loop_of(ff[0].block)
            rfalse = [rd for rd in rds if rd.kind == "false"]
            rcall = [rd for rd in rds if rd.kind == "call"]
            good = src is not None and Call("range_inclusive", one, S(Call("to_integer", fl)))(src) and not adapters_in(src) and lp is not None and \
                len(rfalse) == 1 and len(rcall) == 1 and set(rd.kind for rd in ff[0].leads) == {"false"} and \
                not returns_from(b, tt[0].target, lp[0]) and \
                Call("sample_bernoulli_exp1", Bin("Sub", Local(1), fl), RNG)(rcall[0].expr) and rcall[0].block not in lp[1]
        req(ctx, rule, K + "integer-then-fraction", good,
            "for _ in 1..=floor(gamma) { if !exp1(1) { return false } }; exp1(gamma - floor(gamma))",
            "sample_bernoulli_exp is not floor(gamma) unit trials (any failure -> false) followed by the fractional-part trial", loc=f.loc)
    except Skip:
        pass
    ctx.floor(rule, 1)


def run_geometric(ctx):
    rule = "R-C15.G"
    try:
        f = fn_at(ctx, rule, "sample_geometric_exp")
    except Skip:
        return
    g = ctx.guards(f)
    b = f.body
    K = "%s:%s:" % (rule, f.id)
    t = denom(Local(1))
    s = numer(Local(1))
    # zero shortcut
    z = [e for e in truth_edges(g, Call("is_zero", Local(1))) if e.cond[2] is True]
    good = len(z) == 1 and z[0].leads and all(rd.expr is not None and zero(rd.expr) for rd in z[0].leads)
    req(ctx, rule, K + "zero", good, "gamma == 0 -> 0", "the gamma == 0 shortcut does not return 0", loc=f.loc)
    usample = Call("sample", S(Call("new", zero, t)), RNG)
    te = truth_edges(g, Call("sample_bernoulli_exp1", Call("new", Or(AnyLocal(), usample), t), RNG))
    tt = [e for e in te if e.cond[2] is True]
    ff = [e for e in te if e.cond[2] is False]
    good = len(tt) == 1 and len(ff) == 1
    uterm = None
    if good:
        uterm = tt[0].cond[1][2][0][2][0]
        lp = g.loop_of(tt[0].block)
        leaves = lp is not None and not returns_from(b, ff[0].target, lp[0]) and not [x for x in b.reach_from(tt[0].target) if x == lp[0]]
        if uterm[0] == "phi":
            # `let mut u = draw(); while !accept(u) { u = draw(); }`: both definitions are draws, the second on the reject edge
            defs = phi_defs(g, uterm[1])
            good = leaves and len(defs) == 2 and all(usample(d[0]) for d in defs) and \
                any(d[2] not in lp[1] for d in defs) and any(d[2] in lp[1] and b.dominates(ff[0].target, d[2]) for d in defs)
        else:
            # `let u = loop { let c = draw(); if accept(c) { break c } }`: one draw per iteration, inside the loop
            draws = [bi for bi, c in calls_named(ctx, f, "sample") if c == uterm]
            good = leaves and usample(uterm) and len(draws) == 1 and draws[0] in lp[1] and b.dominates(draws[0], tt[0].block)
    req(ctx, rule, K + "u-rejection", good, "u uniform on [0, t); redrawn until bernoulli_exp1(u / t) succeeds",
        "u is not drawn uniformly from [0, denom) and redrawn until Bernoulli(exp(-u/t)) accepts", loc=f.loc)
    te2 = truth_edges(g, Call("sample_bernoulli_exp1", one, RNG))
    tt2 = [e for e in te2 if e.cond[2] is True]
    ff2 = [e for e in te2 if e.cond[2] is False]
    inc = calls_named(ctx, f, "add_assign")
    rds = [rd for rd in g.retdefs if rd.expr is not None and not zero(rd.expr)]
    good = len(tt2) == 1 and len(ff2) == 1 and len(inc) == 1 and len(rds) == 1
    vterm = None
    if good:
        vterm = inc[0][1][2][0]
        init = g.eb.init_expr(vterm[1]) if vterm[0] == "phi" else None
        lp2 = g.loop_of(tt2[0].block)
        good = init is not None and zero(init) and lp2 is not None and Lit(1)(inc[0][1][2][1]) and \
            b.dominates(tt2[0].target, inc[0][0]) and inc[0][0] in lp2[1] and not returns_from(b, tt2[0].target, lp2[0]) and \
            b.dominates(ff2[0].target, rds[0].block)
    req(ctx, rule, K + "v-count", good, "v = number of consecutive successes of bernoulli_exp1(1), starting from 0",
        "v does not count the successes of Bernoulli(exp(-1)) before the first failure, starting from 0", loc=f.loc)
    good = False
    if len(rds) == 1 and uterm is not None and vterm is not None:
        e = rds[0].expr
        if Bin("Div")(e) and s(e[3]):
            def atomize(x):
                if x == uterm:
                    return ("u",)
                if x == vterm:
                    return ("v",)
                if t(x):
                    return ("t",)
                return None
            want = polymod.Poly.atom(("u",)) + polymod.Poly.atom(("t",)) * polymod.Poly.atom(("v",))
            good = polymod.to_poly(e[2], atomize) == want
    req(ctx, rule, K + "result", good, "result = (u + t*v) / s  (integer division)",
        "the result is not floor((u + t*v) / s): %s" % [fmt(r.expr)[:160] for r in rds], loc=f.loc)
    ctx.floor(rule, 4)


def run_laplace(ctx):
    rule = "R-C15.L"
    try:
        f = fn_at(ctx, rule, "sample_discrete_laplace")
    except Skip:
        return
    g = ctx.guards(f)
    b = f.body
    K = "%s:%s:" % (rule, f.id)
    sign = Call("sample_bernoulli", Call("new", one, S(Lit(2))), RNG)
    mag = S(Call("sample_geometric_exp", Call("recip", Local(1)), RNG))
    z = [e for e in truth_edges(g, Call("is_zero", numer(Local(1)))) if e.cond[2] is True]
    good = len(z) == 1 and z[0].leads and all(rd.expr is not None and zero(rd.expr) for rd in z[0].leads)
    req(ctx, rule, K + "zero-scale", good, "scale == 0 -> 0", "the zero-scale shortcut does not return 0", loc=f.loc)
    rds = [rd for rd in g.retdefs if rd.expr is not None and not zero(rd.expr)]
    neg = [rd for rd in rds if rd.expr[0] == "un" and rd.expr[1] == "Neg" and mag(rd.expr[2])]
    pos = [rd for rd in rds if mag(rd.expr)]
    good = len(rds) == 2 and len(neg) == 1 and len(pos) == 1
    if good:
        cn = block_conditions(g, neg[0].block)
        cp = block_conditions(g, pos[0].block)
        good = any(c[0] == "truth" and sign(c[1]) and c[2] is True for c in cn) and any(c[0] == "truth" and sign(c[1]) and c[2] is False for c in cp)
    req(ctx, rule, K + "sign", good, "returns -y when the fair coin is heads and y otherwise, y = geometric(1/scale)",
        "the result is not (negative ? -y : y) with negative = Bernoulli(1/2) and y = geometric_exp(1/scale)", loc=f.loc)
    zs = [e for e in truth_edges(g, Call("is_zero", mag)) if e.cond[2] is True]
    good = len(zs) == 1
    if good:
        lp = g.loop_of(zs[0].block)
        conds = block_conditions(g, zs[0].block)
        good = lp is not None and any(c[0] == "truth" and sign(c[1]) and c[2] is True for c in conds) and \
            not returns_from(b, zs[0].target, lp[0])
        # and the draws are inside the loop (redrawn on rejection)
        sc = calls_named(ctx, f, "sample_bernoulli")
        gc = calls_named(ctx, f, "sample_geometric_exp")
        good = good and len(sc) == 1 and len(gc) == 1 and sc[0][0] in lp[1] and gc[0][0] in lp[1]
    req(ctx, rule, K + "negative-zero-rejected", good, "negative && y == 0 -> redraw both (no return)",
        "negative zero is not rejected by redrawing sign and magnitude", loc=f.loc)
    ctx.floor(rule, 3)


def run_gaussian(ctx):
    rule = "R-C15.GA"
    try:
        f = fn_at(ctx, rule, "sample_discrete_gaussian")
    except Skip:
        return
    g = ctx.guards(f)
    b = f.body
    K = "%s:%s:" % (rule, f.id)
    sigma = Local(1)
    tpat = Bin("Add", Call("floor", sigma), one, commutative=True)
    y = Call("sample_discrete_laplace", tpat, RNG)
    yabs = S(Call("new", Field(Call("to_u32_digits", y), name="1")))
    summand = Bin("Div", Call("pow", sigma, Lit(2)), tpat)
    z = [e for e in truth_edges(g, Call("is_zero", sigma)) if e.cond[2] is True]
    good = len(z) == 1 and z[0].leads and all(rd.expr is not None and S(Lit(0))(rd.expr) for rd in z[0].leads)
    req(ctx, rule, K + "zero-sigma", good, "sigma == 0 -> 0", "the sigma == 0 shortcut does not return 0", loc=f.loc)
    acc = truth_edges(g, Call("sample_bernoulli_exp", AnyLocal(), RNG))
    tt = [e for e in acc if e.cond[2] is True]
    ff = [e for e in acc if e.cond[2] is False]
    rds = [rd for rd in g.retdefs if rd.expr is not None and not S(Lit(0))(rd.expr)]
    good = len(tt) == 1 and len(ff) == 1 and len(rds) == 1 and y(rds[0].expr)
    if good:
        lp = g.loop_of(tt[0].block)
        lc = calls_named(ctx, f, "sample_discrete_laplace")
        good = lp is not None and b.dominates(tt[0].target, rds[0].block) and not returns_from(b, ff[0].target, lp[0]) and \
            len(lc) == 1 and lc[0][0] in lp[1]
    req(ctx, rule, K + "proposal", good, "loop { y = laplace(floor(sigma) + 1); if bernoulli_exp(prob) { return y } }",
        "the Gaussian sampler is not rejection from Laplace(t = floor(sigma) + 1) returning the accepted proposal", loc=f.loc)
    # acceptance probability
    good = False
    detail = None
    if tt:
        pterm = tt[0].cond[1][2][0]
        defs = phi_defs(g, pterm[1]) if pterm[0] == "phi" else [(pterm, [], None)]
        oks = 0
        detail = [fmt(d[0])[:200] for d in defs]
        clos = None
        for d, conds, bi in defs:
            if d[0] == "call" and d[2] and isinstance(d[2][0], tuple) and d[2][0][0] == "closure":
                clos = d[2][0]
                arg = d[2][1]
                if arg[0] == "agg" and arg[2]:
                    arg = arg[2][0]
                lt = any(c[0] == "rel" and ((c[1] == "Lt" and yabs(c[2]) and summand(c[3])) or (c[1] == "Gt" and summand(c[2]) and yabs(c[3]))) for c in conds)
                ge = any(c[0] == "rel" and ((c[1] == "Ge" and yabs(c[2]) and summand(c[3])) or (c[1] == "Le" and summand(c[2]) and yabs(c[3]))) for c in conds)
                if lt and Bin("Sub", summand, yabs)(arg):
                    oks += 1
                elif ge and Bin("Sub", yabs, summand)(arg):
                    oks += 1
        good = oks == 2 and len(defs) == 2
        if good and clos is not None:
            # the closure's value with captured values substituted (computed inside the closure or hoisted out of it)
            cr = closure_ret_in_parent(ctx, clos)
            sg = S(sigma)
            two_s2 = Bin("Mul", S(Call("pow", sg, Lit(2))), S(Lit(2)))
            want = Bin("Mul", Call("pow", Local(2), Lit(2)), S(Call("recip", S(two_s2))))
            alt = Bin("Div", Call("pow", Local(2), Lit(2)), S(two_s2))
            good = cr is not None and (want(cr) or alt(cr))
            if not good:
                detail = [fmt(cr)[:200] if cr else None]
    req(ctx, rule, K + "acceptance", good, "prob = (|y| - sigma^2/t)^2 / (2 sigma^2), with the subtraction ordered by the comparison",
        "the acceptance probability is not exp(-( |y| - sigma^2/t )^2 / (2 sigma^2)): %s" % detail, loc=f.loc)
    ctx.floor(rule, 3)


def run_noise(ctx):
    prog = ctx.prog
    rule = "R-C15.S"
    for strat, ctor in (("DiscreteLaplaceDpStrategy", "DiscreteLaplace"), ("DiscreteGaussianDpStrategy", "DiscreteGaussian")):
        try:
            f = ctx.fn(rule, name="create_distribution", self_adt=DIST + strat)
            g = ctx.guards(f)
            rds = [rd for rd in g.retdefs if rd.expr is not None]
            eps = Field(Field(Field(Local(1), "budget"), "epsilon"), "0")
            good = len(rds) == 1 and Call("new", Agg("Rational", Bin("Div", Field(Local(2), "0"), eps)))(rds[0].expr) and ctor in fmt(rds[0].expr)
            req(ctx, rule, "%s:%s" % (rule, f.id), good, "scale = sensitivity / budget.epsilon",
                "create_distribution does not build the sampler with sensitivity / epsilon: %s" % [fmt(r.expr)[:160] for r in rds], loc=f.loc)
        except Skip:
            pass
    for adt, inner in (("DiscreteLaplace", "sample_discrete_laplace"), ("DiscreteGaussian", "sample_discrete_gaussian")):
        try:
            f = ctx.fn(rule, name="sample", trait="Distribution", self_adt=DIST + adt)
            g = ctx.guards(f)
            rds = [rd for rd in g.retdefs if rd.expr is not None]
            fld = "scale" if adt == "DiscreteLaplace" else "std"
            good = len(rds) == 1 and Call(inner, Field(Field(Local(1), fld), "0"), RNG)(rds[0].expr)
            req(ctx, rule, "%s:%s" % (rule, f.id), good, "sample = %s(&self.%s, rng)" % (inner, fld),
                "Distribution::sample does not call %s with the stored parameter" % inner, loc=f.loc)
        except Skip:
            pass
    ctx.floor(rule, 4)

    rule = "R-C15.N"
    try:
        f = ctx.fn(rule, name="add_iid_noise_to_field_vec", id_re=r"^flp::types::dp::add_iid_noise_to_field_vec$")
        g = ctx.guards(f)
        b = f.body
        K = "%s:%s:" % (rule, f.id)
        sm = calls_named(ctx, f, "sample")
        ad = calls_named(ctx, f, "add_assign")
        good = len(sm) == 1 and len(ad) == 1 and g.loop_of(sm[0][0]) is not None
        if good:
            class _E:
                block = sm[0][0]
            src = ctx.loop_source(f, _E)
            lp = g.loop_of(sm[0][0])
            latches = [t for (t, hh) in b.back_edges() if hh == lp[0]]
            draw = sm[0][1]
            item = Field(Call("next"), name="0", variant="Some")
            noise = ad[0][1][2][1]
            red = Call("mod_floor", lambda x: x == draw, S(Call("modulus")))
            good = src is not None and Local(1)(src) and not adapters_in(src) and Local(3)(draw[2][0]) and RNG(draw[2][1]) and \
                all(b.dominates(sm[0][0], t) for t in latches) and ad[0][0] in lp[1] and b.dominates(sm[0][0], ad[0][0]) and \
                item(ad[0][1][2][0]) and Mentions(red)(noise) and \
                not [x for x in walk(noise) if isinstance(x, tuple) and x[0] == "bin" and x[1] == "Rem"] and \
                len([x for x in walk(noise) if x == draw]) == 1
            # the accepting return is after the loop
            acc = g.accept_defs(("err",))
            good = good and len(acc) == 1 and b.dominates(lp[0], acc[0].block)
        req(ctx, rule, K + "per-coordinate", good,
            "for entry in field_vec.iter_mut() { *entry += F::from(sample(rng).mod_floor(modulus)) } - one draw per coordinate",
            "noise is not drawn once per coordinate inside the loop over all coordinates, floor-reduced by the modulus and added to the entry", loc=f.loc)
        ctx.require_try_call(rule, f, Mentions(Call("mod_floor")), dominates=False, desc="conversion error of the reduced noise",
                             key=K + "conversion-error-propagated")
    except Skip:
        pass
    # per-type sensitivities
    sens = {
        "flp::types::SumVec": ("(2^bits - 1) * len",
                               lambda e: Bin("Mul", S(Bin("Sub", Mentions(Call("checked_shl", Lit(1), S(Field(Local(1), "bits")))), Lit(1))),
                                             S(Field(Local(1), "len")), commutative=True)(strip(e))),
        "flp::types::Histogram": ("2", lambda e: Lit(2)(strip(strip(e)))),
        "flp::types::l1boundsum::L1BoundSum": ("2 * max_value (big-integer product)",
                                               lambda e: S(Bin("Mul", Cast(Field(Local(1), "max_value")), Lit(2), commutative=True))(e)),
    }
    for adt, (doc, pat) in sens.items():
        try:
            f = ctx.fn(rule, name="add_noise", self_adt=adt, id_re=r"^flp::types::dp::")
            g = ctx.guards(f)
            K = "%s:%s:" % (rule, f.id)
            rds = [rd for rd in g.retdefs if rd.kind == "call"]
            good = len(rds) == 1 and Call("add_iid_noise_to_field_vec", Local(3), Local(4), Try(Call("create_distribution", Local(2))))(rds[0].expr)
            req(ctx, rule, K + "applies", good, "add_iid_noise_to_field_vec(agg_result, rng, create_distribution(sensitivity)?)",
                "add_noise does not apply the strategy's distribution to the whole aggregate with the given rng", loc=f.loc)
            if good:
                sv = rds[0].expr[2][2][1][2][1]
                req(ctx, rule, K + "sensitivity", pat(sv), "sensitivity = %s" % doc,
                    "sensitivity is not the documented %s: %s" % (doc, fmt(sv)[:200]), loc=f.loc)
        except Skip:
            pass
    for f in ctx.fns(rule, 6, name="add_noise_to_agg_share", trait="TypeWithNoise"):
        g = ctx.guards(f)
        rds = [rd for rd in g.retdefs if rd.expr is not None]
        good = len(rds) == 1 and Call("add_noise", Local(1), Local(2), Local(3), Call("make_rng"))(rds[0].expr) and \
            "SeedStreamTurboShake128" in (rds[0].expr[2][3][3] or "")
        req(ctx, rule, "%s:%s" % (rule, f.id), good, "add_noise(self, strategy, agg_result, fresh OS-seeded SeedStreamTurboShake128)",
            "add_noise_to_agg_share does not call add_noise on the whole aggregate with a fresh make_rng::<SeedStreamTurboShake128>()", loc=f.loc)
    try:
        f = ctx.fn(rule, name="add_noise_to_agg_share", trait="AggregatorWithNoise", self_adt="vdaf::prio3::Prio3")
        ctx.require_try_call(rule, f, Call("add_noise_to_agg_share", Field(Local(1), "typ"), Local(2), Field(Local(4), "0"), Local(5)),
                             desc="typ.add_noise_to_agg_share(strategy, &mut agg_share.0, n)?", key="%s:%s" % (rule, f.id))
    except Skip:
        pass
    ctx.floor(rule, 15)

    # RNG discipline
    rule = "R-C15.R"
    consumers = {}
    n_fns = 0
    for f in prog.fns:
        if f.body is None or not (f.id.startswith("dp::") or f.id.startswith("<dp::")) or prog.is_test_util(f):
            continue
        n_fns += 1
        for bi, t in f.body.calls():
            p = t.callee.path or ""
            if p.startswith("rand::") or p.startswith("rand_core::"):
                if t.callee.name in ("make_rng", "rng"):
                    continue
                consumers.setdefault(f.id, set()).add(p)
    # exactly one function of dp::* consumes the RNG, it lives in dp::rand_bigint and its only draw is RngExt::fill
    for fid, ps in sorted(consumers.items()):
        if fid.startswith("dp::rand_bigint::") and ps <= {"rand::RngExt::fill"} and len(consumers) == 1:
            ctx.ok(rule, "%s:%s" % (rule, "consumer"), "only consumer of the RNG in dp::* : %s via %s" % (fid, sorted(ps)))
        else:
            ff = [x for x in prog.fns if x.id == fid][0]
            ctx.bad(rule, "%s:%s" % (rule, fid), "%s consumes the RNG directly (%s); the exact-law argument allows only the uniform word fill "
                                                 "of dp::rand_bigint" % (fid, sorted(ps)), loc=ff.loc)
    if not consumers:
        ctx.bad(rule, rule + ":anchor", "no function of dp::* consumes the RNG via RngExt::fill", kind="anchor")
    ctx.count("dp functions scanned", n_fns)
    ctx.floor(rule, 1)


def run(ctx):
    run_uniform(ctx)
    run_bernoulli(ctx)
    run_geometric(ctx)
    run_laplace(ctx)
    run_gaussian(ctx)
    run_noise(ctx)
