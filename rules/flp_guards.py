"""GUARD rules over the FLP core (flp.rs, flp/gadgets.rs, flp/types*.rs); shared by C02 and C05."""
from pat import *
from expr import fmt, walk
from harness import Skip
from rules.common import Elem

FLP = "flp::Flp"


def flp_default(ctx, rule, name):
    return ctx.fn(rule, name=name, id_re=r"^flp::Flp::%s$" % name)


def len_guard(ctx, rule, f, param, accessor, desc=None):
    """param: (name, position); matched by position (names are not part of the interface)"""
    name, idx = param
    return ctx.require_guard(rule, f, "Ne", Len(Arg(idx)), Call(accessor), desc=desc or "len(%s) != %s()" % (name, accessor))


def prove_guards(ctx, rule="R-C05.G.prove"):
    try:
        f = flp_default(ctx, rule, "prove")
    except Skip:
        return
    len_guard(ctx, rule, f, ("input", 2), "input_len")
    len_guard(ctx, rule, f, ("prove_rand", 3), "prove_rand_len")
    len_guard(ctx, rule, f, ("joint_rand", 4), "joint_rand_len")


def query_guards(ctx, rule="R-C05.G.query"):
    try:
        f = flp_default(ctx, rule, "query")
    except Skip:
        return
    len_guard(ctx, rule, f, ("input", 2), "input_len")
    len_guard(ctx, rule, f, ("proof", 3), "proof_len")
    qe = len_guard(ctx, rule, f, ("query_rand", 4), "query_rand_len")
    len_guard(ctx, rule, f, ("joint_rand", 5), "joint_rand_len")
    # the query-randomness length is checked BEFORE the slice is taken apart (split_at panics on a short slice)
    if qe is not None and hasattr(qe, "block"):
        g1 = ctx.guards(f)
        key = "%s:%s:query_rand-length-checked-before-split" % (rule, f.id)
        splits = [bi for bi, t in f.body.calls() if t.callee.name in ("split_at", "split_at_mut") and t.args and Arg(4)(g1.eb.operand(t.args[0]))]
        if splits and all(f.body.dominates(qe.block, bi) for bi in splits):
            ctx.ok(rule, key, "len(query_rand) != query_rand_len() -> Err dominates every query_rand.split_at(..)", loc=f.loc)
        elif splits:
            ctx.bad(rule, key, "query_rand is split before its length is checked: a short slice panics instead of being refused", loc=f.loc)
    # gadget part of the query randomness vs number of gadgets
    ge = ctx.require_guard(rule, f, "Ne", Len(Any()), Len(Call("gadget")), desc="len(query_rand_for_gadgets) != len(gadget())")
    gadget_rand = None
    if ge is not None:
        c = ge.cond
        gadget_rand = c[2][1] if Len(Call("gadget"))(c[3]) else c[3][1]
        # it must be the tail of query_rand after the validity-compression part
        key = "%s:%s:gadget-randomness-is-tail-of-query_rand" % (rule, f.id)
        g0 = ctx.guards(f)
        okk = False
        if gadget_rand[0] == "field" and gadget_rand[2] == "1" and gadget_rand[1][0] == "phi":
            from guards import phi_defs
            defs = phi_defs(g0, gadget_rand[1][1])
            okk = len(defs) == 2 and all(Call("split_at", Arg(4), Any())(d[0]) for d in defs) and \
                any(Call("split_at", Arg(4), Call("eval_output_len"))(d[0]) for d in defs) and \
                any(Call("split_at", Arg(4), Lit(0))(d[0]) for d in defs)
        if okk:
            ctx.ok(rule, key, "query_rand_for_gadgets = query_rand.split_at(eval_output_len() or 0).1", loc=f.loc)
        else:
            ctx.bad(rule, key, "the gadget part of the query randomness is not query_rand.split_at(eval_output_len()|0).1: %s" % fmt(gadget_rand)[:120], loc=f.loc)
    # root-of-unity refusal, for every gadget
    pow_call = Call("pow", Any(), Mentions(Call("wire_poly_len", Mentions(Call("calls")))))
    e = ctx.require_guard(rule, f, "Eq", pow_call, Call("one"), every_iteration=True,
                          desc="r.pow(wire_poly_len(gadget.calls())) == one()  [every gadget]")
    if e is not None:
        src = ctx.loop_source(f, e)
        key = "%s:%s:root-of-unity-loop-covers-all-gadgets" % (rule, f.id)
        bad_adapters = ("skip", "take", "step_by", "rev", "filter", "skip_while", "take_while")
        if src is None:
            ctx.bad(rule, key, "cannot identify the iterator of the root-of-unity loop", loc=f.loc)
        else:
            has_gadget = Mentions(Call("gadget"))(src) and gadget_rand is not None and Call("zip", Any(), lambda x: x == gadget_rand)(src)
            adapters = [x[1] for x in walk(src) if isinstance(x, tuple) and x[0] == "call"
                        and x[1].split("::")[-1] in bad_adapters]
            g = ctx.guards(f)
            lp = g.loop_of(e.block)
            hdr_dom = all(f.body.dominates(lp[0], rd.block) for rd in g.accept_defs(("err",)))
            if has_gadget and not adapters and hdr_dom:
                ctx.ok(rule, key, "loop iterates %s and its header dominates the accepting return" % fmt(src)[:200],
                       loc=f.loc)
            else:
                ctx.bad(rule, key, "root-of-unity loop does not cover every gadget: source=%s adapters=%s header-dominates-accept=%s"
                        % (fmt(src)[:200], adapters, hdr_dom), loc=f.loc)
        # the point at which the gadget polynomials are evaluated later is the checked randomness
        key3 = "%s:%s:evaluation-point-is-the-checked-randomness" % (rule, f.id)
        g3 = ctx.guards(f)
        evs = [(bi, g3.eb.call_expr(t)) for bi, t in f.body.calls() if t.callee.name == "poly_eval_lagrange_batched"]
        okk = bool(evs) and gadget_rand is not None
        for bi, ce in evs:
            class _E:
                block = bi
            s2 = ctx.loop_source(f, _E)
            if s2 is None or not Call("zip", lambda x: x == gadget_rand, Any())(s2):
                okk = False
            pt = ce[2][1]
            if not (pt[0] == "field" and pt[2] == "0" and Mentions(Call("next"))(pt)):
                okk = False
        if okk:
            ctx.ok(rule, key3, "poly_eval_lagrange_batched is evaluated at the elements of the checked gadget randomness", loc=f.loc)
        else:
            ctx.bad(rule, key3, "gadget polynomials are not evaluated at the randomness that was checked against roots of unity", loc=f.loc)
        # the refusal must precede any use of the proof in the gadget shims: the loop dominates the
        # construction of the query shims (the `map` closure over gadget())
        g = ctx.guards(f)
        shim_blocks = [bi for bi, t in f.body.calls() if t.callee.name in ("collect",) or
                       (t.callee.path or "").endswith("Iterator::map")]
        lp = g.loop_of(e.block)
        key2 = "%s:%s:root-of-unity-before-shims" % (rule, f.id)
        if shim_blocks and lp is not None and all(f.body.dominates(lp[0], b) for b in shim_blocks):
            ctx.ok(rule, key2, "root-of-unity loop dominates the construction of the query shims", loc=f.loc)
        else:
            ctx.bad(rule, key2, "root-of-unity loop does not dominate the construction of the query shims", loc=f.loc)


def decide_guards(ctx, rule="R-C05.G.decide"):
    try:
        f = flp_default(ctx, rule, "decide")
    except Skip:
        return
    len_guard(ctx, rule, f, ("verifier", 2), "verifier_len")
    ctx.require_guard(rule, f, "Ne", Index(Arg(2), Lit(0)), Call("zero"), refusal=("ok_false",),
                      desc="verifier[0] != zero() -> Ok(false)", dominates=False)
    # accept (Ok(true)) must be dominated by it
    g = ctx.guards(f)
    e = ctx.require_guard(rule, f, "Ne", Mentions(Call("eval")), Index(Arg(2), Any()),
                          refusal=("ok_false",), every_iteration=True,
                          desc="gadget.eval(wire_checks)? != gadget_check -> Ok(false)  [every gadget]")
    key = "%s:%s:accept-dominated" % (rule, f.id)
    trues = [rd for rd in g.retdefs if rd.kind in ("ok_true", "ok", "call", "val")]
    zero_edge = None
    for ed in g.edges:
        c = ed.cond
        if c[0] == "rel" and c[1] == "Ne" and set(rd.kind for rd in ed.leads) == {"ok_false"} and \
                Index(Arg(2), Lit(0))(c[2]):
            zero_edge = ed
    if zero_edge is not None and trues and all(f.body.dominates(zero_edge.block, rd.block) for rd in trues):
        ctx.ok(rule, key, "every accepting return of decide is dominated by the circuit-output check", loc=f.loc)
    else:
        ctx.bad(rule, key, "an accepting return of decide is not dominated by the `verifier[0] != 0` check", loc=f.loc)
    if e is not None:
        src = ctx.loop_source(f, e)
        key = "%s:%s:gadget-loop-covers-all" % (rule, f.id)
        adapters = [x[1] for x in walk(src) if isinstance(x, tuple) and x[0] == "call"
                    and x[1].split("::")[-1] in ("skip", "take", "step_by", "filter", "skip_while", "take_while")] if src else ["?"]
        lp = g.loop_of(e.block)
        # the only accepting return must be after the loop: header dominates it
        hdr_dom = all(f.body.dominates(lp[0], rd.block) for rd in trues)
        if src is not None and Mentions(Call("gadget"))(src) and not adapters and hdr_dom:
            ctx.ok(rule, key, "gadget-check loop iterates %s" % fmt(src)[:160], loc=f.loc)
        else:
            ctx.bad(rule, key, "gadget-check loop does not cover every gadget: source=%s adapters=%s" % (
                fmt(src)[:160] if src else None, adapters), loc=f.loc)
        # the wire-check slice passed to eval must be the arity-long window and the compared element the
        # one right after it (whole window, not a prefix)
        c = e.cond
        lhs, rhs = (c[2], c[3]) if Mentions(Call("eval"))(c[2]) else (c[3], c[2])
        key = "%s:%s:gadget-window" % (rule, f.id)
        if Mentions(Call("arity"))(lhs):
            ctx.ok(rule, key, "eval receives verifier[i .. i + arity()]", loc=f.loc)
        else:
            ctx.bad(rule, key, "window handed to gadget.eval is not bounded by the gadget's arity: %s" % fmt(lhs)[:200], loc=f.loc)


def call_check_guards(ctx, rule="R-C05.G.callcheck"):
    try:
        f = flp_default(ctx, rule, "valid_call_check")
        len_guard(ctx, rule, f, ("input", 2), "input_len")
        len_guard(ctx, rule, f, ("joint_rand", 3), "joint_rand_len")
    except Skip:
        pass
    try:
        f = flp_default(ctx, rule, "truncate_call_check")
        len_guard(ctx, rule, f, ("input", 2), "input_len")
    except Skip:
        pass
    # every Flp impl's `valid` either checks through valid_call_check(input, joint_rand)? or delegates
    # to another impl's valid with the same input/joint_rand
    valids = ctx.fns(rule, 6, name="valid", trait="Flp")
    for f in valids:
        if f.impl is None:
            continue
        g = ctx.guards(f)
        key = "%s:%s:valid-call-check" % (rule, f.id)
        delegated = [rd for rd in g.retdefs if rd.kind == "call" and Call("valid", Any(), Any(), Arg(3), Arg(4))(rd.expr)]
        if delegated and len(g.retdefs) == 1:
            ctx.ok(rule, key, "%s delegates to %s" % (f.id, fmt(delegated[0].expr)[:100]), loc=f.loc)
            continue
        ctx.require_try_call(rule, f, Call("valid_call_check", Any(), Arg(3), Arg(4)),
                             desc="valid_call_check(input, joint_rand)", key=key)
    truncs = ctx.fns(rule, 6, name="truncate", trait="Type")
    for f in truncs:
        if f.impl is None:
            continue
        g = ctx.guards(f)
        key = "%s:%s:truncate-call-check" % (rule, f.id)
        delegated = [rd for rd in g.retdefs if rd.kind == "call" and Call("truncate")(rd.expr)]
        if delegated and len(g.retdefs) == 1:
            ctx.ok(rule, key, "%s delegates to %s" % (f.id, fmt(delegated[0].expr)[:100]), loc=f.loc)
            continue
        ctx.require_try_call(rule, f, Call("truncate_call_check"), desc="truncate_call_check(input)", key=key)


def gadget_guards(ctx, rule="R-C05.G.gadget"):
    try:
        f = ctx.fn(rule, name="gadget_eval_check", id_re=r"^flp::gadgets::gadget_eval_check$")
        ctx.require_guard(rule, f, "Ne", Arg(2), Call("arity"), desc="in_len != arity()")
        ctx.require_guard(rule, f, "Eq", Arg(2), Lit(0), desc="in_len == 0")
    except Skip:
        pass
    try:
        f = ctx.fn(rule, name="gadget_eval_poly_check", id_re=r"^flp::gadgets::gadget_eval_poly_check$")
        ctx.require_try_call(rule, f, Call("gadget_eval_check", Any(), Len(Arg(3))), desc="gadget_eval_check(gadget, inp.len())")
        ctx.require_guard(rule, f, "Ne", Len(Elem(Arg(3), allow=("skip",), g=ctx.guards(f))), Len(Index(Arg(3), Lit(0))),
                          every_iteration=True, desc="len(inp[i]) != len(inp[0])  [every wire]")
        ctx.require_guard(rule, f, "Ne", Len(Arg(2)),
                          Call("next_power_of_two", Call("gadget_poly_len", Call("degree"), Len(Index(Arg(3), Lit(0))))),
                          desc="len(outp) != npo2(gadget_poly_len(degree, len(inp[0])))")
    except Skip:
        pass
    # every gadget impl's eval / eval_poly starts with the check (or delegates)
    evals = ctx.fns(rule, 4, name="eval", trait="Gadget", id_re=r"flp::gadgets::")
    for f in evals:
        g = ctx.guards(f)
        key = "%s:%s:eval-check" % (rule, f.id)
        delegated = [rd for rd in g.retdefs if rd.kind == "call" and Call("eval")(rd.expr)]
        if delegated and len(g.retdefs) == 1:
            ctx.ok(rule, key, "%s delegates to %s" % (f.id, fmt(delegated[0].expr)[:100]), loc=f.loc)
            continue
        ctx.require_try_call(rule, f, Call("gadget_eval_check", Any(), Len(Arg(2))), desc="gadget_eval_check(self, inp.len())", key=key)
    polys = ctx.fns(rule, 4, name="eval_poly", trait="Gadget", id_re=r"flp::gadgets::")
    for f in polys:
        key = "%s:%s:eval-poly-check" % (rule, f.id)
        ctx.require_try_call(rule, f, Call("gadget_eval_poly_check", Any(), Arg(2), Arg(3)),
                             desc="gadget_eval_poly_check(self, outp, inp)", key=key)


def all_c05(ctx):
    prove_guards(ctx)
    query_guards(ctx)
    decide_guards(ctx)
    call_check_guards(ctx)
    gadget_guards(ctx)
