from pat import *
from expr import fmt, walk
from harness import Skip
import dep as depmod

INFO = {
    "explanation": "DEP (must-not-depend) over MIR: an interprocedural may-depend analysis of explicit data flows (field- and "
                   "tuple-sensitive, alias-aware, closures and iterator adapters modelled, class-hierarchy analysis for "
                   "trait calls) shows that no operand of any Prio3 helper input share, no value stored into the share "
                   "vector other than the leader share, no field of either Poplar1 input share and neither IDPF key "
                   "returned by key generation may depend on the measurement; and that the leader's measurement and "
                   "proof shares are written only by their initial copy of the encoding / proof and by subtracting "
                   "measurement-independent masks. The may-depend sets over-approximate, so absence of the "
                   "measurement is a proof of non-interference for explicit flows; leaks through branching on the "
                   "measurement (control dependence) are NOT decided.",
    "trusted_base": ["rustc type checker and MIR construction (nightly)", "sa/dep.py models of std combinators and iterator adapters"],
    "assumptions": ["explicit (data) flows only; no unsafe aliasing on these paths (checked: no raw-pointer writes in the analysed functions)",
                    "external (non-crate) callees write only through their &mut arguments"],
}


def fmt_atoms(atoms, f):
    out = []
    for a in sorted(atoms, key=str):
        if a[0] == "p":
            out.append("%s%s" % (f.param_name(a[1]), "." + ".".join(map(str, a[2])) if a[2] else ""))
    return out


def run(ctx):
    prog = ctx.prog
    D = depmod.Dep(prog)

    # ---------------- Prio3
    rule = "R-C17.N.prio3-helper"
    try:
        f = ctx.fn(rule, name="shard_with_random", self_adt="vdaf::prio3::Prio3", trait="")
        fa = D.analysis(f)
        meas = 3   # (self, ctx, measurement, nonce, random)
        if f.param_name(meas) != "measurement":
            ctx.note("parameter 3 of shard_with_random is named %s" % f.param_name(meas))
        n = 0
        fns = [f] + prog.closures_of(f)
        for g in fns:
            ga = D.analysis(g)
            for bi, si, s in g.body.iter_stmts():
                if s.rv is not None and s.rv.kind == "agg" and s.rv.agg == "adt" and s.rv.path == "vdaf::prio3::Prio3InputShare" \
                        and s.rv.vname == "Helper":
                    n += 1
                    for i, op in enumerate(s.rv.ops):
                        fld = s.rv.fields[i]
                        atoms = ga.operand_deps(op)
                        key = "%s:%s:Helper.%s" % (rule, g.id, fld)
                        if g is f and depmod.has_param(atoms, meas):
                            ctx.bad(rule, key, "helper share field `%s` may depend on the measurement (explicit flow); depends on %s" % (
                                fld, fmt_atoms(atoms, f)), loc="%s:%s" % (g.file, s.line))
                        else:
                            ctx.ok(rule, key, "Helper.%s depends only on %s" % (fld, fmt_atoms(atoms, g)), loc="%s:%s" % (g.file, s.line),
                                   sample={"rule": rule, "site": "%s:%s" % (g.file, s.line), "field": fld, "may_depend_on": fmt_atoms(atoms, g)})
        if n == 0:
            ctx.bad(rule, rule + ":no-helper-construction", "no Prio3InputShare::Helper construction found in shard_with_random", loc=f.loc, kind="anchor")
        # positive control inside the same analysis: the Leader share must depend on the measurement
        seen_dep = False
        for bi, si, s in f.body.iter_stmts():
            if s.rv is not None and s.rv.kind == "agg" and s.rv.agg == "adt" and s.rv.path == "vdaf::prio3::Prio3InputShare" \
                    and s.rv.vname == "Leader" and s.rv.ops and s.rv.ops[0].kind != "const":
                if depmod.has_param(fa.operand_deps(s.rv.ops[0]), meas):
                    seen_dep = True
        key = rule + ":positive-control"
        if seen_dep:
            ctx.ok(rule, key, "control: Leader.measurement_share does depend on the measurement", nontrivial=False)
        else:
            ctx.bad(rule, key, "control failed: the analysis does not see the measurement in the leader share", kind="control")

        # the helpers' joint-randomness parts (published in the public share) are derived from the helpers' own shares only:
        # every seed pushed into the list of helper parts is measurement-free
        rule_jr = "R-C17.N.prio3-helper-jr-parts"
        gj = ctx.guards(f)
        npush = 0
        for bi, t in f.body.calls():
            if t.callee.name != "push" or len(t.args) != 2:
                continue
            ce = gj.eb.call_expr(t)
            if not Call("into_seed")(ce[2][1]):
                continue
            npush += 1
            atoms = fa.operand_deps(t.args[1])
            key = "%s:%s:push#%d" % (rule_jr, f.id, npush)
            if depmod.has_param(atoms, meas):
                ctx.bad(rule_jr, key, "a helper's joint-randomness part may depend on the measurement (explicit flow into the absorbed bytes); depends on %s" %
                        fmt_atoms(atoms, f), loc="%s:%s" % (f.file, t.line))
            else:
                ctx.ok(rule_jr, key, "helper joint-randomness part depends only on %s" % fmt_atoms(atoms, f), loc="%s:%s" % (f.file, t.line))
        if npush == 0:
            ctx.bad(rule_jr, rule_jr + ":anchor", "no `parts.push(xof.into_seed())` found in shard_with_random", loc=f.loc, kind="anchor")

        # the masking primitive itself: sub_assign_vector(a, b) only ever replaces an element of `a` by (that element - something)
        rule_sv = "R-C17.M.sub-assign-vector"
        try:
            fs = ctx.fn(rule_sv, name="sub_assign_vector", id_re=r"^field::sub_assign_vector$")
            fsa = D.analysis(fs)
            gs = ctx.guards(fs)
            nwr = 0
            bad = []
            for bi, si, st in fs.body.iter_stmts():
                if st.kind != "assign" or not st.place[1] or "*" not in st.place[1] or st.rv is None:
                    continue
                if not depmod.has_param(fsa.local_deps(st.place[0]), 1):
                    continue
                nwr += 1
                cur = gs.eb.place(st.place)
                val = gs.eb.rvalue(st.rv)
                if not (Bin("Sub", lambda e: e == cur, Any())(val) and not any(x == cur for x in walk(val[3]))):
                    bad.append("line %s: %s = %s" % (st.line, fmt(cur)[:60], fmt(val)[:100]))
            for bi, t in fs.body.calls():
                if not t.callee.name.endswith("_assign") or not t.args or t.args[0].kind not in ("copy", "move"):
                    continue
                if not depmod.has_param(fsa.operand_deps(t.args[0]), 1):
                    continue
                nwr += 1
                others = set()
                for v in t.args[1:]:
                    others |= fsa.operand_deps(v)
                if t.callee.name != "sub_assign" or depmod.has_param(others, 1):
                    bad.append("line %s: %s" % (t.line, fmt(gs.eb.call_expr(t))[:120]))
            key = "%s:%s" % (rule_sv, fs.id)
            if nwr and not bad:
                ctx.ok(rule_sv, key, "every write to an element of `a` is `a[i] -= v` with v taken from `b` only (%d write site(s))" % nwr, loc=fs.loc)
            else:
                ctx.bad(rule_sv, key, "sub_assign_vector writes an element of `a` otherwise than by subtracting from it: %s" % (bad or "no write found"), loc=fs.loc)
        except Skip:
            pass

        # every value stored into the share vector is measurement-free or is a Leader share
        rule2 = "R-C17.N.prio3-stores"
        # the returned vector: _0 = Ok((public_share, shares_out))
        from guards import FnGuards
        g0 = ctx.guards(f)
        vec_local = None
        for rd in g0.retdefs:
            if rd.kind == "ok" and rd.payload is not None and rd.payload[0] == "agg" and rd.payload[1] == "tuple" and len(rd.payload[2]) == 2:
                v = rd.payload[2][1]
                if v[0] == "phi":
                    vec_local = v[1]
        if vec_local is None:
            ctx.bad(rule2, rule2 + ":vector", "cannot identify the returned share vector", loc=f.loc, kind="anchor")
        else:
            b = f.body
            # locals aliasing the vector
            def aliases_vec(l):
                seen = set()
                st = [l]
                while st:
                    x = st.pop()
                    if x in seen:
                        continue
                    seen.add(x)
                    if x == vec_local:
                        return True
                    for (bb, p) in fa.alias.get(x, ()):
                        st.append(bb)
                return False
            nst = 0
            for bi, t in b.calls():
                if not t.args:
                    continue
                a0 = t.args[0]
                if a0.kind not in ("copy", "move") or not aliases_vec(a0.place[0]):
                    continue
                nm = t.callee.name
                if nm in ("push", "insert", "extend", "append", "extend_from_slice", "resize", "fill", "swap", "clone_from", "copy_from_slice"):
                    nst += 1
                    key = "%s:%s:%s@%s" % (rule2, f.id, nm, "value")
                    vals = t.args[1:]
                    tainted = [v for v in vals if depmod.has_param(fa.operand_deps(v), meas)]
                    ex = [g0.eb.operand(v) for v in vals]
                    if not tainted or all(Agg("Prio3InputShare::Leader")(e) for e in ex):
                        ctx.ok(rule2, key + ":%d" % nst, "%s(%s): measurement-free or a Leader share" % (nm, ", ".join(fmt(e)[:60] for e in ex)),
                               loc="%s:%s" % (f.file, t.line))
                    else:
                        ctx.bad(rule2, key, "a measurement-dependent value that is not the leader share is stored into the share vector via %s: %s" % (
                            nm, [fmt(e)[:100] for e in ex]), loc="%s:%s" % (f.file, t.line))
            for bi, si, s in b.iter_stmts():
                if s.place is not None and "*" in s.place[1] and aliases_vec(s.place[0]) and s.rv is not None:
                    nst += 1
                    key = "%s:%s:store-through-ref:%d" % (rule2, f.id, nst)
                    ex = g0.eb.rvalue(s.rv)
                    atoms = set()
                    for op in s.rv.ops:
                        atoms |= fa.operand_deps(op)
                    if not depmod.has_param(atoms, meas) or Agg("Prio3InputShare::Leader")(ex):
                        ctx.ok(rule2, key, "store of %s: measurement-free or a Leader share" % fmt(ex)[:80], loc="%s:%s" % (f.file, s.line))
                    else:
                        ctx.bad(rule2, key, "a measurement-dependent value that is not the leader share is written into the share vector: %s" % fmt(ex)[:120],
                                loc="%s:%s" % (f.file, s.line))
            if nst < 3:
                ctx.bad(rule2, rule2 + ":floor", "expected at least 3 stores into the share vector (placeholder, helpers, leader), found %d" % nst, kind="floor")

        # masking shape: every write to the leader's measurement / proof share
        rule3 = "R-C17.M.prio3-mask"
        leader = None
        for bi, si, s in f.body.iter_stmts():
            if s.rv is not None and s.rv.kind == "agg" and s.rv.agg == "adt" and s.rv.path == "vdaf::prio3::Prio3InputShare" \
                    and s.rv.vname == "Leader" and s.rv.ops and s.rv.ops[0].kind != "const":
                leader = s
        if leader is None:
            ctx.bad(rule3, rule3 + ":leader", "no final Leader share construction found", loc=f.loc, kind="anchor")
        else:
            for idx, fld in ((0, "measurement_share"), (1, "proofs_share")):
                op = leader.rv.ops[idx]
                ex = g0.eb.operand(op)
                key = "%s:%s:%s" % (rule3, f.id, fld)
                if ex[0] != "phi":
                    ctx.bad(rule3, key, "leader %s is not a mutable accumulator: %s" % (fld, fmt(ex)[:100]), loc=f.loc)
                    continue
                l = ex[1]
                def aliases_l(x, l=l):
                    seen = set(); st = [x]
                    while st:
                        y = st.pop()
                        if y in seen:
                            continue
                        seen.add(y)
                        if y == l:
                            return True
                        for (bb, p) in fa.alias.get(y, ()):
                            st.append(bb)
                    return False
                writes = []
                okk = True
                for bi, t in f.body.calls():
                    if not t.args:
                        continue
                    a0 = t.args[0]
                    if a0.kind not in ("copy", "move") or not aliases_l(a0.place[0]):
                        continue
                    nm = t.callee.name
                    if nm in ("iter", "len", "as_slice", "deref", "as_ref", "clone", "is_empty", "index", "to_vec"):
                        continue
                    if not fa.arg_is_mut_ref(a0) and nm not in ("sub_assign", "add_assign"):
                        continue
                    others = set()
                    for v in t.args[1:]:
                        others |= fa.operand_deps(v)
                    writes.append(nm)
                    if nm in ("sub_assign_vector", "sub_assign"):
                        if depmod.has_param(others, meas):
                            # element-insensitivity of the share vector: a mask expanded from a helper's own
                            # seed field read back through the Helper-only accessor is measurement-free by
                            # rule R-C17.N.prio3-helper (helper fields are proven measurement-free)
                            mex = [g0.eb.operand(v) for v in t.args[1:]]
                            via_helper_seed = all(Mentions(Call("derive_helper_proofs_share", Any(), Any(),
                                                                Mentions(Call("meas_and_proofs_share")), Any()))(m) for m in mex)
                            if not via_helper_seed:
                                okk = False
                    elif nm in ("iter_mut", "deref_mut", "as_mut_slice", "as_mut", "next", "zip", "into_iter", "index_mut"):
                        continue
                    elif nm == "append" and fld == "proofs_share":
                        # proofs are appended (they depend on the measurement by design)
                        continue
                    else:
                        okk = False
                init = g0.eb.init_expr(l)
                init_ok = init is not None and (fld == "proofs_share" or Mentions(Call("encode_measurement", Any(), Arg(meas)))(init) or
                                                (init[0] == "phi"))
                if okk and "sub_assign_vector" in writes + ["sub_assign_vector"] and any(w in ("sub_assign", "sub_assign_vector") for w in writes):
                    ctx.ok(rule3, key, "leader %s: initial value %s; mutated only by subtracting measurement-independent masks (%s)" % (
                        fld, fmt(init)[:80] if init else "?", sorted(set(writes))), loc=f.loc)
                else:
                    ctx.bad(rule3, key, "leader %s is written by something other than subtraction of a measurement-independent mask: %s" % (
                        fld, sorted(set(writes))), loc=f.loc)
    except Skip:
        pass
    ctx.floor("R-C17.N.prio3-helper", 3)

    # ---------------- Poplar1
    rule = "R-C17.N.poplar1"
    try:
        f = ctx.fn(rule, name="shard_with_random", self_adt="vdaf::poplar1::Poplar1", trait="")
        fa = D.analysis(f)
        inp = 3   # (self, ctx, input, nonce, idpf_random, poplar_random)
        n = 0
        for bi, si, s in f.body.iter_stmts():
            if s.rv is not None and s.rv.kind == "agg" and s.rv.agg == "adt" and s.rv.path == "vdaf::poplar1::Poplar1InputShare":
                n += 1
                for i, op in enumerate(s.rv.ops):
                    fld = s.rv.fields[i]
                    atoms = fa.operand_deps(op)
                    key = "%s:%s:share%d.%s" % (rule, f.id, n, fld)
                    if depmod.has_param(atoms, inp):
                        ctx.bad(rule, key, "Poplar1 input share field `%s` may depend on the measurement (explicit flow); depends on %s" % (
                            fld, fmt_atoms(atoms, f)), loc="%s:%s" % (f.file, s.line))
                    else:
                        ctx.ok(rule, key, "share %d field %s depends only on %s" % (n, fld, fmt_atoms(atoms, f)), loc="%s:%s" % (f.file, s.line))
        if n != 2:
            ctx.bad(rule, rule + ":count", "expected 2 Poplar1InputShare constructions in shard_with_random, found %d" % n, loc=f.loc, kind="anchor")
        # positive control: the public share depends on the input
        g0 = ctx.guards(f)
        for rd in g0.retdefs:
            if rd.kind == "ok":
                st = fa.read_place_struct((0, ()))
                atoms = st.read(("Ok.0", "0"))
                key = rule + ":positive-control"
                if depmod.has_param(atoms, inp):
                    ctx.ok(rule, key, "control: the public share (correction words) does depend on the input", nontrivial=False)
                else:
                    ctx.bad(rule, key, "control failed: public share not seen as input-dependent", kind="control")
    except Skip:
        pass
    ctx.floor(rule, 9)

    rule = "R-C17.N.idpf-keys"
    try:
        f = ctx.fn(rule, name="gen_with_random", self_adt="idpf::Idpf")
        fa = D.analysis(f)
        inp = 2
        st = fa.read_place_struct((0, ()))
        keys = st.read(("Ok.0", "1"))
        pub = st.read(("Ok.0", "0"))
        key = "%s:%s" % (rule, f.id)
        if depmod.has_param(keys, inp):
            ctx.bad(rule, key, "the IDPF keys returned by gen_with_random may depend on the input: %s" % fmt_atoms(keys, f), loc=f.loc)
        elif not depmod.has_param(pub, inp):
            ctx.bad(rule, key + ":control", "control failed: public share not input-dependent", kind="control")
        else:
            ctx.ok(rule, key, "returned keys depend only on %s; the public share depends on %s" % (fmt_atoms(keys, f), fmt_atoms(pub, f)), loc=f.loc)
    except Skip:
        pass
    ctx.floor(rule, 1)
    ctx.count("functions_summarised", len(D.summaries))
