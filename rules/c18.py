from pat import *
from expr import fmt, walk
from harness import Skip
import dep as depmod
from rules import xof_rules

INFO = {
    "explanation": "DEP (must-depend) over MIR, evaluated once per shipped XOF binding (XofTurboShake128, XofHmacSha256Aes128, "
                   "XofFixedKeyAes128): every verification-relevant derived value of Prio3 (the arguments of Flp::query in "
                   "verify_init, the joint-randomness seed kept in the state and the part sent in the verifier share, the "
                   "seed recomputed by the combiner) and of Poplar1 (correlated-randomness stream, sketch randomness, IDPF "
                   "evaluation) depends on the context string, nonce, verification key, aggregator identifier, algorithm "
                   "identifier / usage constants as the property requires; the domain-separation tag depends on VERSION, "
                   "algorithm id and usage; every XOF absorbs all tag parts (so the context, which is a tag part, is "
                   "bound); the aggregator id is range-checked at full width; every constructor of one Prio3 circuit passes the same "
                   "algorithm identifier (the multithreaded ones their serial sibling's), distinct circuits pass distinct ones, "
                   "with the draft's values. The property's exception is checked as "
                   "must-NOT-depend: the state's measurement share and Prio3's verify_next do not depend on the nonce. "
                   "May-depend sets over-approximate, so these rules cannot fire on code that binds the input; they can "
                   "miss an external callee that ignores an argument.",
    "trusted_base": ["rustc type checker and MIR construction (nightly)", "sa/dep.py models of std combinators", "external crates use all their arguments"],
    "assumptions": ["explicit (data) flows only"],
}

XOFS = ["XofTurboShake128", "XofHmacSha256Aes128", "XofFixedKeyAes128"]


def names(atoms, f):
    out = set()
    for a in atoms:
        if a[0] == "p":
            out.add(f.param_name(a[1]) + ("." + ".".join(map(str, a[2])) if a[2] else ""))
        elif a[0] == "c":
            out.add(a[1].split("::")[-1])
    return sorted(out)


# parameter positions (MIR locals; self = 1) by role, so that renaming a parameter in the source changes nothing.
# Trait methods: the order is fixed by the trait; inherent helpers: confirmed by reading, a change of arity fails the anchor.
SIG = {
    "verify_init": {"verify_key": 2, "ctx": 3, "agg_id": 4, "agg_param": 5, "nonce": 6, "public_share": 7, "msg": 8, "input_share": 8},
    "verify_next": {"ctx": 2, "step": 3, "msg": 4},
    "verifier_shares_to_message": {"ctx": 2, "agg_param": 3, "inputs": 4},
    "eval_and_sketch": {"verify_key": 2, "ctx": 3, "agg_id": 4, "nonce": 5, "agg_param": 6, "public_share": 7, "idpf_key": 8, "corr_prng": 9},
    "eval": {"agg_id": 2, "public_share": 3, "key": 4, "prefix": 5, "ctx": 6, "nonce": 7, "cache": 8},
}
ARITY = {"verify_init": 8, "verify_next": 4, "eval_and_sketch": 9, "eval": 8}


def pidx(f, p):
    if not isinstance(p, str):
        return p
    t = SIG.get(f.name)
    if t is not None and p in t and f.body.argc == ARITY.get(f.name, f.body.argc):
        return t[p]
    return f.param_index(p)


def need(ctx, rule, key, atoms, f, params=(), consts=(), fields=(), what="", loc=None):
    missing = []
    for p in params:
        idx = pidx(f, p)
        if idx is None or not depmod.has_param(atoms, idx):
            missing.append(p)
    for c in consts:
        if not depmod.has_const(atoms, c):
            missing.append(c)
    for (pi, fld) in fields:
        if not depmod.has_field(atoms, pi, fld):
            missing.append("%s.%s" % (f.param_name(pi), fld))
    if missing:
        ctx.bad(rule, key, "%s does not depend on %s (explicit flow); it depends on %s" % (what, missing, names(atoms, f)), loc=loc or f.loc)
        return False
    ctx.ok(rule, key, "%s depends on %s" % (what, list(params) + list(consts) + ["%s.%s" % (f.param_name(a), b) for a, b in fields]),
           loc=loc or f.loc, sample={"rule": rule, "sink": what, "requires": [str(x) for x in list(params) + list(consts)], "may_depend_on": names(atoms, f)[:24]})
    return True


def run(ctx):
    prog = ctx.prog
    # ------------- Prio3
    for xof in XOFS:
        D = depmod.Dep(prog, bindings={"vdaf::xof::Xof": xof})
        rule = "R-C18.D.prio3[%s]" % xof
        try:
            f = ctx.fn(rule, name="verify_init", trait="Aggregator", self_adt="vdaf::prio3::Prio3")
            fa = D.analysis(f)
            q = [(bi, t) for bi, t in f.body.calls() if t.callee.name == "query"]
            if len(q) != 1:
                ctx.bad(rule, rule + ":query-site", "expected one Flp::query call in verify_init, found %d" % len(q), kind="anchor")
                raise Skip()
            bi, t = q[0]
            loc = "%s:%s" % (f.file, t.line)
            a = [fa.operand_deps(x) for x in t.args]
            need(ctx, rule, rule + ":query_rand", a[3], f, params=("verify_key", "ctx", "nonce"), consts=("DST_QUERY_RANDOMNESS", "VERSION"),
                 fields=((1, "num_proofs"), (1, "algorithm_id")), what="query randomness", loc=loc)
            need(ctx, rule, rule + ":helper-share-expansion", a[1] | a[2], f, params=("ctx", "agg_id"), consts=("DST_MEASUREMENT_SHARE", "DST_PROOF_SHARE", "VERSION"),
                 fields=((1, "algorithm_id"),), what="expanded helper measurement/proof share", loc=loc)
            need(ctx, rule, rule + ":joint_rand", a[4], f, params=("ctx", "nonce", "agg_id", "public_share", "msg"),
                 consts=("DST_JOINT_RAND_PART", "DST_JOINT_RAND_SEED", "DST_JOINT_RANDOMNESS", "VERSION"), what="joint randomness", loc=loc)
            # state + verifier share
            for bi2, si, s in f.body.iter_stmts():
                if s.rv is not None and s.rv.kind == "agg" and s.rv.agg == "adt" and s.rv.path == "vdaf::prio3::Prio3VerifyState":
                    flds = dict(zip(s.rv.fields, s.rv.ops))
                    need(ctx, rule, rule + ":state.joint_rand_seed", fa.operand_deps(flds["joint_rand_seed"]), f,
                         params=("ctx", "nonce", "agg_id", "public_share", "msg"), consts=("DST_JOINT_RAND_SEED",),
                         what="the joint-randomness seed kept for comparison", loc="%s:%s" % (f.file, s.line))
                    sh = fa.operand_deps(flds["share"])
                    key = rule + ":state.share-not-nonce"
                    if depmod.has_param(sh, pidx(f, "nonce")):
                        ctx.bad(rule, key, "the state's measurement share (source of the output share) depends on the nonce; a consistently "
                                           "substituted nonce would change honest output shares of types without joint randomness", loc=f.loc)
                    else:
                        ctx.ok(rule, key, "the state's measurement share does not depend on the nonce (exception clause)", loc=f.loc)
                if s.rv is not None and s.rv.kind == "agg" and s.rv.agg == "adt" and s.rv.path == "vdaf::prio3::Prio3VerifierShare":
                    flds = dict(zip(s.rv.fields, s.rv.ops))
                    need(ctx, rule, rule + ":share.joint_rand_part", fa.operand_deps(flds["joint_rand_part"]), f,
                         params=("ctx", "nonce", "agg_id", "msg"), consts=("DST_JOINT_RAND_PART",), what="the joint-randomness part sent to the peers",
                         loc="%s:%s" % (f.file, s.line))
        except Skip:
            pass
        try:
            f = ctx.fn(rule, name="verifier_shares_to_message", trait="Aggregator", self_adt="vdaf::prio3::Prio3")
            fa = D.analysis(f)
            for bi2, si, s in f.body.iter_stmts():
                if s.rv is not None and s.rv.kind == "agg" and s.rv.agg == "adt" and s.rv.path == "vdaf::prio3::Prio3VerifierMessage":
                    need(ctx, rule, rule + ":message.joint_rand_seed", fa.operand_deps(s.rv.ops[0]), f, params=("ctx", 4),
                         consts=("DST_JOINT_RAND_SEED", "VERSION"), what="the joint-randomness seed of the verifier message",
                         loc="%s:%s" % (f.file, s.line))
        except Skip:
            pass
        try:
            f = ctx.fn(rule, name="domain_separation_tag", self_adt="vdaf::prio3::Prio3")
            sm = D.summary(f)
            need(ctx, rule, rule + ":dst", sm.ret.flat(), f, params=(2,), consts=("VERSION",), fields=((1, "algorithm_id"),),
                 what="Prio3 domain-separation tag")
        except Skip:
            pass
        ctx.floor(rule, 8)

    # verify_next must not depend on a nonce (it has none) and compares the two seeds: covered by C02.
    # ------------- Poplar1
    for xof in ("XofTurboShake128", "XofHmacSha256Aes128"):
        D = depmod.Dep(prog, bindings={"vdaf::xof::Xof": xof})
        rule = "R-C18.D.poplar1[%s]" % xof
        try:
            f = ctx.fn(rule, name="verify_init", trait="Aggregator", self_adt="vdaf::poplar1::Poplar1")
            fa = D.analysis(f)
            es = [(bi, t) for bi, t in f.body.calls() if t.callee.name == "eval_and_sketch"]
            if len(es) != 2:
                ctx.bad(rule, rule + ":sites", "expected two eval_and_sketch calls (inner, leaf), found %d" % len(es), kind="anchor")
            for k, (bi, t) in enumerate(es):
                loc = "%s:%s" % (f.file, t.line)
                st = fa.read_place_struct(t.dest)
                atoms = st.flat()
                need(ctx, rule, rule + ":sketch[%d]" % k, atoms, f, params=("verify_key", "ctx", "agg_id", "nonce", "agg_param", "public_share", "input_share"),
                     consts=("DST_VERIFY_RANDOMNESS", "VERSION"), what="(output share, sketch share) #%d" % k, loc=loc)
                corr = fa.operand_deps(t.args[8])
                need(ctx, rule, rule + ":corr[%d]" % k, corr, f, params=("ctx", "agg_id", "nonce", "input_share"),
                     consts=("VERSION",), what="correlated-randomness stream #%d" % k, loc=loc)
        except Skip:
            pass
        try:
            f = ctx.fn(rule, name="eval_and_sketch", self_adt="vdaf::poplar1::Poplar1")
            fa = D.analysis(f)
            gets = [(bi, t) for bi, t in f.body.calls() if t.callee.name == "get" and t.args and not depmod.has_param(fa.operand_deps(t.args[0]), 9) or
                    (t.callee.name == "get" and t.args and depmod.has_param(fa.operand_deps(t.args[0]), 2))]
            g = ctx.guards(f)
            def _from_init_prng(op):
                e = g.eb.operand(op)
                if e[0] == "phi":
                    e = g.eb.init_expr(e[1]) or e
                return Mentions(Call("init_prng"))(e)
            vr = [(bi, t) for bi, t in f.body.calls() if t.callee.name == "get" and t.args and _from_init_prng(t.args[0])]
            if not vr:
                ctx.bad(rule, rule + ":verify-rand", "cannot find the draw from the verification-randomness stream", kind="anchor")
            for bi, t in vr[:1]:
                need(ctx, rule, rule + ":verify-rand", fa.operand_deps(t.args[0]), f, params=("verify_key", "ctx", "nonce", "agg_param"),
                     consts=("DST_VERIFY_RANDOMNESS", "VERSION"), what="sketch verification randomness", loc="%s:%s" % (f.file, t.line))
            ev = [(bi, t) for bi, t in f.body.calls() if t.callee.name == "eval"]
            for bi, t in ev[:1]:
                ce = g.eb.call_expr(t)
                key = rule + ":idpf-eval-args"
                if Arg(4)(ce[2][1]) and Arg(7)(ce[2][2]) and Arg(8)(ce[2][3]) and Arg(3)(ce[2][5]) and Arg(5)(ce[2][6]):
                    ctx.ok(rule, key, "idpf.eval(agg_id, public_share, idpf_key, prefix, ctx, nonce, cache)", loc=f.loc)
                else:
                    ctx.bad(rule, key, "idpf.eval is not called with this aggregator's id/key and the ctx/nonce: %s" % fmt(ce)[:200], loc=f.loc)
        except Skip:
            pass
        try:
            f = ctx.fn(rule, name="eval", self_adt="idpf::Idpf")
            sm = D.summary(f)
            need(ctx, rule, rule + ":idpf-eval", sm.ret.flat(), f, params=("agg_id", "public_share", "key", "prefix", "ctx", "nonce"),
                 what="IDPF evaluation result")
        except Skip:
            pass
        try:
            f = ctx.fn(rule, name="domain_separation_tag", self_adt="vdaf::poplar1::Poplar1")
            sm = D.summary(f)
            need(ctx, rule, rule + ":dst", sm.ret.flat(), f, params=(2,), consts=("VERSION",), what="Poplar1 domain-separation tag")
            f = ctx.fn(rule, name="init_prng", self_adt="vdaf::poplar1::Poplar1")
            sm = D.summary(f)
            need(ctx, rule, rule + ":init_prng", sm.ret.flat(), f, params=(2, 3, 4, 5), consts=("VERSION",), what="init_prng(seed, usage, ctx, binder)")
        except Skip:
            pass
        ctx.floor(rule, 9)

    # ------------- every XOF absorbs all tag parts (ctx is a tag part)
    xof_rules.run_absorb(ctx, "R-C18.A.xof-absorbs-all-tag-parts")
    xof_rules.run_update_forward(ctx, "R-C18.A.xof-update")
    xof_rules.run_seed_stream(ctx, "R-C18.A.seed_stream")
    ctx.floor("R-C18.A.xof-absorbs-all-tag-parts", 12)

    # ------------- algorithm identifiers: the identifier is what binds a report to its circuit (it is part of every tag), so two
    # circuits must not share one and the multithreaded constructors must use their serial sibling's (draft-18 table 18)
    rule = "R-C18.I.algorithm-id"
    import re as _re
    DRAFT = {"Count": 1, "Sum": 2, "SumVec": 3, "Histogram": 4, "MultihotCountVec": 5}
    ids = {}
    for f in ctx.prog.fns:
        m = _re.search(r"^vdaf::prio3::Prio3::<flp::types::(\w+)<.*>::(new_\w+)$", f.id)
        if not m or f.body is None:
            continue
        g = ctx.guards(f)
        for bi, t in f.body.calls():
            if t.callee.name == "new" and "Prio3" in (t.callee.path or ""):
                ce = g.eb.call_expr(t)
                if len(ce[2]) >= 4:
                    a = ce[2][2]
                    ids.setdefault(m.group(1), {})[m.group(2)] = a[1] if a[0] == "lit" else fmt(a)[:40]
    for circ, d in sorted(ids.items()):
        key = "%s:%s" % (rule, circ)
        vals = set(d.values())
        if len(vals) == 1 and (circ not in DRAFT or vals == {DRAFT[circ]}):
            ctx.ok(rule, key, "every constructor of Prio3<%s> passes algorithm id %s" % (circ, sorted(vals)), loc=None)
        else:
            ctx.bad(rule, key, "constructors of Prio3<%s> disagree on the algorithm id or differ from the specification's (%s): %s" % (circ, DRAFT.get(circ), d))
    key = rule + ":distinct"
    firsts = [sorted(set(d.values()), key=str)[0] for d in ids.values() if d]
    if len(ids) >= 5 and len(set(map(str, firsts))) == len(firsts):
        ctx.ok(rule, key, "distinct circuits have distinct algorithm ids: %s" % {c: sorted(set(d.values()), key=str) for c, d in sorted(ids.items())})
    else:
        ctx.bad(rule, key, "two circuits share an algorithm id (or constructors were not found): %s" % {c: d for c, d in sorted(ids.items())})
    ctx.floor(rule, 6)

    # ------------- Prio2: role and query point bound to the aggregator id, the verification key and the nonce (shared with C19)
    from rules import c19
    c19.role_binding_rules(ctx, "R-C18.G.prio2-binding")

    # ------------- role: the aggregator id is compared at full width
    rule = "R-C18.G.role"
    try:
        f = ctx.fn(rule, name="role_try_from", self_adt="vdaf::prio3::Prio3")
        e = ctx.require_guard(rule, f, "Ge", Arg(2), Cast(Field(Arg(1), "num_aggregators")), desc="agg_id >= num_aggregators (usize) -> Err")
        g = ctx.guards(f)
        acc = g.accept_defs(("err",))
        key = "%s:%s:result-is-the-checked-id" % (rule, f.id)
        if len(acc) == 1 and Agg("Result::Ok", Mentions(Arg(2)))(acc[0].expr):
            ctx.ok(rule, key, "returns the id that was range-checked", loc=f.loc)
        else:
            ctx.bad(rule, key, "returned role is not the checked id", loc=f.loc)
        for nm, idre in (("verify_init", r"Prio3<.*> as vdaf::Aggregator<.*>>::verify_init$"),):
            f2 = ctx.fn(rule, name=nm, id_re=idre)
            ctx.require_try_call(rule, f2, Call("role_try_from", Arg(1), Arg(4)), desc="role_try_from(agg_id)")
    except Skip:
        pass
    try:
        f = ctx.fn(rule, name="verify_init", trait="Aggregator", self_adt="vdaf::poplar1::Poplar1")
        g = ctx.guards(f)
        got = {}
        for ed in g.edges:
            c = ed.cond
            if c[0] == "inteq" and Arg(4)(c[1]):
                got[c[2]] = sorted(set(rd.kind for rd in ed.leads))
            if c[0] == "intother" and Arg(4)(c[1]):
                got["other"] = sorted(set(rd.kind for rd in ed.leads))
        key = "%s:%s" % (rule, f.id)
        from rules.common import find_rel_edges
        wide = [e for e in find_rel_edges(g, "Gt", Arg(4), Lit(1)) + find_rel_edges(g, "Ge", Arg(4), Lit(2))
                if set(rd.kind for rd in e.leads) == {"err"} and g.dominates_accepts(e, ("err",))]
        if got.get("other") == ["err"] and set(k for k in got if k != "other") == {0, 1}:
            ctx.ok(rule, key, "agg_id matched at full width: 0 | 1 | otherwise Err", loc=f.loc)
        elif wide:
            ctx.ok(rule, key, "agg_id compared at full width: > 1 -> Err, dominating every accepting return", loc=f.loc)
        else:
            ctx.bad(rule, key, "Poplar1 verify_init does not refuse aggregator ids other than 0/1: %s" % got, loc=f.loc)
    except Skip:
        pass
    ctx.floor(rule, 4)
