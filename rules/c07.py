import re
from pat import *
from expr import fmt, walk
from harness import Skip
from guards import decision_table, block_conditions, fmt_cond, phi_defs
from poly import Poly
import sym as S
from rules.common import eqcov_impl, all_terms, adapters_in
from rules.ts import check_table

INFO = {
    "explanation": "SYM/GUARD/TS/EQCOV rules over the MIR of every Encode/Decode impl: (L) `encoded_len()` equals the number of "
                   "bytes `encode` appends, as an identity of polynomial normal forms over const generics, associated constants "
                   "and field lengths, per enum-variant path, for every Encode impl (None only where encode is Err); (T) the "
                   "variant->tag map written by encode equals the tag->variant map of decode, and unknown tags are refused; "
                   "(C) the canonical-form refusals are present with the stated operands and relation: field elements >= "
                   "modulus (with the full mask on the decode path), trailing bytes, non-zero packed padding bits, non-zero "
                   "trailing prefix bits, length prefixes past the end; the decoder re-derives non-wire lengths with the same "
                   "per-proof scaling as the constructing code; (E) equality of every message type covers all fields. That "
                   "each primitive writes the right bytes (endianness) and re-encoding of accepted non-honest strings beyond "
                   "An element count read from the wire reaches take / with_capacity / decode_fixlen_items as read (R-C07.K), and the two reviewed identities of R-C07.L are pinned to the reviewed formula. Beyond the canonical guards these refusals are NOT decided.",
    "trusted_base": ["rustc type checker and MIR construction (nightly)", "sa/sym.py symbolic byte counting, sa/poly.py normal forms",
                     "two reviewed length identities (bitvec packing, prefix length invariant) listed in rules/c07.py"],
    "assumptions": ["helper summaries: encode_fieldvec / encode_fixlen_items / encode_u{8,16,32}_items write one item encoding per element (+ prefix)"],
}

# Reviewed identities: (impl id substring) -> (description, reason).  The two sides are different atoms
# whose equality needs an external-library axiom or a type invariant.
REVIEWED_IDENTITIES = {
    "<idpf::IdpfPublicShare<VI, VL> as codec::Encode>::encode":
        ("len(packed_control) == div_ceil(2*(len(inner)+1), 8)",
         "bitvec axiom: BitVec<u8>::into_vec() after set_uninitialized(false) yields ceil(bits/8) bytes, and 2 control bits are "
         "pushed per correction word (inner words + the leaf word)"),
    "<vdaf::poplar1::Poplar1AggregationParam as codec::Encode>::encode":
        ("sum over prefixes of len(prefix.to_bytes()) == div_ceil(level+1, 8) * len(prefixes)",
         "type invariant established by the only constructor (try_from_prefixes): every prefix has exactly level+1 bits; "
         "IdpfInput::to_bytes packs n bits into ceil(n/8) bytes"),
}


def fa(a):
    return ",".join(sorted("%s=%s" % (fmt(k[1])[:40], v) for k, v in a)) or "-"


def _sequence(f, g, events):
    """events = [(block, payload)]: the order in which they execute on every path, or None when two of them are not ordered
    (mutually exclusive branches).  A before B when B is reachable from A and not conversely, or - inside one loop - when A
    dominates B."""
    import functools
    b = f.body
    def before(x, y):
        if x == y:
            return False
        rx, ry = y in g.reach(x), x in g.reach(y)
        if rx and not ry:
            return True
        if rx and ry:
            return b.dominates(x, y)
        return False
    blocks = [e[0] for e in events]
    for i in range(len(blocks)):
        for j in range(i + 1, len(blocks)):
            if blocks[i] != blocks[j] and before(blocks[i], blocks[j]) == before(blocks[j], blocks[i]):
                return None
    return sorted(events, key=functools.cmp_to_key(lambda x, y: -1 if before(x[0], y[0]) else (1 if before(y[0], x[0]) else 0)))


def _self_paths(a, root):
    """maximal field paths `self.x.y` mentioned in term a (as "x.y")"""
    out = set()
    inner = set()
    def chain(x):
        names = []
        while isinstance(x, tuple) and x[0] in ("field", "vfield"):
            if x[0] == "field":
                names.append(x[2])
            elif x[2] not in ("Some", "Ok"):           # (opt as Some).0 is the field itself, not a sub-field
                names.append(x[3])
            x = x[1]
        return ".".join(reversed(names)) if root(x) and names else None
    for x in walk(a):
        if isinstance(x, tuple) and x[0] in ("field", "vfield"):
            c = chain(x)
            if c is not None:
                out.add(c)
                if isinstance(x[1], tuple) and x[1][0] in ("field", "vfield"):
                    ci = chain(x[1])
                    if ci is not None and ci != c:
                        inner.add(ci)
    return out - inner


def _flatten_literal(lit, prefix=""):
    """(field path, operand) pairs of a struct literal, descending into nested struct literals"""
    out = []
    if not (isinstance(lit, tuple) and lit[0] == "agg" and len(lit) > 3 and lit[3]):
        return out
    for fname, op in zip(lit[3], lit[2]):
        sub = _flatten_literal(op, prefix + fname + ".") if isinstance(op, tuple) and op[0] == "agg" and len(op) > 3 and op[3] and \
            not (op[1].endswith("::Some") or op[1].endswith("::Ok")) else []
        if sub:
            out += sub
        else:
            out.append((prefix + fname, op))
    return out


def _origins(b, l, readers, seen=None, depth=0):
    """reader call sites (blocks) whose results can flow into local l: through assignments, conversions, `?`, wrappers
    (calls are followed through their arguments) and mutation of l through a reference (`v.push(x)`: the other arguments)"""
    if seen is None:
        seen = set()
    if l in seen or depth > 40:
        return set()
    seen.add(l)
    out = set()
    for (bi, si, kind) in b.defs.get(l, []):
        if si == "term":
            t = b.blocks[bi].term
            if bi in readers:
                out.add(bi)
                continue
            for a in t.args:
                if a.kind in ("copy", "move"):
                    out |= _origins(b, a.place[0], readers, seen, depth + 1)
        else:
            rv = b.blocks[bi].stmts[si].rv
            if rv is None:
                continue
            for o in rv.ops:
                if o.kind in ("copy", "move"):
                    out |= _origins(b, o.place[0], readers, seen, depth + 1)
            if rv.place is not None:
                out |= _origins(b, rv.place[0], readers, seen, depth + 1)
    # writes through a reference to l
    refs = set()
    for bi, si, st in b.iter_stmts():
        if st.kind == "assign" and st.rv is not None and st.rv.kind == "ref" and st.rv.place is not None and st.rv.place[0] == l and not st.place[1]:
            refs.add(st.place[0])
    grew = True
    while grew:                                   # reborrows / moves of the reference
        grew = False
        for bi, si, st in b.iter_stmts():
            if st.kind == "assign" and st.rv is not None and not st.place[1] and st.place[0] not in refs:
                srcs = [o.place[0] for o in st.rv.ops if o.kind in ("copy", "move")] + ([st.rv.place[0]] if st.rv.place is not None else [])
                if any(x in refs for x in srcs) and st.rv.kind in ("use", "ref", "cast"):
                    refs.add(st.place[0])
                    grew = True
    for bi, t in b.calls():
        ls = [a.place[0] for a in t.args if a.kind in ("copy", "move")]
        if ls and ls[0] in refs and bi not in readers:
            for x in ls[1:]:
                out |= _origins(b, x, readers, seen, depth + 1)
    return out


def _collapse(seq):
    out = []
    for x in seq:
        if not out or out[-1] != x:
            out.append(x)
    return out


def aggparam_decode_rules(ctx, rule):
    """Poplar1AggregationParam::decode: padding bits of every packed prefix are refused, with a mask that covers exactly the
    unused low bits of the last byte; prefixes are truncated to the level (shared by C07 and C20)"""
    try:
        f = ctx.fn(rule, name="decode", trait="Decode", self_adt="vdaf::poplar1::Poplar1AggregationParam")
        g = ctx.guards(f)
        e = ctx.require_guard(rule, f, "Gt", Bin("BitAnd", Any(), Any()), Lit(0), every_iteration=True,
                              desc="last byte & mask > 0 -> Err  [every prefix]")
        # mask construction: bits (8 - num_bits)..8 set, complemented; num_bits = (level + 1) % 8
        key = "%s:%s:mask-covers-all-padding-bits" % (rule, f.id)
        terms = all_terms(ctx, f)
        nb = lambda x: Bin("Rem", Bin("Add", ThroughCasts(Mentions(Call("decode"))), Lit(1), commutative=True), Lit(8))(x)
        rng_ok = any(Mentions(Agg("Range", Bin("Sub", Lit(8), nb), Lit(8)))(t) for t in terms)
        shl_ok = any(isinstance(x, tuple) and x[0] == "bin" and x[1] in ("Shl", "ShlWithOverflow") and Lit(1)(x[2]) and Mentions(Call("next"))(x[3])
                     for t in terms for x in walk(t))
        xor_ok = any(isinstance(x, tuple) and x[0] == "bin" and x[1] == "BitXor" and (Lit(255)(x[2]) or Lit(255)(x[3])) for t in terms for x in walk(t))
        # or a constant table indexed by the number of used bits n = (level+1) % 8: entry n must be the low 8-n bits (0 for n = 0)
        tab_ok = False
        for t in terms:
            for x in walk(t):
                if isinstance(x, tuple) and x[0] == "index" and nb(x[2]) and isinstance(x[1], tuple) and x[1][0] in ("sym", "symlit"):
                    c = ctx.prog.const_by_path.get(x[1][1]) or {}
                    va = c.get("va")
                    if va is not None and len(va) == 8 and all(int(va[n]) == (0 if n == 0 else (1 << (8 - n)) - 1) for n in range(8)):
                        tab_ok = True
        if tab_ok:
            ctx.ok(rule, key, "mask = table[(level+1) % 8] with table[n] = 2^(8-n) - 1 (0 for n = 0): all low padding bits are checked", loc=f.loc)
        elif rng_ok and shl_ok and xor_ok:
            ctx.ok(rule, key, "mask = !(OR of 1 << i for i in (8 - (level+1)%8)..8): all low padding bits are checked", loc=f.loc)
        else:
            ctx.bad(rule, key, "the padding-bit mask is not built from all positions (8 - (level+1)%%8)..8 (range=%s shift=%s complement=%s)" % (rng_ok, shl_ok, xor_ok), loc=f.loc)
        # zero-mask case only when (level+1) % 8 == 0
        key = "%s:%s:prefix-truncated-to-level" % (rule, f.id)
        if any(Mentions(Call("prefix", Call("from_bytes"), ThroughCasts(Mentions(Call("decode")))))(t) for t in terms):
            ctx.ok(rule, key, "every prefix is IdpfInput::from_bytes(buf).prefix(level)", loc=f.loc)
        else:
            ctx.bad(rule, key, "decoded prefixes are not truncated to the level", loc=f.loc)
    except Skip:
        pass


def order_rules(ctx, rule="R-C07.O", floor=8):
    """writer and reader agree on the ORDER of the fields: for every struct - and every struct-like enum variant - with an
    Encode impl and a Decode / ParameterizedDecode impl, the sequence of fields written (calls that take the output buffer,
    attributed to the field of `self` they mention, or that the enclosing loop iterates) equals the sequence of fields read
    (calls that take the cursor, attributed to the field of the struct literal their result flows into - by MIR local, i.e.
    by call site - directly, through `?`/conversions, or through `v.push(..)`).  The types agree by construction: a field can
    only be initialised from a value of its own type.  Variants are separated by the variant test that dominates the writer
    and by the literal the reader reaches; codecs whose calls are still not totally ordered are skipped (the rule is partial by
    design: 11 of 39 codecs are decided on the reviewed tree; the floor of 8 tolerates a refactoring that makes a few more
    undecidable, while a wholesale loss of instances still fails closed)."""
    prog = ctx.prog
    n = 0
    skipped = []
    encs = [f for f in prog.fns if f.name == "encode" and f.impl_trait == "codec::Encode" and f.body is not None]
    for fe in sorted(encs, key=lambda f: f.id):
        imp = prog.impl_by_did.get(fe.impl) or {}
        sty = prog.types[imp["self"]] if "self" in imp else None
        if sty is None or sty.get("k") != "adt":
            continue
        path = sty.get("path")
        adef = prog.adt_by_path.get(path)
        if adef is None:
            continue
        variants = [v["n"] for v in adef.get("variants", [])]
        multi = len(variants) > 1
        decs = [f for f in prog.fns if f.name in ("decode", "decode_with_param") and f.impl_trait in ("codec::Decode", "codec::ParameterizedDecode")
                and f.body is not None and (prog.impl_by_did.get(f.impl) or {}).get("self") is not None
                and prog.types[prog.impl_by_did[f.impl]["self"]].get("path") == path]
        if not decs:
            continue
        ge = ctx.guards(fe)
        be = fe.body
        bytes_e = be.argc                                   # encode(&self, bytes)
        wr_all = []
        for bi, t in be.calls():
            if t.target is None or bi not in be.reachable or not any(a.kind in ("copy", "move") and Arg(bytes_e)(ge.eb.operand(a)) for a in t.args):
                continue
            ce = ge.eb.call_expr(t)
            names = set()
            for a in ce[2]:
                if Arg(bytes_e)(a):
                    continue
                names |= _self_paths(a, Arg(1))
            if not names and ge.loop_of(bi) is not None:
                class _E:
                    block = bi
                src = ctx.loop_source(fe, _E)
                if src is not None:
                    names |= _self_paths(src, Arg(1))
            vs = set(c[2] for c in block_conditions(ge, bi) if c[0] == "variant" and c[3] and Arg(1)(c[1])) if multi else set()
            wr_all.append((bi, sorted(names), vs))
        for V in (variants if multi else [None]):
            wr = [(bi, ns) for bi, ns, vs in wr_all if V is None or V in vs]
            wr = _sequence(fe, ge, wr) if wr else None
            if not wr:
                skipped.append("%s%s" % (path, "::" + V if V else ""))
                continue
            enc_seq = _collapse([ns[0] for _, ns in wr if len(ns) == 1])
            for fd in decs:
                gd = ctx.guards(fd)
                bd = fd.body
                cur = bd.argc                               # decode(bytes) / decode_with_param(param, bytes)
                # the literal of this struct / variant
                lits = [(bi, si, st) for bi, si, st in bd.iter_stmts() if st.kind == "assign" and st.rv is not None and st.rv.kind == "agg" and
                        st.rv.agg == "adt" and st.rv.path == path and st.rv.fields and (V is None or st.rv.vname == V) and bi in bd.reachable]
                if len(lits) != 1:
                    skipped.append("%s%s" % (path, "::" + V if V else ""))
                    continue
                lb, lsi, lst = lits[0]
                rd = []
                for bi, t in bd.calls():
                    if t.target is None or bi not in bd.reachable or not any(a.kind in ("copy", "move") and Arg(cur)(gd.eb.operand(a)) for a in t.args):
                        continue
                    if lb in gd.reach(bi):
                        rd.append((bi, None))
                rd = _sequence(fd, gd, rd) if rd else None
                if not rd:
                    skipped.append("%s%s" % (path, "::" + V if V else ""))
                    continue
                readers = dict((bi, i) for i, (bi, _) in enumerate(rd))
                attributed = {}
                def visit(rv, prefix):
                    if rv is None or rv.kind != "agg" or not rv.fields:
                        return
                    for fname, o in zip(rv.fields, rv.ops):
                        if o.kind not in ("copy", "move"):
                            continue
                        l = o.place[0]
                        ds = bd.defs.get(l, [])
                        if len(ds) == 1 and ds[0][1] != "term":     # nested struct literal built just before: descend
                            inner = bd.blocks[ds[0][0]].stmts[ds[0][1]].rv
                            if inner is not None and inner.kind == "agg" and inner.agg == "adt" and inner.fields and inner.vname not in ("Some", "Ok"):
                                visit(inner, prefix + fname + ".")
                                continue
                        for rb in _origins(bd, l, readers):
                            attributed.setdefault(readers[rb], set()).add(prefix + fname)
                visit(lst.rv, "")
                dec_seq = _collapse([sorted(attributed[i])[0] for i in range(len(rd)) if i in attributed and len(attributed[i]) == 1])
                common = _collapse([x for x in enc_seq if x in dec_seq])
                common_d = _collapse([x for x in dec_seq if x in enc_seq])
                if len(common) < 2:
                    skipped.append("%s%s" % (path, "::" + V if V else ""))
                    continue
                n += 1
                what = "%s%s" % (path, "::" + V if V else "")
                key = "%s:%s%s" % (rule, fd.id, ":" + V if V else "")
                if common == common_d:
                    ctx.ok(rule, key, "%s: fields written and read in the same order %s" % (what, common), loc=fd.loc,
                           sample={"rule": rule, "type": what, "order": common})
                else:
                    ctx.bad(rule, key, "%s: encode writes the fields in the order %s but %s reads them in the order %s" % (what, common, fd.name, common_d), loc=fd.loc)
    ctx.floor(rule, floor)
    return n, sorted(set(skipped))


def tag_rules(ctx, rule="R-C07.T", floor=6, refusal_only=False):
    """writer and reader of every tagged enum agree on an injective, complete tag table; every other byte value is refused.
    With refusal_only (C08) only the refusal of unknown tags is reported."""
    prog = ctx.prog
    # ---------------- R-C07.T tag tables
    tagged = [("vdaf::poplar1::SketchState", "decode_with_param"), ("vdaf::poplar1::VerifierStateVariant", "decode_with_param"),
              ("topology::ping_pong::PingPongMessage", "decode")]
    for adt, dname in tagged:
        try:
            fe = ctx.fn(rule, name="encode", trait="Encode", self_adt=adt)
            fd = ctx.fn(rule, name=dname, self_adt=adt)
        except Skip:
            continue
        ge, gd = ctx.guards(fe), ctx.guards(fd)
        # encode: variant -> first u8 literal encoded under that variant
        enc_map = {}
        for bi, t in fe.body.calls():
            if t.callee.name == "encode" and (t.callee.rfull or "").startswith("<u8 as codec::Encode>"):
                ce = ge.eb.call_expr(t)
                v = ce[2][0]
                conds = block_conditions(ge, bi)
                vs = [c[2] for c in conds if c[0] == "variant" and c[3] and Arg(1)(c[1])]
                if vs and Lit()(v):
                    enc_map.setdefault(vs[0], set()).add(v[1] if v[0] == "lit" else v[2])
                elif v[0] == "phi":
                    # `let tag: u8 = match self { A(..) => 0, B(..) => 1 }; tag.encode(bytes)?`: the written tag per variant is the
                    # literal assigned under that variant
                    from guards import phi_defs
                    for (de, dconds, dbi) in phi_defs(ge, v[1]):
                        dvs = [c[2] for c in dconds if c[0] == "variant" and c[3] and Arg(1)(c[1])]
                        if dvs and Lit()(de):
                            enc_map.setdefault(dvs[0], set()).add(de[1] if de[0] == "lit" else de[2])
                        else:
                            enc_map.setdefault("?", set()).add(fmt(de)[:40])
        # decode: tag -> constructed variant
        dec_map = {}
        for bi, si, s in fd.body.iter_stmts():
            if s.rv is not None and s.rv.kind == "agg" and s.rv.agg == "adt" and s.rv.path == adt:
                tags = [c[2] for c in block_conditions(gd, bi) if c[0] == "inteq"]
                if tags:
                    dec_map.setdefault(s.rv.vname, set()).add(tags[0])
        # ... or built by handing the variant constructor to a combinator: `decode(..).map(Self::Inner)`
        for bi, t in fd.body.calls():
            if t.callee.name in ("map", "and_then") and len(t.args) == 2:
                a1 = gd.eb.operand(t.args[1])
                if a1[0] == "fnref" and str(a1[1]).startswith(adt + "::"):
                    tags = [c[2] for c in block_conditions(gd, bi) if c[0] == "inteq"]
                    if tags:
                        dec_map.setdefault(str(a1[1]).split("::")[-1], set()).add(tags[0])
        # ... or selected by comparisons on the tag rather than by a `match` on literals (`if tag > 2 { Err } .. if tag == 0 {A} else
        # if tag == 1 {B} else {C}`): decide by value - for every byte value, which variant literals are reachable
        sim_refused = None
        if set(dec_map) != set(v["n"] for v in (prog.adt_by_path.get(adt) or {}).get("variants", [])):
            tagp = lambda e: isinstance(e, tuple) and ThroughCasts(Or(Try(Call("decode", Arg(fd.body.argc))), Call("decode", Arg(fd.body.argc))))(e)
            reach, lits, any_branch = ctx.value_walker(fd, tagp)
            if any_branch:
                cons = {}
                for bi, si, s2 in fd.body.iter_stmts():
                    if s2.rv is not None and s2.rv.kind == "agg" and s2.rv.agg == "adt" and s2.rv.path == adt:
                        cons.setdefault(bi, set()).add(s2.rv.vname)
                retk = {}
                for rd in gd.retdefs:
                    retk.setdefault(rd.block, set()).add(rd.kind)
                dec_map, sim_refused = {}, True
                for v in range(256):
                    blocks = reach(v)
                    vs = set(x for bi in blocks for x in cons.get(bi, ()))
                    kinds = set(x for bi in blocks for x in retk.get(bi, ()))
                    if len(vs) == 1 and kinds - {"err"}:
                        dec_map.setdefault(next(iter(vs)), set()).add(v)
                    elif vs or (kinds - {"err"}):
                        dec_map.setdefault("?", set()).add(v)
                    # else: refused
                known_tags = set(x for s3 in enc_map.values() for x in s3)
                for v in range(256):
                    if v not in known_tags:
                        blocks = reach(v)
                        kinds = set(x for bi in blocks for x in retk.get(bi, ()))
                        if not kinds or (kinds - {"err"}):
                            sim_refused = False
        key = "%s:%s:tag-table" % (rule, adt)
        adt_def = prog.adt_by_path.get(adt)
        variants = [v["n"] for v in adt_def["variants"]] if adt_def else []
        if refusal_only:
            pass
        elif enc_map and enc_map == dec_map and all(len(s) == 1 for s in enc_map.values()) and sorted(enc_map) == sorted(variants) and \
                len(set(next(iter(s)) for s in enc_map.values())) == len(variants):
            ctx.ok(rule, key, "encode writes and decode reads the same injective tag table %s" % {k: sorted(v) for k, v in enc_map.items()}, loc=fd.loc,
                   sample={"rule": rule, "type": adt, "tags": {k: sorted(v) for k, v in enc_map.items()}})
        else:
            ctx.bad(rule, key, "tag tables differ or are not injective/complete: encode %s, decode %s, variants %s" % (
                {k: sorted(v) for k, v in enc_map.items()}, {k: sorted(v) for k, v in dec_map.items()}, variants), loc=fd.loc)
        # unknown tags refused
        key = "%s:%s:unknown-tag-refused" % (rule, adt)
        oth = [e for e in gd.edges if e.cond[0] == "intother"]
        if sim_refused:
            ctx.ok(rule, key, "every byte value outside the tag table reaches only Err (decided by value over the comparisons on the tag)", loc=fd.loc)
        elif oth and all(set(rd.kind for rd in e.leads) <= {"err"} and e.leads for e in oth):
            ctx.ok(rule, key, "every tag outside %s leads to Err" % sorted(oth[0].cond[2]), loc=fd.loc)
        else:
            ctx.bad(rule, key, "unknown tags are not refused", loc=fd.loc)
    ctx.floor(rule, floor)



def run(ctx):
    prog = ctx.prog
    sy = S.Sym(prog)

    # ---------------- R-C07.L
    rule = "R-C07.L"
    encs = [f for f in prog.fns if f.name == "encode" and f.impl_trait == "codec::Encode" and not prog.is_test_util(f)]
    for f in sorted(encs, key=lambda f: f.id):
        lf = [g for g in prog.fns if g.name == "encoded_len" and g.impl == f.impl]
        key = "%s:%s" % (rule, f.id)
        if not lf:
            ctx.ok(rule, key, "no encoded_len override (the default returns None)", loc=f.loc, nontrivial=False)
            continue
        try:
            E = sy.encode_paths(f)
            L = sy.len_paths(lf[0])
        except S.Unsupported as ex:
            ctx.bad(rule, key, "cannot establish encoded_len == bytes written (unsupported shape: %s)" % ex, loc=f.loc, kind="unproved")
            continue
        diffs = []
        npairs = 0
        for a, c in E:
            for a2, c2 in L:
                da, db = dict(a), dict(a2)
                if any(k in db and db[k] != v for k, v in da.items()):
                    continue
                npairs += 1
                if c == "err":
                    if c2 != "none":
                        diffs.append("[%s] encode returns Err but encoded_len returns %r" % (fa(a), c2))
                elif c2 == "none":
                    diffs.append("[%s] encoded_len returns None but encode writes %r" % (fa(a), c))
                elif c != c2:
                    diffs.append("[%s] encode writes %r bytes, encoded_len reports %r (difference %r)" % (fa(a), c, c2, c - c2))
        if diffs and f.id in REVIEWED_IDENTITIES:
            desc, why = REVIEWED_IDENTITIES[f.id]
            # the difference must be exactly the reviewed pair of atoms: everything else must cancel
            okrev = True
            # the part of the identity that encoded_len contributes must be exactly the reviewed formula (local-variable names
            # do not occur in it); the other side is the opaque count the axiom speaks about
            WANT = {
                "<idpf::IdpfPublicShare<VI, VL> as codec::Encode>::encode": "div_ceil(2*len(self.inner_correction_words) + 2, 8)",
                "<vdaf::poplar1::Poplar1AggregationParam as codec::Encode>::encode": "div_ceil(self.level + 1, 8)*len(self.prefixes)",
            }.get(f.id)
            for a, c in E:
                for a2, c2 in L:
                    if isinstance(c, Poly) and isinstance(c2, Poly):
                        d = c - c2
                        if len(d.m) != 2 or sorted(abs(v) for v in d.m.values()) != [1, 1] or sum(d.m.values()) != 0:
                            okrev = False
                            continue
                        neg = Poly()
                        for k, v in d.m.items():
                            if v < 0:
                                neg.m[k] = -v
                        if WANT is not None and repr(neg) != WANT:
                            okrev = False
            if okrev:
                ctx.ok(rule, key, "equal modulo the reviewed identity %s (%s)" % (desc, why), loc=f.loc)
                continue
        if diffs:
            ctx.bad(rule, key, "%s: encoded_len != bytes written by encode: %s" % (f.id, "; ".join(diffs)[:700]), loc=lf[0].loc)
        else:
            ctx.ok(rule, key, "encoded_len == bytes written on all %d compatible variant path pair(s): %s" % (
                npairs, "; ".join("[%s] %r" % (fa(a), c) for a, c in E)[:300]), loc=f.loc,
                sample={"rule": rule, "impl": f.id, "paths": ["[%s] %r" % (fa(a), c) for a, c in E][:4]})
    ctx.floor(rule, 32)

    # ---------------- R-C07.O field order
    order_rules(ctx)

    tag_rules(ctx)

    # ---------------- R-C07.K count fidelity: an element count read from the wire is used AS READ as the number of items decoded
    # (a count that is clamped, capped or otherwise adjusted lets several count prefixes decode to the same value)
    rule = "R-C07.K"
    import ppa as _P
    nk = 0
    for f in sorted((x for x in prog.fns if x.name in ("decode", "decode_with_param") and x.impl_trait in ("codec::Decode", "codec::ParameterizedDecode")
                     and x.body is not None and not prog.is_test_util(x)), key=lambda x: x.id):
        g = ctx.guards(f)
        for bi, t in f.body.calls():
            if t.callee.name not in ("take", "with_capacity", "decode_fixlen_items") or not t.args:
                continue
            ce = g.eb.call_expr(t)
            if ce[0] != "call":
                continue
            for a in ce[2]:
                if not _P.mentions_wire(a):
                    continue
                nk += 1
                key = "%s:%s:%s#%d" % (rule, f.id, t.callee.name, nk)
                core = a
                while isinstance(core, tuple) and (core[0] in ("cast", "conv", "try") or
                                                   (core[0] == "call" and str(core[1]).split("::")[-1] in ("map_err", "try_into", "try_from", "into", "from", "ok_or", "ok_or_else") and core[2])):
                    core = core[1] if core[0] in ("cast", "conv", "try") else core[2][0]
                if isinstance(core, tuple) and core[0] == "call" and (_P.WIRE_DECODE.match(core[3] or "") or _P.WIRE_DECODE.match(core[1] or "")):
                    ctx.ok(rule, key, "%s uses the wire count as read: %s" % (t.callee.name, fmt(a)[:100]), loc="%s:%s" % (f.file, t.line))
                else:
                    ctx.bad(rule, key, "%s: the item count handed to %s is the wire count adjusted (%s): count prefixes other than the canonical "
                                       "one decode to the same value" % (f.id, t.callee.name, fmt(a)[:160]), loc="%s:%s" % (f.file, t.line))
    ctx.floor(rule, 1)

    # ---------------- R-C07.C canonical-form guards
    rule = "R-C07.C"
    for fld, prime_sym in (("Field64", "PRIME"), ("Field128", "PRIME"), ("FieldPrio2", "PRIME")):
        try:
            f = ctx.fn(rule, name="try_from_bytes", self_adt="field::" + fld)
            ctx.require_guard(rule, f, "Ge", Any(), Sym("PRIME"), desc="%s: assembled integer >= PRIME -> Err" % fld)
            ctx.require_guard(rule, f, "Gt", Sym("ENCODED_SIZE"), Len(Arg(1)), desc="%s: fewer than ENCODED_SIZE bytes -> Err" % fld)
            # the compared integer is the masked assembly of ALL ENCODED_SIZE bytes
            g = ctx.guards(f)
            key = "%s:%s:all-bytes-assembled" % (rule, f.id)
            idx = [bi for bi, t in f.body.iter_terms() if t.kind == "assert" and t.msg == "bounds"]
            good = False
            for bi in idx:
                class _E:
                    block = bi
                src = ctx.loop_source(f, _E)
                if src is not None and Agg("Range", Lit(0), Sym("ENCODED_SIZE"))(src):
                    good = True
            if not good:
                # or the same bytes visited as the items of `bytes[..ENCODED_SIZE].iter().enumerate()`
                for h, blocks in f.body.loops().items():
                    class _E2:
                        block = h
                    src = ctx.loop_source(f, _E2)
                    if src is not None and Call("enumerate")(src) and Mentions(Call("index", Arg(1), Agg("RangeTo", Sym("ENCODED_SIZE"))))(src) and \
                            adapters_in(src) in ([], ["enumerate"]):
                        good = True
            if good:
                ctx.ok(rule, key, "bytes[i] is read for i in 0..ENCODED_SIZE", loc=f.loc)
            else:
                ctx.bad(rule, key, "the decoder does not assemble all ENCODED_SIZE bytes", loc=f.loc)
        except Skip:
            pass
        # the Decode/TryFrom<&[u8]> path uses the full mask
        for f in ctx.prog.find(name="try_from", self_adt="field::" + fld, id_re=r"TryFrom<&"):
            g = ctx.guards(f)
            calls = [g.eb.call_expr(t) for bi, t in f.body.calls() if t.callee.name == "try_from_bytes"]
            key = "%s:%s:full-mask" % (rule, f.id)
            if len(calls) == 1 and (Sym("MAX")(calls[0][2][1]) or (Lit()(calls[0][2][1]) and "MAX" in fmt(calls[0][2][1])) or
                                    "MAX" in fmt(calls[0][2][1])):
                ctx.ok(rule, key, "TryFrom<&[u8]> calls try_from_bytes(bytes, <int>::MAX) (no bits masked off)", loc=f.loc)
            else:
                ctx.bad(rule, key, "the decode path masks bits before the modulus comparison: %s" % [fmt(c)[:100] for c in calls], loc=f.loc)
    try:
        f = ctx.fn(rule, name="try_from_bytes", self_adt="field::field255::Field255")
        g = ctx.guards(f)
        ctx.require_guard(rule, f, "Gt", Sym("ENCODED_SIZE"), Len(Arg(1)), desc="Field255: fewer than 32 bytes -> Err")
        key = "%s:%s:modulus-check" % (rule, f.id)
        e = [e for e in g.edges if e.cond[0] == "truth" and e.cond[2] is False and set(rd.kind for rd in e.leads) == {"err"}
             and g.dominates_accepts(e)]
        if e:
            ctx.ok(rule, key, "refuses unless the value is (constant-time) less than the modulus: !%s" % fmt(e[0].cond[1])[:60], loc=f.loc)
        else:
            ctx.bad(rule, key, "no dominating `not less than modulus -> Err` refusal", loc=f.loc)
        for f2 in ctx.prog.find(name="try_from", self_adt="field::field255::Field255", id_re=r"TryFrom<&"):
            g2 = ctx.guards(f2)
            calls = [g2.eb.call_expr(t) for bi, t in f2.body.calls() if t.callee.name == "try_from_bytes"]
            key = "%s:%s:no-top-bit-mask" % (rule, f2.id)
            if len(calls) == 1 and Lit(0)(calls[0][2][1]):
                ctx.ok(rule, key, "TryFrom<&[u8]> calls try_from_bytes(bytes, mask_top_bit = false)", loc=f2.loc)
            else:
                ctx.bad(rule, key, "the Field255 decode path masks the top bit", loc=f2.loc)
    except Skip:
        pass
    # every caller of try_from_bytes other than the sampler decodes without masking
    n_sites = 0
    for f in ctx.prog.fns:
        if f.body is None or ctx.prog.is_test_util(f):
            continue
        for bi, t in f.body.calls():
            if t.callee.name != "try_from_bytes":
                continue
            g = ctx.guards(f)
            c = g.eb.call_expr(t)
            full = t.callee.bestfull or ""
            is255 = "Field255" in full
            sampler = f.name == "try_from_random"
            n_sites += 1
            key = "%s:%s:try_from_bytes-mask" % (rule, f.id)
            m = c[2][1]
            if sampler:
                okm = Lit(1)(m) if is255 else Sym("BIT_MASK")(m)
                want = "the sampling mask"
            else:
                okm = Lit(0)(m) if is255 else ("MAX" in fmt(m))
                want = "no mask (mask_top_bit = false / <int>::MAX)"
            if okm:
                ctx.ok(rule, key, "%s calls try_from_bytes with %s" % (f.id, want), loc=f.loc)
            else:
                ctx.bad(rule, key, "%s calls try_from_bytes with mask argument %s; a decoder must use %s, otherwise non-canonical "
                                   "encodings are accepted" % (f.id, fmt(m)[:60], want), loc=f.loc)
    if n_sites < 12:
        ctx.bad(rule, rule + ":try_from_bytes-sites", "expected at least 12 try_from_bytes call sites, found %d" % n_sites, kind="anchor")
    # the masking sampler entry point is used by the rejection sampler only - never by a decoder
    callers = sorted(set(f.id for f in ctx.prog.fns if f.body is not None and not ctx.prog.is_test_util(f)
                         for bi, t in f.body.calls() if t.callee.name == "try_from_random"))
    key = "%s:who-calls-try_from_random" % rule
    if callers == ["field::FieldElementExt::from_random_rejection"]:
        ctx.ok(rule, key, "try_from_random (masking) is called by from_random_rejection only")
    else:
        ctx.bad(rule, key, "try_from_random masks the bits above the modulus length; it is called from %s - a decoder using it accepts "
                           "non-canonical encodings" % [c for c in callers if c != "field::FieldElementExt::from_random_rejection"])
    for nm in ("get_decoded_with_param",):
        try:
            f = ctx.fn(rule, name=nm, id_re=r"^codec::ParameterizedDecode::get_decoded_with_param$")
            ctx.require_guard(rule, f, "Ne", ThroughCasts(Call("position")), Len(Arg(2)), desc="cursor position != len(bytes) -> BytesLeftOver")
        except Skip:
            pass
    try:
        f = ctx.fn(rule, name="get_decoded", id_re=r"^codec::Decode::get_decoded$")
        g = ctx.guards(f)
        key = "%s:%s" % (rule, f.id)
        ok1 = any(Call("get_decoded_with_param")(rd.expr) for rd in g.retdefs if rd.expr is not None) or \
            ctx.require_guard(rule, f, "Ne", ThroughCasts(Call("position")), Len(Arg(1)), desc="get_decoded: position != len -> Err", key=key + ":guard") is not None
        if ok1:
            ctx.ok(rule, key, "get_decoded rejects trailing bytes", loc=f.loc, nontrivial=False)
    except Skip:
        pass
    try:
        f = ctx.fn(rule, name="decode_with_param", trait="ParameterizedDecode", self_adt="idpf::IdpfPublicShare", id_re=r"ParameterizedDecode<usize>")
        g = ctx.guards(f)
        key = "%s:%s:unused-packed-bits-zero" % (rule, f.id)
        hit = [e for e in g.edges if e.cond[0] == "truth" and e.cond[2] is True and Call("any")(e.cond[1]) and
               set(rd.kind for rd in e.leads) == {"err"} and g.dominates_accepts(e)]
        good = False
        if hit:
            arg = hit[0].cond[1][2][0]
            good = Mentions(Agg("RangeFrom", Bin("Mul", Arg(1), Lit(2), commutative=True)))(arg)
        if good:
            ctx.ok(rule, key, "refuses when any packed control bit at index >= 2*bits is set", loc=f.loc)
        else:
            ctx.bad(rule, key, "the unused packed control bits [2*bits..] are not all required to be zero", loc=f.loc)
    except Skip:
        pass
    aggparam_decode_rules(ctx, rule)
    try:
        f = ctx.fn(rule, name="decode_fixlen_items", id_re=r"^codec::decode_fixlen_items$")
        g = ctx.guards(f)
        pos_len = lambda c: Call(c, ThroughCasts(Call("position", Arg(3))), Arg(1))          # position + length, either operand order
        total = Or(Field(pos_len("overflowing_add"), "0"), Field(pos_len("checked_add"), name="0", variant="Some"))
        ctx.require_guard(rule, f, "Gt", total, Len(Any()), desc="position + length > len(buffer) -> Err")
        key = "%s:%s:overflow-refused" % (rule, f.id)
        ov = [e for e in g.edges if e.cond[0] == "truth" and e.cond[2] is True and Field(pos_len("overflowing_add"), "1")(e.cond[1])
              and set(rd.kind for rd in e.leads) == {"err"}]
        ov += [e for e in g.edges if e.cond[0] == "variant" and e.cond[2] == "None" and e.cond[3] and pos_len("checked_add")(e.cond[1])
               and set(rd.kind for rd in e.leads) == {"err"}]
        if ov:
            ctx.ok(rule, key, "position + length overflow -> Err", loc=f.loc)
        else:
            ctx.bad(rule, key, "overflow of position + length is not refused", loc=f.loc)
        key = "%s:%s:outer-cursor-advanced" % (rule, f.id)
        sp = [g.eb.call_expr(t) for bi, t in f.body.calls() if t.callee.name == "set_position"]
        if len(sp) == 1 and Mentions(Call("position"))(sp[0][2][1]):
            ctx.ok(rule, key, "outer cursor advanced by the inner cursor's position", loc=f.loc)
        else:
            ctx.bad(rule, key, "outer cursor is not advanced by the bytes consumed", loc=f.loc)
    except Skip:
        pass
    for w in ("8", "16", "32"):
        try:
            f = ctx.fn(rule, name="encode_u%s_items" % w, id_re=r"^codec::encode_u%s_items$" % w)
            ctx.require_try_call(rule, f, Mentions(Call("try_from")), dominates=True, desc="encode_u%s_items: length does not fit the prefix -> Err" % w)
        except Skip:
            pass
    ctx.floor(rule, 22)

    # ---------------- R-C07.N: lengths re-derived by decoders are scaled per proof
    rule = "R-C07.N"
    per_proof = ("proof_len", "verifier_len")
    for f in [g for g in prog.fns if g.name == "decode_with_param" and g.file.endswith("vdaf/prio3.rs") and not prog.is_test_util(g)]:
        terms = all_terms(ctx, f)
        for acc in per_proof:
            uses = []
            for t in terms:
                for x in walk(t):
                    if isinstance(x, tuple) and x[0] == "call" and x[1].split("::")[-1] == acc:
                        uses.append(x)
            if not uses:
                continue
            key = "%s:%s:%s" % (rule, f.id, acc)
            scaled = any(Mentions(Bin("Mul", Mentions(Call(acc)), Mentions(Call("num_proofs")), commutative=True))(t) for t in terms)
            unscaled = False
            for t in terms:
                for x in walk(t):
                    if isinstance(x, tuple) and x[0] in ("agg", "call") :
                        ops = x[2]
                        for o in ops:
                            if isinstance(o, tuple) and o[0] == "call" and o[1].split("::")[-1] == acc:
                                unscaled = True
            if scaled and not unscaled:
                ctx.ok(rule, key, "%s() is used only as %s() * num_proofs()" % (acc, acc), loc=f.loc)
            else:
                ctx.bad(rule, key, "%s: a length derived from %s() is not scaled by num_proofs() (the constructing code uses %s()*num_proofs())" % (f.id, acc, acc), loc=f.loc)
    ctx.floor(rule, 2)

    # ---------------- R-C07.E
    rule = "R-C07.E"
    types = ["vdaf::Share", "vdaf::OutputShare", "vdaf::AggregateShare", "vdaf::xof::Seed", "vdaf::prio3::Prio3PublicShare",
             "vdaf::prio3::Prio3InputShare", "vdaf::prio3::Prio3VerifierShare", "vdaf::prio3::Prio3VerifierMessage", "vdaf::prio3::Prio3VerifyState",
             "vdaf::poplar1::Poplar1InputShare", "vdaf::poplar1::Poplar1VerifierState", "vdaf::poplar1::VerifierStateVariant",
             "vdaf::poplar1::VerifierState", "vdaf::poplar1::SketchState", "vdaf::poplar1::Poplar1FieldVec", "vdaf::prio2::Prio2VerifierState",
             "idpf::IdpfPublicShare", "idpf::IdpfCorrectionWord", "vdaf::poplar1::Poplar1IdpfValue"]
    for adt in types:
        if prog.find(name="ct_eq", trait="ConstantTimeEq", self_adt=adt):
            eqcov_impl(ctx, rule, adt, "ct_eq", "ConstantTimeEq")
        elif prog.find(name="eq", trait="PartialEq", self_adt=adt):
            eqcov_impl(ctx, rule, adt, "eq", "PartialEq")
        else:
            ctx.bad(rule, "%s:%s" % (rule, adt), "no equality impl found for %s" % adt, kind="anchor")
    for adt in ("topology::ping_pong::PingPongMessage", "vdaf::poplar1::Poplar1VerifierMessage", "vdaf::poplar1::Poplar1AggregationParam"):
        fs = prog.find(name="eq", trait="PartialEq", self_adt=adt)
        key = "%s:%s:eq" % (rule, adt)
        if fs and prog.impl_by_did.get(fs[0].impl, {}).get("derived"):
            ctx.ok(rule, key, "derived PartialEq (covers all fields)", nontrivial=False)
        elif fs:
            eqcov_impl(ctx, rule, adt, "eq", "PartialEq")
        else:
            ctx.bad(rule, key, "no PartialEq for %s" % adt, kind="anchor")
    ctx.floor(rule, 20)
