from rules import flp_guards, flp_shape, c10

INFO = {
    "explanation": "SYM shape identities (proof/verifier/prove-rand lengths, gadget counts, ceil(input_len/chunk_length) == joint_rand_len, range-check buffer arity, eval_output_len) for every circuit and every parameter, as polynomial normal forms; and static GUARD rules over the MIR of the FLP core: every length refusal of prove/query/decide, the "
                   "root-of-unity refusal for every gadget, decide's two checks, the call checks of every circuit and "
                   "gadget are present with the stated operands and relation, refuse on every path and dominate every "
                   "accepting return. The polynomial routines the proof system evaluates with (NTT, Lagrange-basis evaluation, extension, doubling) are held to their "
                   "transcription rules (R-C10.S, shared with C10: recurrences, butterflies, loops that visit every node). "
                   "Hand-written Clone impls copy every field from the field of the same name (R-C05.CL) and the multithreaded gadget is held to the serial one (R-C14.*), since `every validity circuit shipped` includes clones and the multithreaded variants. Decides the length-exactness/refusal clauses of C05 and that necessary structural part of completeness; completeness, soundness "
                   "and share-linearity (algebra over field values) are NOT decided.",
    "trusted_base": ["rustc type checker and MIR construction (nightly)", "expression reconstruction over MIR (sa/expr.py)"],
    "assumptions": ["a refusal is an Err (or Ok(false) in decide) return; panics are the subject of C16"],
}


def run(ctx):
    flp_guards.all_c05(ctx)
    flp_shape.run_shape(ctx, "R-C05.S")
    ctx.floor("R-C05.S", 40)
    ctx.floor("R-C05.G.prove", 3)
    ctx.floor("R-C05.G.query", 8)
    ctx.floor("R-C05.G.decide", 6)
    ctx.floor("R-C05.G.callcheck", 15)
    ctx.floor("R-C05.G.gadget", 12)
    # completeness rests on the polynomial routines the prover and verifier evaluate with (shared with C10)
    c10.run_shape(ctx)
    c10.run_exhaustive_loops(ctx)
    # "every validity circuit shipped": a cloned circuit must be the same circuit (hand-written Clone impls, shared with C01) and
    # the multithreaded gadget must compute what the serial one does (shared with C14)
    from rules.common import clone_faithful
    clone_faithful(ctx, "R-C05.CL")
    # every circuit must be evaluable for every bit width its constructor admits (the bit-vector codec's admissibility test, shared with C01)
    from rules import c01
    c01.run_bitlength(ctx)
    from rules import c14
    c14.run(ctx)
