"""R-*.S — FLP shape identities (shared by C01 and C05), decided symbolically over the instance parameters.

For every Flp impl shipped with the library the gadget list returned by `gadget()` is evaluated into
symbolic objects (constructor expressions followed through `new`), the gadgets' arity/degree/calls
are evaluated from their own impls (for every ParallelSumGadget impl), and the length accessors are
compared — as polynomial normal forms with uninterpreted npo2/div_ceil — with the generic formulas
that flp.rs asserts at run time:
   proof_len      == sum_g arity_g + gadget_poly_len(degree_g, wire_poly_len(calls_g))
   verifier_len   == 1 + sum_g (arity_g + 1)
   prove_rand_len == sum_g arity_g
   num_gadgets    == |gadget()|
   gadget_calls (stored by the constructor) == ceil(input_len / chunk_length) == joint_rand_len
   arity of the range-check gadget == length of the buffer handed to eval (2 * chunk_length)
   eval_output_len == number of elements `valid` returns
"""
from pat import *
from expr import fmt, walk
from harness import Skip
from guards import phi_defs, fmt_cond
from poly import Poly, to_poly

T = "flp::types::"
TYPES = ["Count", "Sum", "Histogram", "MultihotCountVec", "SumVec", "l1boundsum::L1BoundSum"]


class Obj:
    def __init__(self, ty, fields):
        self.ty = ty
        self.fields = fields

    def __repr__(self):
        return "%s%s" % (self.ty.split("::")[-1], self.fields)


class Shape:
    def __init__(self, ctx):
        self.ctx = ctx
        self.prog = ctx.prog

    def single_ret(self, f):
        g = self.ctx.guards(f)
        rds = [rd for rd in g.retdefs if rd.kind not in ("err", "partial")]
        if len(rds) != 1:
            return None
        rd = rds[0]
        e = rd.expr
        if rd.kind in ("ok", "some") and rd.payload is not None:
            e = rd.payload
        return e

    # ---- symbolic values: Poly | Obj
    def atomize(self, env):
        def a(e):
            if not isinstance(e, tuple) or not e:
                return None
            if e[0] == "param":
                v = env.get(e[2])
                if isinstance(v, Poly):
                    return v
                if v is None:
                    return ("p", e[1])
                return None
            if e[0] == "field":
                base = self.value(e[1], env)
                if isinstance(base, Obj):
                    v = base.fields.get(e[2])
                    if isinstance(v, Poly):
                        return v
                    if v is not None and not isinstance(v, Obj):
                        return ("opaque", e[2])
                    return None
                if base is None and e[1][0] == "param" and env.get(e[1][2]) is None:
                    return ("self", e[2])
                return None
            if e[0] == "call":
                name = e[1].split("::")[-1]
                if name == "next_power_of_two" and len(e[2]) == 1:
                    x = self.poly(e[2][0], env)
                    if x.is_const():
                        return Poly.const(1 << max(x.const_value() - 1, 0).bit_length())
                    return ("fn", "npo2", (x,))
                if name == "div_ceil" and len(e[2]) == 2:
                    return ("fn", "div_ceil", (self.poly(e[2][0], env), self.poly(e[2][1], env)))
                if name in ("arity", "degree", "calls") and e[2]:
                    o = self.value(e[2][0], env)
                    if isinstance(o, Obj):
                        return self.method(o, name)
                if name == "poly_deg" and e[2]:
                    v = self.value(e[2][0], env)
                    return ("deg", fmt(e[2][0])[:60] if v is None else repr(v))
                if name == "wire_poly_len" and len(e[2]) == 1:
                    return ("fn", "npo2", (Poly.const(1) + self.poly(e[2][0], env),))
                if name == "gadget_poly_len" and len(e[2]) == 2:
                    return self.poly(e[2][0], env) * (self.poly(e[2][1], env) - Poly.const(1)) + Poly.const(1)
            return None
        return a

    def poly(self, e, env):
        p = to_poly(e, self.atomize(env))
        return p

    def value(self, e, env):
        """evaluate a term to an Obj (constructed gadget / self) or None"""
        while isinstance(e, tuple) and e and e[0] in ("cast", "conv", "try"):
            e = e[1]
        if e[0] == "param":
            v = env.get(e[2])
            return v if isinstance(v, Obj) else None
        if e[0] == "field":
            b = self.value(e[1], env)
            if isinstance(b, Obj):
                v = b.fields.get(e[2])
                return v if isinstance(v, Obj) else None
            return None
        if e[0] == "call":
            name = e[1].split("::")[-1]
            if name == "new" and ("Box" in e[1]):
                return self.value(e[2][0], env)
            if name == "new":
                return self.construct(e, env)
            if name in ("clone",):
                return self.value(e[2][0], env)
        return None

    def construct(self, e, env, forced_impl=None):
        """`X::new(args)`: follow the constructor's returned aggregate"""
        path = e[1]
        cands = self.prog.by_id.get(path, [])
        if forced_impl is not None:
            cands = [forced_impl]
        elif not cands and e[4]:
            cands = [m for m in self.prog.trait_impl_methods("::".join(e[4].split("::")[:-1]), "new")]
        if len(cands) != 1:
            return None
        f = cands[0]
        r = self.single_ret(f)
        if r is None or r[0] != "agg":
            return None
        cenv = {}
        for i, a in enumerate(e[2]):
            v = self.value(a, env)
            cenv[i + 1] = v if v is not None else self.poly(a, env)
        fields = {}
        names = r[3] if len(r) > 3 else ()
        for nm, op in zip(names, r[2]):
            v = self.value(op, cenv)
            fields[nm] = v if v is not None else self.poly(op, cenv)
        return Obj(r[1], fields)

    def method(self, o, name):
        """arity/degree/calls of a gadget object, from its own Gadget impl"""
        adt = o.ty.split("::")[0] if False else o.ty
        fs = [f for f in self.prog.fns if f.name == name and f.impl_trait == "flp::Gadget" and f.self_adt == adt]
        if len(fs) != 1:
            return ("unknown-method", name, adt)
        r = self.single_ret(fs[0])
        if r is None:
            return ("unknown-method", name, adt)
        return self.poly(r, {1: o})


def gadget_variants(sh, f_gadget, self_obj_fields):
    """evaluate `gadget()`: list of alternatives (one per ParallelSumGadget impl), each a list of gadget Objs"""
    r = sh.single_ret(f_gadget)
    if r is None:
        return None
    # delegation (Average): `self.summer.gadget()`
    if r[0] == "call" and r[1].split("::")[-1] == "gadget":
        return "delegate"
    if not (r[0] == "agg" and r[1] == "vec"):
        return None
    alts = [[]]
    for el in r[2]:
        e = el
        while e[0] in ("cast", "conv"):
            e = e[1]
        if e[0] == "call" and e[1].split("::")[-1] == "new" and "Box" in e[1]:
            e = e[2][0]
        opts = []
        if e[0] == "call" and e[4] == "flp::gadgets::ParallelSumGadget::new":
            for m in sh.prog.trait_impl_methods("flp::gadgets::ParallelSumGadget", "new"):
                o = sh.construct(e, {}, forced_impl=m)
                if o is not None:
                    opts.append(o)
        else:
            o = sh.value(e, {})
            if o is not None:
                opts.append(o)
        if not opts:
            return None
        alts = [a + [o] for a in alts for o in opts]
    return alts


def run_shape(ctx, rule):
    sh = Shape(ctx)
    prog = ctx.prog
    one = Poly.const(1)
    for ty in TYPES:
        adt = T + ty
        try:
            fg = ctx.fn(rule, name="gadget", trait="Flp", self_adt=adt)
        except Skip:
            continue
        alts = gadget_variants(sh, fg, {})
        key0 = "%s:%s" % (rule, ty)
        if not alts or alts == "delegate":
            ctx.bad(rule, key0 + ":gadget", "cannot evaluate %s::gadget() symbolically" % ty, loc=fg.loc, kind="unproved")
            continue

        def acc(name):
            f = ctx.fn(rule, name=name, trait="Flp", self_adt=adt)
            r = sh.single_ret(f)
            if r is None:
                return None, f
            return sh.poly(r, {}), f
        for gi, gs in enumerate(alts):
            tag = "/".join(o.ty.split("::")[-1] for o in gs)
            ar = [sh.method(o, "arity") for o in gs]
            dg = [sh.method(o, "degree") for o in gs]
            cl = [sh.method(o, "calls") for o in gs]
            P = lambda x: x if isinstance(x, Poly) else Poly.atom(x)
            ar, dg, cl = [P(x) for x in ar], [P(x) for x in dg], [P(x) for x in cl]
            # degree of PolyEval over the bit range checker: poly_range_check(0, 2) has degree 2 (axiom: prod_{i in a..b}(x - i))
            dg = [degree_axiom(ctx, rule, ty, d) for d in dg]
            def npo2(c):
                x = one + c
                if x.is_const():
                    v = x.const_value()
                    return Poly.const(1 << max(v - 1, 0).bit_length())
                return Poly.atom(("fn", "npo2", (x,)))
            want_proof = Poly()
            for a, d, c in zip(ar, dg, cl):
                want_proof = want_proof + a + d * (npo2(c) - one) + one
            want_ver = one
            want_pr = Poly()
            for a in ar:
                want_ver = want_ver + a + one
                want_pr = want_pr + a
            for name, want in (("proof_len", want_proof), ("verifier_len", want_ver), ("prove_rand_len", want_pr), ("num_gadgets", Poly.const(len(gs)))):
                try:
                    got, f = acc(name)
                except Skip:
                    continue
                key = "%s:%s:%s[%s]" % (rule, ty, name, tag)
                if got is None:
                    ctx.bad(rule, key, "%s::%s is not a single expression" % (ty, name), loc=f.loc, kind="unproved")
                elif got == want:
                    ctx.ok(rule, key, "%s::%s() == %r  (gadgets: %s)" % (ty, name, want, tag), loc=f.loc,
                           sample={"rule": rule, "type": ty, "accessor": name, "normal_form": repr(want)})
                else:
                    ctx.bad(rule, key, "%s::%s() = %r but the gadget list %s requires %r (difference %r)" % (ty, name, got, tag, want, got - want), loc=f.loc)
            # range-check gadget: arity == 2 * chunk_length (the buffer handed to eval), calls == joint_rand_len
            if any("ParallelSum" in o.ty for o in gs):
                a0 = ar[0]
                key = "%s:%s:arity-matches-range-check-buffer[%s]" % (rule, ty, tag)
                if a0 == Poly.const(2) * Poly.atom(("self", "chunk_length")):
                    ctx.ok(rule, key, "gadget arity == 2 * chunk_length", loc=fg.loc)
                else:
                    ctx.bad(rule, key, "gadget arity %r != 2 * chunk_length (the buffer parallel_sum_range_checks hands to eval)" % a0, loc=fg.loc)
                try:
                    jr, f = acc("joint_rand_len")
                    key = "%s:%s:joint_rand_len==calls[%s]" % (rule, ty, tag)
                    if jr == cl[0]:
                        ctx.ok(rule, key, "joint_rand_len() == gadget calls == %r" % jr, loc=f.loc)
                    else:
                        ctx.bad(rule, key, "joint_rand_len() = %r but the gadget is called %r times (one joint-randomness element per chunk)" % (jr, cl[0]), loc=f.loc)
                except Skip:
                    pass
        # stored gadget_calls == ceil(input_len / chunk_length)
        if ty not in ("Count", "Sum"):
            try:
                fn = ctx.fn(rule, name="new", self_adt=adt, trait="")
                check_ceil(ctx, rule, sh, ty, fn)
            except Skip:
                pass
    # range-check helper: buffer = vec![zero; 2 * chunk_length]; one eval per chunk
    try:
        f = ctx.fn(rule, name="parallel_sum_range_checks", id_re=r"^flp::types::parallel_sum_range_checks$")
        g = ctx.guards(f)
        key = "%s:range-check-buffer" % rule
        evs = [(bi, g.eb.call_expr(t)) for bi, t in f.body.calls() if t.callee.name == "eval"]
        good = len(evs) == 1
        if good:
            buf = evs[0][1][2][1]
            init = g.eb.init_expr(buf[1]) if buf[0] == "phi" else buf
            good = init is not None and Call("from_elem", Any(), Bin("Mul", Lit(2), Arg(4), commutative=True))(init) and g.loop_of(evs[0][0]) is not None
        if good:
            ctx.ok(rule, key, "one gadget.eval(&padded_chunk) per chunk with padded_chunk = vec![0; 2*chunk_length]", loc=f.loc)
        else:
            ctx.bad(rule, key, "parallel_sum_range_checks does not call eval once per chunk on a 2*chunk_length buffer", loc=f.loc)
    except Skip:
        pass
    # eval_output_len == |valid()|
    for ty in TYPES:
        adt = T + ty
        try:
            fv = ctx.fn(rule, name="valid", trait="Flp", self_adt=adt)
            fe = ctx.fn(rule, name="eval_output_len", trait="Flp", self_adt=adt)
        except Skip:
            continue
        g = ctx.guards(fv)
        want = sh.single_ret(fe)
        key = "%s:%s:eval_output_len" % (rule, ty)
        n = None
        for rd in g.retdefs:
            if rd.kind == "ok" and rd.payload is not None:
                p = rd.payload
                if p[0] == "agg" and p[1] == "vec":
                    n = Poly.const(len(p[2]))
                elif p[0] == "phi":
                    init = g.eb.init_expr(p[1])
                    if init is not None and Call("from_elem", Any(), Len(Arg(3)))(init):
                        # vec![zero; input.len()] with len(input) pinned to input_len() by valid_call_check
                        fi = ctx.fn(rule, name="input_len", trait="Flp", self_adt=adt)
                        n = sh.poly(sh.single_ret(fi), {})
            elif rd.kind == "call" and Call("map", Call("parallel_sum_range_checks"), Any())(rd.expr):
                n = Poly.const(1)
        if want is not None and n is not None and sh.poly(want, {}) == n:
            ctx.ok(rule, key, "%s::valid returns %r element(s) == eval_output_len()" % (ty, n), loc=fv.loc)
        else:
            ctx.bad(rule, key, "%s: eval_output_len() = %s but valid returns %s element(s)" % (ty, fmt(want) if want else None, n), loc=fv.loc)


def degree_axiom(ctx, rule, ty, d):
    """replace deg(self.bit_range_checker) by 2 when the field is built as poly_range_check(0, 2)"""
    atoms = [a for a in d.atoms() if isinstance(a, tuple) and a and a[0] == "deg"]
    if not atoms:
        return d
    fn = ctx.prog.find(name="new", self_adt=T + ty, trait="")
    okk = False
    if fn:
        g = ctx.guards(fn[0])
        for rd in g.retdefs:
            if rd.kind == "ok" and rd.payload is not None and rd.payload[0] == "agg":
                names = rd.payload[3] if len(rd.payload) > 3 else ()
                for nm, op in zip(names, rd.payload[2]):
                    if nm == "bit_range_checker" and Call("poly_range_check", Lit(0), Lit(2))(op):
                        okk = True
    key = "%s:%s:degree-of-range-checker" % (rule, ty)
    if okk:
        ctx.ok(rule, key, "bit_range_checker = poly_range_check(0, 2), a degree-2 polynomial (axiom: prod_{i in 0..2}(x - i))", nontrivial=False)
        return Poly.const(2)
    ctx.bad(rule, key, "%s's range-check polynomial is not poly_range_check(0, 2)" % ty)
    return d


def check_ceil(ctx, rule, sh, ty, fn):
    """the constructor stores gadget_calls = ceil(n / chunk_length) where n is the value input_len() returns"""
    g = ctx.guards(fn)
    key = "%s:%s:gadget_calls==ceil(input_len/chunk_length)" % (rule, ty)
    payload = None
    for rd in g.retdefs:
        if rd.kind == "ok" and rd.payload is not None and rd.payload[0] == "agg":
            payload = rd.payload
    if payload is None:
        ctx.bad(rule, key, "constructor shape not recognised", loc=fn.loc, kind="unproved")
        return
    fields = dict(zip(payload[3], payload[2]))
    gc = fields.get("gadget_calls")
    chunk = fields.get("chunk_length")
    if gc is None or chunk is None:
        ctx.bad(rule, key, "no gadget_calls / chunk_length field", loc=fn.loc, kind="unproved")
        return
    num = None
    form = None
    if gc[0] == "call" and gc[1].split("::")[-1] == "div_ceil" and len(gc[2]) == 2 and gc[2][1] == chunk:
        num, form = gc[2][0], "n.div_ceil(chunk_length)"
    elif gc[0] == "phi":
        defs = phi_defs(g, gc[1])
        if len(defs) == 2:
            base = [d for d in defs if d[0][0] == "bin" and d[0][1] == "Div" and d[0][3] == chunk]
            inc = [d for d in defs if Bin("Add", lambda x: x == gc, Lit(1), commutative=True)(d[0])]
            if len(base) == 1 and len(inc) == 1:
                n = base[0][0][2]
                # the increment happens exactly when n % chunk != 0
                conds = inc[0][1]
                rem_ne = any((c[0] == "rel" and c[1] == "Ne" and Bin("Rem", lambda x: x == n, lambda x: x == chunk)(c[2]) and Lit(0)(c[3])) or
                             (c[0] == "truth" and c[2] is False and Call("is_multiple_of", lambda x: x == n, lambda x: x == chunk)(c[1]))
                             for c in conds)
                if rem_ne:
                    num, form = n, "n / chunk_length + (n % chunk_length != 0)"
            else:
                # the if-expression: `if n % c == 0 { n / c } else { n / c + 1 }` (either branch order)
                isdiv = lambda x: isinstance(x, tuple) and x[0] == "bin" and x[1] == "Div" and x[3] == chunk
                base = [d for d in defs if isdiv(d[0])]
                inc = [d for d in defs if Bin("Add", isdiv, Lit(1), commutative=True)(d[0])]
                if len(base) == 1 and len(inc) == 1:
                    n = base[0][0][2]
                    q = inc[0][0][2] if isdiv(inc[0][0][2]) else inc[0][0][3]
                    rem = lambda x: Bin("Rem", lambda y: y == n, lambda y: y == chunk)(x)
                    def has(conds, op):
                        return any((c[0] == "rel" and c[1] == op and rem(c[2]) and Lit(0)(c[3])) or
                                   (c[0] == "rel" and c[1] == {"Ne": "Gt", "Eq": "Le"}[op] and rem(c[2]) and Lit(0)(c[3])) or
                                   (c[0] == "truth" and c[2] is (op == "Eq") and Call("is_multiple_of", lambda y: y == n, lambda y: y == chunk)(c[1]))
                                   for c in conds)
                    if q[2] == n and has(inc[0][1], "Ne") and has(base[0][1], "Eq"):
                        num, form = n, "if n % chunk_length == 0 { n / chunk_length } else { n / chunk_length + 1 }"
    if num is None:
        ctx.bad(rule, key, "%s::new does not compute gadget_calls as a ceiling division by chunk_length: %s" % (ty, fmt(gc)[:160]), loc=fn.loc)
        return
    # n must be the stored input length
    fi = ctx.fn(rule, name="input_len", trait="Flp", self_adt=T + ty)
    il = sh.single_ret(fi)
    # express input_len in constructor terms: substitute self.<f> by the constructor's field expression
    def subst_self(e):
        if isinstance(e, tuple) and e and e[0] == "field" and e[1][0] == "param" and e[2] in fields:
            return fields[e[2]]
        if isinstance(e, tuple):
            return tuple(subst_self(x) if isinstance(x, tuple) and x and isinstance(x[0], str) else
                         (tuple(subst_self(z) if isinstance(z, tuple) else z for z in x) if isinstance(x, tuple) else x) for x in e)
        return e
    def P(e):
        return to_poly(e, lambda x: ("t", fmt(x)) if isinstance(x, tuple) and x and x[0] in ("param", "phi", "call", "field", "try", "vfield") and not (x[0] == "try") else None)
    try:
        same = P(subst_self(il)) == P(num)
    except Exception:
        same = False
    if same:
        ctx.ok(rule, key, "%s::new: gadget_calls = %s with n = input_len() = %s" % (ty, form, fmt(num)[:80]), loc=fn.loc)
    else:
        ctx.bad(rule, key, "%s::new: gadget_calls is the ceiling of %s / chunk_length, but input_len() is %s" % (ty, fmt(num)[:80], fmt(subst_self(il))[:80]), loc=fn.loc)
