"""Rule helpers shared by several properties."""
from pat import *
from expr import fmt, walk

TRUNCATING_ADAPTERS = ("skip", "take", "step_by", "filter", "rev", "skip_while", "take_while", "nth", "last", "filter_map")
SLICING_CALLS = ("index", "index_mut", "get", "get_mut", "split_at", "split_at_mut", "first", "last", "split_first",
                 "split_last", "chunks", "windows", "take", "skip", "truncate", "get_unchecked", "split_off", "drain",
                 "starts_with", "ends_with", "first_chunk", "last_chunk", "as_chunks")


def adapters_in(src):
    """truncating *iterator* adapters applied inside a term (slice::last etc. are not adapters)"""
    out = []
    for x in walk(src):
        if isinstance(x, tuple) and x[0] == "call":
            name = x[1].split("::")[-1]
            if name in TRUNCATING_ADAPTERS and ("Iterator" in x[1] or "iter::" in x[1] or "Iterator" in (x[4] or "")):
                out.append(name)
            # zipping with a bounded range stops after `end - start` items: the other side may be cut short
            if name == "zip" and ("Iterator" in x[1] or "Iterator" in (x[4] or "")) and len(x[2]) == 2:
                for a in x[2]:
                    if isinstance(a, tuple) and a[0] == "agg" and a[1].endswith("ops::Range") and len(a[2]) == 2:
                        out.append("zip(bounded range)")
    return out


def Elem(base, allow=(), g=None):
    """an element of `base`: `base[i]`, or the item of an iteration over `base` whose only truncating adapters are
    among `allow` (so `for i in 1..n { base[i] }` and `base.iter().skip(1)` are the same thing to a rule).
    g: the function's guards, to resolve the loop's iterator variable to its initial value"""
    def m(e):
        e = strip(e)
        if Index(base, Any())(e):
            return True
        if Field(Call("next", Any()), name="0", variant="Some")(e):
            it = e[1][2][0] if e[1][2] else None
            if it is not None and it[0] == "phi" and g is not None:
                it = g.eb.init_expr(it[1]) or it
            return it is not None and Mentions(base)(it) and all(a in allow for a in adapters_in(it))
        return False
    return m


def early_exits(g, b, lp, refusal=("err",)):
    """edges that leave loop lp other than (a) the exhaustion edge (`next(..)` is None) of an iterator advanced inside it
    and (b) edges that lead only to refusal returns: `break` / early `return` out of a loop that must visit every item"""
    out = []
    for e in g.edges:
        if e.block not in lp[1] or e.target in lp[1]:
            continue
        c = e.cond
        if c[0] == "variant" and c[2] == "None" and c[3] and isinstance(c[1], tuple) and c[1][0] == "call" and c[1][1].split("::")[-1] == "next":
            continue
        kinds = set(rd.kind for rd in e.leads)
        if kinds and kinds <= set(refusal):
            continue
        if not e.leads:
            continue            # panic path
        out.append(e)
    return out


def loop_covers_all(ctx, rule, f, edge, source_pat, desc, key=None, refusal=("err",)):
    """the innermost loop containing edge iterates a source matching source_pat without truncating
    adapters, and its header dominates every accepting return"""
    g = ctx.guards(f)
    key = key or "%s:%s:loop-covers-all:%s" % (rule, f.id, desc)
    src = ctx.loop_source(f, edge)
    lp = g.loop_of(edge.block)
    if src is None or lp is None:
        ctx.bad(rule, key, "cannot identify the loop/iterator for: %s" % desc, loc=f.loc)
        return False
    ad = adapters_in(src)
    hdr_dom = all(f.body.dominates(lp[0], rd.block) for rd in g.accept_defs(refusal))
    if Mentions(source_pat)(src) and not ad and hdr_dom:
        ctx.ok(rule, key, "%s: iterates %s" % (desc, fmt(src)[:160]), loc=f.loc)
        return True
    ctx.bad(rule, key, "%s: loop source=%s truncating-adapters=%s header-dominates-accept=%s" % (
        desc, fmt(src)[:160], ad, hdr_dom), loc=f.loc)
    return False


def all_terms(ctx, f):
    g = ctx.guards(f)
    eb = g.eb
    out = []
    for bi, t in f.body.calls():
        out.append(eb.call_expr(t))
    for bi, si, s in f.body.iter_stmts():
        if s.rv is not None:
            out.append(eb.rvalue(s.rv))
    for bi, t in f.body.iter_terms():
        if t.kind == "switch":
            out.append(eb.operand(t.discr))
    return out


def field_reads(ctx, f):
    """(param local, variant|None, field) -> set of contexts ('whole' | 'sliced:<call>')"""
    reads = {}

    def rec(e, parent):
        if not isinstance(e, tuple) or not e:
            return
        tag = e[0]
        if tag in ("field", "vfield"):
            base = e[1]
            while isinstance(base, tuple) and base[0] in ("try", "cast", "conv"):
                base = base[1]
            if isinstance(base, tuple) and base[0] == "param":
                keyv = (base[2], e[2] if tag == "vfield" else None, e[3] if tag == "vfield" else e[2])
                ctxs = reads.setdefault(keyv, set())
                c = "whole"
                if parent is not None:
                    if parent[0] in ("index", "slice") and parent[1] is e:
                        c = "sliced:%s" % parent[0]
                    elif parent[0] == "call" and parent[2] and parent[2][0] is e and parent[1].split("::")[-1] in SLICING_CALLS:
                        c = "sliced:%s" % parent[1].split("::")[-1]
                ctxs.add(c)
        for y in e[1:]:
            if isinstance(y, tuple):
                if y and isinstance(y[0], str):
                    rec(y, e)
                else:
                    for z in y:
                        if isinstance(z, tuple):
                            rec(z, e)

    for t in all_terms(ctx, f):
        rec(t, None)
    return reads


def eqcov_impl(ctx, rule, adt_path, method, trait, both=True):
    """hand-written `method` of `trait` for adt reads every (non-PhantomData) field of every variant of
    self and of other, and never only a slice/prefix of it"""
    fs = ctx.prog.find(name=method, trait=trait, self_adt=adt_path)
    key = "%s:%s:%s" % (rule, adt_path, method)
    if len(fs) != 1:
        ctx.bad(rule, key, "expected exactly one %s::%s impl for %s, found %d" % (trait, method, adt_path, len(fs)), kind="anchor")
        return
    f = fs[0]
    imp = ctx.prog.impl_by_did.get(f.impl)
    if imp is not None and imp.get("derived"):
        ctx.ok(rule, key, "%s::%s for %s is derived by the compiler (covers all fields)" % (trait, method, adt_path), loc=f.loc,
               nontrivial=False)
        return
    adt = ctx.prog.adt_by_path.get(adt_path)
    if adt is None:
        ctx.bad(rule, key, "ADT %s not found" % adt_path, kind="anchor")
        return
    reads = field_reads(ctx, f)
    is_enum = adt["k"] == "Enum"
    missing = []
    sliced = []
    params = (1, 2) if both else (1,)
    nfields = 0
    for var in adt["variants"]:
        for fld in var["fields"]:
            tys = ctx.prog.types[fld["t"]]["s"]
            if "PhantomData" in tys:
                continue
            nfields += 1
            for p in params:
                k = (p, var["n"] if is_enum else None, fld["n"])
                cs = reads.get(k)
                if not cs:
                    missing.append("%s%s.%s of arg %d" % (adt_path.split("::")[-1], ("::" + var["n"]) if is_enum else "", fld["n"], p))
                elif "whole" not in cs:
                    sliced.append("%s.%s of arg %d (%s)" % (var["n"], fld["n"], p, sorted(cs)))
    if missing or sliced:
        ctx.bad(rule, key, "%s does not compare whole fields: missing=%s partial=%s" % (f.id, missing, sliced), loc=f.loc)
    else:
        ctx.ok(rule, key, "%s reads all %d field(s) of both operands whole" % (f.id, nfields), loc=f.loc,
               sample={"rule": rule, "fn": f.id, "fields_read": sorted("%s.%s" % (k[1] or "", k[2]) for k in reads if k[0] == 1)})


def field_writes(ctx, f, name):
    """assignments to a struct field called `name`: [(block, stmt index, value term, line)]"""
    g = ctx.guards(f)
    out = []
    for bi, si, s in f.body.iter_stmts():
        if s.kind == "assign" and s.place and s.place[1] and isinstance(s.place[1][-1], tuple) and \
                s.place[1][-1][0] == "f" and s.place[1][-1][2] == name:
            out.append((bi, si, g.eb.rvalue(s.rv), s.line))
    return out


def calls_named(ctx, f, *names):
    g = ctx.guards(f)
    return [(bi, g.eb.call_expr(t)) for bi, t in f.body.calls() if t.callee.name in names]


def req(ctx, rule, key, cond, okmsg, badmsg, loc=None):
    if cond:
        ctx.ok(rule, key, okmsg, loc=loc)
    else:
        ctx.bad(rule, key, badmsg, loc=loc)
    return bool(cond)


def strip(e):
    """peel conversions: casts, try_from/from/into and unwrap/expect wrappers"""
    while isinstance(e, tuple):
        if e[0] in ("cast", "conv", "try"):
            e = e[1]
        elif e[0] == "call" and e[1].split("::")[-1] in ("unwrap", "expect", "try_from", "from", "into", "try_into") and e[2]:
            e = e[2][0]
        else:
            return e
    return e


def S(p):
    return lambda e: p(strip(e))




def find_rel_edges(g, op, lhs, rhs):
    """edges whose condition is `lhs <op> rhs`, modulo operand order (a < b  ==  b > a)"""
    from guards import SWAP
    out = []
    for e in g.edges:
        c = e.cond
        if c[0] != "rel":
            continue
        if c[1] == op and lhs(c[2]) and rhs(c[3]):
            out.append(e)
        elif SWAP[c[1]] == op and lhs(c[3]) and rhs(c[2]):
            out.append(e)
    return out


def clone_faithful(ctx, rule, floor=5):
    """every hand-written Clone::clone copies each field from the field of the same name (PhantomData excepted)"""
    n = 0
    for f in ctx.prog.find(name="clone", trait="Clone"):
        imp = ctx.prog.impl_by_did.get(f.impl) if f.impl is not None else None
        if imp is None or imp.get("derived") or f.body is None:
            continue
        g = ctx.guards(f)
        rds = [rd for rd in g.retdefs if rd.expr is not None]
        key = "%s:%s" % (rule, f.id)
        if len(rds) != 1 or rds[0].expr[0] != "agg" or len(rds[0].expr) < 4 or not rds[0].expr[3]:
            continue            # not a field-by-field struct literal (e.g. delegating clones): nothing to compare
        n += 1
        e = rds[0].expr
        wrong = []
        for name, v in zip(e[3], e[2]):
            if "PhantomData" in fmt(v) or name == "phantom":
                continue
            if not Field(Local(1), name)(strip(v)):
                wrong.append("%s: %s" % (name, fmt(v)[:60]))
        if wrong:
            ctx.bad(rule, key, "%s does not copy every field from the field of the same name: %s" % (f.id, wrong), loc=f.loc)
        else:
            ctx.ok(rule, key, "clone copies all %d fields one to one" % len(e[3]), loc=f.loc)
    if n < floor:
        ctx.bad(rule, rule + ":floor", "expected at least %d hand-written field-by-field Clone impls, found %d" % (floor, n), kind="anchor")


def closure_ret_in_parent(ctx, clos):
    """return term of a closure with its captured variables replaced by the terms the parent captured (so that a value
    hoisted out of the closure and one computed inside it look the same); closure parameters stay Local(2..)"""
    cf = ctx.prog.by_did.get(clos[3])
    if cf is None:
        return None
    cg = ctx.guards(cf)
    rds = [rd for rd in cg.retdefs if rd.expr is not None]
    if len(rds) != 1:
        return None
    names = [c["n"] for c in cf.captures]
    caps = {}
    for n, t in zip(names, clos[2]):
        caps[n] = t
        caps["*" + n] = t

    def rep(e):
        if not isinstance(e, tuple) or not e:
            return e
        if e[0] == "upvar" and e[1] in caps:
            return caps[e[1]]
        out = []
        for y in e:
            if isinstance(y, tuple):
                if y and isinstance(y[0], str):
                    out.append(rep(y))
                else:
                    out.append(tuple(rep(z) if isinstance(z, tuple) else z for z in y))
            else:
                out.append(y)
        return tuple(out)
    return rep(rds[0].expr)


def enumerate_paths(body, limit=256):
    """all acyclic entry->return paths (lists of block indices) of a small function, cleanup blocks excluded;
    None when there are more than `limit` (or the function has a loop on the way)"""
    out = []
    succ = body.succ if hasattr(body, "succ") else None
    def nxt(bi):
        t = body.blocks[bi].term
        return [x for x in dict.fromkeys(t.targets) if x is not None and not body.blocks[x].cleanup] if t.targets else []
    stack = [(0, [0])]
    while stack:
        bi, path = stack.pop()
        t = body.blocks[bi].term
        if t.kind == "return":
            out.append(path)
            if len(out) > limit:
                return None
            continue
        for n in nxt(bi):
            if n in path:
                return None
            stack.append((n, path + [n]))
    return out
