from pat import *
from expr import fmt, walk
from harness import Skip
from guards import decision_table, block_conditions, phi_defs
from rules.common import adapters_in, loop_covers_all, strip

INFO = {
    "explanation": "GUARD/DEP/WMC rules over the MIR of Poplar1::is_agg_param_valid, the Prio3/Prio2 single-use rule and "
                   "Poplar1AggregationParam::{try_from_prefixes, decode}: the predicate has the specification's shape "
                   "(empty history accepted first; comparison against the LAST previous parameter; `cur.level <= "
                   "last.level` refused; universal quantification over ALL current prefixes of membership of the "
                   "prefix truncated to the last level in the set of ALL last prefixes); the constructor refuses "
                   "empty lists, more than u32::MAX prefixes, unequal lengths, non-increasing order, length 0 and "
                   "length > 2^16; the struct literal occurs only in the constructor and decode returns through it. "
                   "Because these are features of the predicate itself they hold for every history. An equivalent "
                   "rewrite outside the enumerated accepted forms would be reported as `shape not recognised`.",
    "trusted_base": ["rustc type checker and MIR construction (nightly)", "expression reconstruction (sa/expr.py)",
                     "draft-irtf-cfrg-vdaf-18 section 8.2.4 (is_valid)"],
    "assumptions": ["BTreeSet::contains / Iterator::all / slice::last have their documented meaning"],
}

P1 = "vdaf::poplar1::Poplar1"


def last_of(prev):
    """accepted forms of `the last element of prev`"""
    return Or(Mentions(Call("last", prev)),
              Mentions(Index(prev, Bin("Sub", Len(prev), Lit(1)))),
              Mentions(Call("next_back", Mentions(prev))),
              Mentions(Call("split_last", prev)))


def constructor_rules(ctx, rule):
    try:
        f = ctx.fn(rule, name="try_from_prefixes", self_adt="vdaf::poplar1::Poplar1AggregationParam")
        g = ctx.guards(f)
        pf = Arg(1)
        ctx.require_guard(rule, f, "Eq", Len(pf), Lit(0), desc="prefixes.is_empty() -> Err")
        ctx.require_variant_guard(rule, f, Call("try_from", Len(pf)), "Err", True, desc="u32::try_from(prefixes.len()) is Err -> Err")
        item = lambda e: Mentions(Call("next"))(e)
        e1 = ctx.require_guard(rule, f, "Ne", Len(item), Len(Index(pf, Lit(0))), every_iteration=True,
                               desc="prefix.len() != prefixes[0].len() -> Err  [every prefix]")
        if e1 is not None:
            loop_covers_all(ctx, rule, f, e1, pf, "length loop iterates all prefixes")
        is_first = lambda ed: ed.cond[0] == "variant" and ed.cond[2] == "None" and ed.cond[3] and ed.cond[1][0] == "phi"
        e2 = ctx.require_guard(rule, f, "Le", item, Field(Any(), name="0", variant="Some"), every_iteration=True, bypass=is_first,
                               desc="prefix <= previous prefix -> Err  [every prefix after the first]")
        if e2 is not None:
            # the `previous` is updated to the current prefix on every iteration
            c = e2.cond
            prevv = c[3] if item(c[2]) else c[2]
            ph = [x for x in walk(prevv) if isinstance(x, tuple) and x[0] == "phi"]
            key = "%s:%s:previous-is-updated" % (rule, f.id)
            good = False
            if ph:
                l = ph[0][1]
                defs = phi_defs(g, l)
                lp = g.loop_of(e2.block)
                for (de, dconds, bi) in defs:
                    if Agg("Option::Some", item)(de) and lp and bi in lp[1]:
                        latches = [t for (t, hh) in f.body.back_edges() if hh == lp[0]]
                        if all(f.body.dominates(bi, t) for t in latches):
                            good = True
                inits = [de for (de, dc, bi) in defs if Agg("Option::None")(de)]
                good = good and len(inits) == 1 and len(defs) == 2
            if good:
                ctx.ok(rule, key, "previous starts as None and is set to Some(current) on every iteration", loc=f.loc)
            else:
                ctx.bad(rule, key, "the compared `previous prefix` is not updated to the current prefix on every iteration", loc=f.loc)
        ctx.require_try_call(rule, f, Call("ok_or_else", Call("checked_sub", Len(Index(pf, Lit(0))), Lit(1))),
                             desc="len.checked_sub(1).ok_or_else(..)")
        ctx.require_try_call(rule, f, Call("map_err", Call("try_from", Try(Mentions(Call("checked_sub"))))), desc="u16::try_from(level).map_err(..)")
        # payload
        acc = g.accept_defs(("err",))
        key = "%s:%s:payload" % (rule, f.id)
        if len(acc) == 1 and Agg("Result::Ok", Agg("Poplar1AggregationParam", Try(Mentions(Call("try_from", Try(Mentions(Call("checked_sub")))))), pf))(acc[0].expr):
            ctx.ok(rule, key, "Ok(Self { level: u16::try_from(len - 1)?, prefixes })", loc=f.loc)
        else:
            ctx.bad(rule, key, "constructor result is not {level = len-1 (u16), prefixes = the argument}: %s" % [fmt(a.expr)[:160] for a in acc], loc=f.loc)
    except Skip:
        pass
    ctx.floor(rule, 9)



def validity_rules(ctx, rule="R-C20.V.poplar1"):
    """Poplar1::is_agg_param_valid has the specification's shape (shared with C03)"""
    try:
        f = ctx.fn(rule, name="is_agg_param_valid", trait="Aggregator", self_adt=P1)
        g = ctx.guards(f)
        cur, prev = Arg(1), Arg(2)
        # 1. empty history -> true, decided first
        key = "%s:%s:empty-history-accepted" % (rule, f.id)
        e0 = [e for e in g.edges if e.cond[0] == "rel" and e.cond[1] == "Eq" and Len(prev)(e.cond[2]) and Lit(0)(e.cond[3])]
        if not e0:
            # the same decision spelled on the element: `match prev.last() { None => return true, Some(last) => .. }`
            e0 = [e for e in g.edges if e.cond[0] == "variant" and e.cond[2] == "None" and e.cond[3] and
                  (Call("last", prev)(e.cond[1]) or Call("split_last", prev)(e.cond[1]) or Call("next_back", Mentions(prev))(e.cond[1]))]
        if len(e0) == 1 and set(rd.kind for rd in e0[0].leads) == {"true"} and \
                all(f.body.dominates(e0[0].block, rd.block) for rd in g.retdefs):
            ctx.ok(rule, key, "prev.is_empty() -> true, and this test dominates every return", loc=f.loc)
        else:
            ctx.bad(rule, key, "`prev.is_empty() -> true` is not the first decision", loc=f.loc)
        # 2. level must strictly increase relative to the LAST parameter
        lvl = ctx.require_guard(rule, f, "Le", Field(Mentions(cur), "level"), Field(last_of(prev), "level"), refusal=("false",),
                                dominates=False, desc="cur.level <= last.level -> false")
        if lvl is not None:
            key = "%s:%s:level-check-dominates-acceptance" % (rule, f.id)
            acc = [rd for rd in g.retdefs if rd.kind not in ("false",) and not (rd.kind == "true" and rd.block in g.reach(e0[0].target) if e0 else False)]
            if acc and all(f.body.dominates(lvl.block, rd.block) for rd in acc):
                ctx.ok(rule, key, "every non-empty-history acceptance is dominated by the level check", loc=f.loc)
            else:
                ctx.bad(rule, key, "an acceptance for a non-empty history bypasses the level check", loc=f.loc)
        # 3. universal quantification over all current prefixes
        key = "%s:%s:forall-prefixes-membership" % (rule, f.id)
        # (after canonicalisation `iter.all(|p| ..)` is the loop `for p in iter { if !.. { return false } } true`)
        good = False
        detail = ""
        b = f.body
        cs = [(bi, g.eb.call_expr(t)) for bi, t in b.calls() if t.callee.name == "contains" and g.loop_of(bi) is not None]
        quant_true = None
        ref = []
        if len(cs) == 1:
            cbi, r = cs[0]
            detail = fmt(r)[:300]
            lp = g.loop_of(cbi)
            class _E:
                block = cbi
            src = ctx.loop_source(f, _E)
            nxt = [bi for bi in lp[1] if b.blocks[bi].term.kind == "call" and b.blocks[bi].term.callee.path == "std::iter::Iterator::next"]
            item = Field(Call("next", Any()), name="0", variant="Some")
            src_ok = src is not None and Field(Mentions(cur), "prefixes")(strip(src)) and not adapters_in(src) and len(nxt) == 1
            if src_ok and Call("contains", Any(), Call("prefix", item, ThroughCasts(Any())))(r):
                set_e = r[2][0]
                lvl_e = r[2][1][2][1]
                while lvl_e[0] in ("cast", "conv"):
                    lvl_e = lvl_e[1]
                if set_e[0] == "phi":
                    set_e = g.eb.init_expr(set_e[1]) or set_e
                set_ok = (Call("from_iter", Field(last_of(prev), "prefixes"))(set_e) or
                          Call("collect", Field(last_of(prev), "prefixes"))(set_e)) and not adapters_in(set_e)
                lvl_ok = Field(last_of(prev), "level")(lvl_e)
                # a prefix that is not a member refuses; the test is made in every iteration; the loop is left only by that
                # refusal or by exhausting the prefixes, and `true` is returned only after exhaustion
                ref = [e for e in g.edges if e.cond[0] == "truth" and e.cond[1] == r and e.cond[2] is False and e.block in lp[1]]
                exits = [e for e in g.edges if e.block in lp[1] and e.target not in lp[1]]
                none = [e for e in exits if e.cond[0] == "variant" and e.cond[2] == "None" and e.cond[3]]
                latches = [t for (t, hh) in b.back_edges() if hh == lp[0]]
                ref_ok = len(ref) == 1 and set(rd.kind for rd in ref[0].leads) == {"false"} and all(b.dominates(ref[0].block, t) for t in latches) and \
                    len(none) == 1 and len(exits) == 2 and ref[0] in exits
                if ref_ok:
                    tr = [rd for rd in none[0].leads]
                    ref_ok = len(tr) == 1 and tr[0].kind == "true" and b.dominates(none[0].target, tr[0].block)
                    quant_true = tr[0] if ref_ok else None
                good = set_ok and lvl_ok and ref_ok
                detail += " ; set=%s level=%s per-item refusal=%s" % (fmt(set_e)[:120], fmt(lvl_e)[:80], ref_ok)
        if good:
            ctx.ok(rule, key, "returns cur.prefixes.iter().all(|p| set(last.prefixes).contains(p.prefix(last.level)))", loc=f.loc,
                   sample={"rule": rule, "shape": detail[:400]})
        else:
            ctx.bad(rule, key, "shape not recognised as `for all current prefixes: truncation to the last level is among all last prefixes`: %s" % detail, loc=f.loc)
        # nothing else can return true
        key = "%s:%s:no-other-acceptance" % (rule, f.id)
        trues = [rd for rd in g.retdefs if rd.kind not in ("false",) and rd is not quant_true]
        if len(trues) == 1 and trues[0].kind == "true" and e0 and trues[0].block in g.reach(e0[0].target) and quant_true is not None:
            ctx.ok(rule, key, "true is returned only for an empty history or after every prefix passed the membership test", loc=f.loc)
        else:
            ctx.bad(rule, key, "unexpected set of returns: %s" % [(rd.kind, fmt(rd.expr)[:60]) for rd in g.retdefs], loc=f.loc)
        # ... and nothing else can return false ("valid exactly when"): every `false` is behind the level refusal or the
        # per-prefix membership refusal
        key = "%s:%s:no-other-refusal" % (rule, f.id)
        falses = [rd for rd in g.retdefs if rd.kind == "false"]
        ref_edge = ref[0] if len(ref) == 1 else None
        okf = bool(falses) and lvl is not None and ref_edge is not None
        stray = []
        if okf:
            for rd in falses:
                if not (b.dominates(lvl.target, rd.block) or b.dominates(ref_edge.target, rd.block)):
                    stray.append(rd)
        if okf and not stray:
            ctx.ok(rule, key, "false is returned only when the level did not increase or a prefix is not an extension", loc=f.loc)
        else:
            ctx.bad(rule, key, "a parameter can be declared invalid for another reason (return false at line(s) %s)" % sorted(set(rd.line for rd in stray)), loc=f.loc)
    except Skip:
        pass
    ctx.floor(rule, 6)


def run(ctx):
    validity_rules(ctx)
    rule = "R-C20.V.single-use"
    for adt in ("vdaf::prio3::Prio3", "vdaf::prio2::Prio2"):
        try:
            f = ctx.fn(rule, name="is_agg_param_valid", trait="Aggregator", self_adt=adt)
            g = ctx.guards(f)
            key = "%s:%s" % (rule, f.id)
            rds = g.retdefs
            if len(rds) == 1 and rds[0].expr is not None and (Call("is_empty", Arg(2))(rds[0].expr) or
                                                                 Bin("Eq", Len(Arg(2)), Lit(0), commutative=True)(rds[0].expr)):
                ctx.ok(rule, key, "valid iff prev.is_empty()", loc=f.loc)
            else:
                ctx.bad(rule, key, "is_agg_param_valid is not `prev.is_empty()`: %s" % [fmt(r.expr)[:80] for r in rds], loc=f.loc)
        except Skip:
            pass
    ctx.floor(rule, 2)

    constructor_rules(ctx, "R-C20.G.constructor")
    # decoding accepts exactly the canonical packed prefixes (shared with C07)
    from rules import c07
    c07.aggparam_decode_rules(ctx, "R-C20.G.decode")

    rule = "R-C20.W.literal"
    sites = []
    for f in ctx.prog.fns:
        if ctx.prog.is_test_util(f):
            continue
        imp = ctx.prog.impl_by_did.get(f.impl) if f.impl is not None else None
        if imp is not None and imp.get("derived"):
            continue
        for bi, si, s in f.body.iter_stmts():
            if s.rv is not None and s.rv.kind == "agg" and s.rv.agg == "adt" and s.rv.path == "vdaf::poplar1::Poplar1AggregationParam":
                sites.append(f)
    key = rule + ":sites"
    ids = sorted(set(f.id for f in sites))
    if ids == ["vdaf::poplar1::Poplar1AggregationParam::try_from_prefixes"]:
        ctx.ok(rule, key, "the struct literal occurs only in try_from_prefixes", nontrivial=True)
    else:
        ctx.bad(rule, key, "Poplar1AggregationParam is constructed outside try_from_prefixes: %s" % ids)
    adt = ctx.prog.adt_by_path.get("vdaf::poplar1::Poplar1AggregationParam")
    key = rule + ":fields-private"
    if adt and all(fl["vis"] != "pub" for v in adt["variants"] for fl in v["fields"]):
        ctx.ok(rule, key, "fields level/prefixes are private", nontrivial=False)
    else:
        ctx.bad(rule, key, "a field of Poplar1AggregationParam is public")
    try:
        f = ctx.fn(rule, name="decode", trait="Decode", self_adt="vdaf::poplar1::Poplar1AggregationParam")
        g = ctx.guards(f)
        key = "%s:%s:returns-through-constructor" % (rule, f.id)
        acc = g.accept_defs(("err",))
        if len(acc) == 1 and acc[0].kind == "call" and Call("map_err", Call("try_from_prefixes"))(acc[0].expr):
            ctx.ok(rule, key, "decode returns try_from_prefixes(prefixes).map_err(..)", loc=f.loc)
        else:
            ctx.bad(rule, key, "decode does not return through try_from_prefixes: %s" % [fmt(a.expr)[:120] for a in acc], loc=f.loc)
    except Skip:
        pass
    ctx.floor(rule, 3)
