"""EFFECT: reachability of sources of non-determinism / shared mutable state over the call graph."""
import re

IMPURE_PATTERNS = [
    r"^rand::rng$", r"^rand::rngs::", r"^rand::random", r"^rand::thread_rng", r"^getrandom::", r"^rand_core::os::",
    r"rand_core::SeedableRng::from_os_rng", r"rand_core::SeedableRng::from_rng", r"^rand::make_rng", r"SeedableRng::try_from_os_rng",
    r"^std::time::", r"^std::thread::", r"^std::sync::(atomic|Mutex|RwLock|mpsc|Once|OnceLock|LazyLock)",
    r"^core::sync::atomic", r"^std::cell::(Cell|RefCell|OnceCell|UnsafeCell)", r"^core::cell::",
    r"^std::env::", r"^std::fs::", r"^std::net::", r"^std::process::", r"^rayon::", r"^rayon_core::",
    r"^std::collections::hash::map::RandomState", r"^std::hash::random::",
]
_IMP = [re.compile(p) for p in IMPURE_PATTERNS]


def is_impure_path(path):
    return any(r.search(path) for r in _IMP)


def impure_reach(prog, roots, stop=None):
    """list of (function id, external callee path) pairs reachable from roots"""
    out = []
    for f in prog.reachable_fns(roots, stop=stop):
        for bi, t in f.body.calls():
            c = t.callee
            if c.indirect is not None:
                continue
            for p in (c.rpath, c.path, c.rfull, c.full):
                if p and is_impure_path(p):
                    out.append((f.id, p))
                    break
        for bi, si, s in f.body.iter_stmts():
            if s.rv is not None and s.rv.kind == "other" and s.rv.disp and "ThreadLocalRef" in s.rv.disp:
                out.append((f.id, "thread-local"))
            if s.rv is not None and s.rv.kind == "tls":
                out.append((f.id, "thread-local"))
    return out
