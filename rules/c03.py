from pat import *
from expr import fmt, walk
from harness import Skip
import ppa as P
from rules.c16 import api_scope, policy, run_api_ppa, G
from rules.common import adapters_in

INFO = {
    "explanation": "Necessary structural conditions of Poplar1's honest path, decided on the MIR: (T) totality — every narrow-integer, "
                   "subtraction, shift, division and conversion edge and every edge on a caller-supplied operand in the Poplar1 / "
                   "IDPF functions is discharged for EVERY admissible (bits, level) (levels range over the full u16, not the "
                   "<= 64 the suite reaches) by the panic-precondition analysis; (P) stream-position agreement — the aggregator "
                   "fast-forwards the correlated-randomness stream by exactly 3*level field-element DRAWS (rejection-sampled "
                   "get() calls, as the client does), the client draws 3 values per level from each stream and the sketch "
                   "consumes 3; (K) the leaf/inner selection predicate is `level == bits - 1` / `level < bits - 1` at every site; "
                   "(G) the IDPF admits prefixes of every length 1..=bits; (V) the admissibility predicate for sequences of aggregation "
                   "parameters has the specification's shape (shared with C20). (I) IdpfInput::from_bytes is the whole MSB-first bit view of its argument; the ping-pong driver rules of C12 are run as well. The sketch algebra, IDPF correctness and the "
                   "heavy-hitters result are NOT decided.",
    "trusted_base": ["rustc type checker and MIR construction (nightly)", "sa/ppa.py std models and field table", "rules/ppa_reviewed.py"],
    "assumptions": ["A1", "field arithmetic is correct (C09 not decided)"],
}

POPLAR_FILES = ("src/vdaf/poplar1.rs", "src/idpf.rs")


def run(ctx):
    prog = ctx.prog
    roots, scope = api_scope(prog)
    # C03 quantifies over admissible instances: bit lengths 1..=2^16 (bits = 0 is C08/C16's subject)
    ppa = P.PPA(prog, scope, roots, adversarial_roots=True,
                field_table={("vdaf::poplar1::Poplar1", "bits"): (1, 1 << 16, "C03 domain: bit lengths 1..2^16")})
    P.propagate_taint(ppa, roots, policy)
    honest = ("shard_with_random", "shard", "verify_init", "eval_and_sketch", "verifier_shares_to_message", "verify_next", "aggregate_init",
              "unshard", "aggregate", "next_message", "finish_sketch", "compute_next_corr_shares", "init_prng", "domain_separation_tag",
              "gen_with_random", "gen", "eval", "eval_from_node", "eval_next", "generate_correction_word", "extend", "convert",
              "is_agg_param_valid", "try_from_prefixes", "prefix", "zero", "merge", "accumulate")
    newh = set(x.did for x in getattr(prog, "unknown_helpers", []))   # helpers extracted from the honest path after the rules were written
    run_api_ppa(ctx, "R-C03.T", ppa, scope, 20, only=lambda f: f.file in POPLAR_FILES and (f.name in honest or f.kind == "Closure" or f.did in newh))

    # ------------- stream positions
    rule = "R-C03.P"
    try:
        f = ctx.fn(rule, name="verify_init", trait="Aggregator", self_adt="vdaf::poplar1::Poplar1")
        g = ctx.guards(f)
        key = "%s:%s:fast-forward-by-draws" % (rule, f.id)
        good = False
        detail = ""
        gets = [(bi, t) for bi, t in f.body.calls() if t.callee.name == "get" and "Prng" in (t.callee.path or "")]
        for bi, t in gets:
            lp = g.loop_of(bi)
            if lp is None:
                continue
            class _E:
                block = bi
            src = ctx.loop_source(f, _E)
            latches = [x for (x, hh) in f.body.back_edges() if hh == lp[0]]
            if src is None or not all(f.body.dominates(bi, x) for x in latches):
                continue
            detail = fmt(src)[:120]
            # Range{0, 3 * level}
            if src[0] == "agg" and src[1].endswith("Range") and Lit(0)(src[2][0]) and \
                    Bin("Mul", Lit(3), ThroughCasts(Field(Arg(5), "level")), commutative=True)(src[2][1]) and not adapters_in(src):
                others = [b2 for b2, t2 in f.body.calls() if b2 in lp[1] and t2.callee.name not in ("get", "next", "branch")
                          and not (t2.callee.path or "").startswith("std::") and not (t2.callee.path or "").startswith("core::")]
                good = len([b2 for b2, t2 in gets if b2 in lp[1]]) == 1 and not others
        # no other way of advancing the stream before the sketch
        skips = [t.callee.name for bi, t in f.body.calls() if t.callee.name in ("fast_forward", "skip", "advance_by", "nth", "fill_bytes", "fill")]
        if good and not skips:
            ctx.ok(rule, key, "for _ in %s { corr_prng.get(); }  (one rejection-sampled draw per skipped share)" % detail, loc=f.loc)
        else:
            ctx.bad(rule, key, "the aggregator does not fast-forward the correlated-randomness stream by exactly 3*level draws of get() "
                               "(loop source: %s; other stream operations: %s)" % (detail, skips), loc=f.loc)
    except Skip:
        pass
    try:
        f = ctx.fn(rule, name="compute_next_corr_shares", id_re=r"^vdaf::poplar1::compute_next_corr_shares$")
        g = ctx.guards(f)
        cnt = {}
        for bi, t in f.body.calls():
            if t.callee.name == "get" and "Prng" in (t.callee.path or ""):
                a = g.eb.operand(t.args[0])
                cnt[fmt(a)] = cnt.get(fmt(a), 0) + 1
                if g.loop_of(bi) is not None:
                    cnt["<in-loop>"] = 1
        key = "%s:%s:three-draws-per-stream" % (rule, f.id)
        if cnt.get("corr_prng_0") == 3 and cnt.get("corr_prng_1") == 3 and cnt.get("prng") == 2 and "<in-loop>" not in cnt:
            ctx.ok(rule, key, "client draws %s per level" % cnt, loc=f.loc)
        else:
            ctx.bad(rule, key, "client draws per level are %s, expected 3 from each correlated-randomness stream and 2 from the shard stream" % cnt, loc=f.loc)
    except Skip:
        pass
    try:
        f = ctx.fn(rule, name="shard_with_random", self_adt="vdaf::poplar1::Poplar1", trait="")
        g = ctx.guards(f)
        calls = [(bi, g.eb.call_expr(t)) for bi, t in f.body.calls() if t.callee.name == "compute_next_corr_shares"]
        key = "%s:%s:one-step-per-inner-level" % (rule, f.id)
        inloop = [c for c in calls if g.loop_of(c[0]) is not None]
        good = len(calls) == 2 and len(inloop) == 1
        if good:
            class _E:
                block = inloop[0][0]
            src = ctx.loop_source(f, _E)
            init = src
            if src is not None and src[0] == "phi":
                init = g.eb.init_expr(src[1])
            rng = Agg("Range", Lit(0), Bin("Sub", Field(Arg(1), "bits"), Lit(1)))
            # the loop runs over the inner authenticators, a vector built from (0..bits-1) - identified by its defining
            # expression, not by the variable's name
            good = src is not None and not adapters_in(src) and (Mentions(rng)(src) or (init is not None and Mentions(rng)(init)))
        if good:
            ctx.ok(rule, key, "compute_next_corr_shares once per inner authenticator (bits - 1 levels) and once for the leaf", loc=f.loc)
        else:
            ctx.bad(rule, key, "correlated randomness is not stepped exactly once per inner level plus once for the leaf", loc=f.loc)
        # number of inner authenticators = bits - 1
        key = "%s:%s:inner-levels" % (rule, f.id)
        from rules.common import all_terms
        if any(Mentions(Agg("Range", Lit(0), Bin("Sub", Field(Arg(1), "bits"), Lit(1))))(t) for t in all_terms(ctx, f)):
            ctx.ok(rule, key, "auth_inner has one entry per level 0..bits-1", loc=f.loc)
        else:
            ctx.bad(rule, key, "the number of inner authenticators is not bits - 1", loc=f.loc)
    except Skip:
        pass
    ctx.floor(rule, 4)

    # ------------- leaf / inner predicate
    rule = "R-C03.K"
    lvl = lambda p: ThroughCasts(Or(Field(p, "level"), Call("level", p)))
    sites = [
        ("verify_init", dict(name="verify_init", trait="Aggregator", self_adt="vdaf::poplar1::Poplar1"), "Lt", 5, 1),
        ("aggregate_init", dict(name="aggregate_init", trait="Aggregator", self_adt="vdaf::poplar1::Poplar1"), "Eq", 2, 1),
        ("unshard", dict(name="unshard", trait="Collector", self_adt="vdaf::poplar1::Poplar1"), "Eq", 2, 1),
    ]
    for nm, kw, op, pidx, sidx in sites:
        try:
            f = ctx.fn(rule, **kw)
            from rules.common import all_terms
            if nm == "verify_init":
                # decided on the branch structure, so that `if level < bits-1 {inner} else {leaf}` and the inverted
                # `if level >= bits-1 {leaf} else {inner}` are the same program: the edge taken when level < bits-1 dominates
                # every construction of the Inner variants, the opposite edge every construction of the Leaf variants
                from rules.common import find_rel_edges
                g = ctx.guards(f)
                bm1 = Bin("Sub", Field(Arg(sidx), "bits"), Lit(1))
                lt = find_rel_edges(g, "Lt", lvl(Arg(pidx)), bm1)
                ge = find_rel_edges(g, "Ge", lvl(Arg(pidx)), bm1)
                key = "%s:%s" % (rule, f.id)
                cons = {"Inner": [], "Leaf": []}
                for bi, si, st in f.body.iter_stmts():
                    if st.rv is not None and st.rv.kind == "agg" and st.rv.agg == "adt" and st.rv.vname in cons and \
                            str(st.rv.path).startswith("vdaf::poplar1::"):
                        cons[st.rv.vname].append(bi)
                good = len(lt) == 1 and len(ge) == 1 and cons["Inner"] and cons["Leaf"] and \
                    all(f.body.dominates(lt[0].target, bi) for bi in cons["Inner"]) and \
                    all(f.body.dominates(ge[0].target, bi) for bi in cons["Leaf"])
                if good:
                    ctx.ok(rule, key, "verify_init builds the Inner state/share exactly under level < bits - 1 and the Leaf ones under level >= bits - 1",
                           loc=f.loc)
                else:
                    ctx.bad(rule, key, "verify_init does not select inner/leaf by comparing the level with bits - 1 "
                                       "(lt-edges %d, ge-edges %d, Inner sites %s, Leaf sites %s)" % (len(lt), len(ge), cons["Inner"], cons["Leaf"]), loc=f.loc)
                continue
            want = Bin(op, lvl(Arg(pidx)), Bin("Sub", Field(Arg(sidx), "bits"), Lit(1)))
            want2 = Bin({"Lt": "Gt", "Eq": "Eq"}[op], Bin("Sub", Field(Arg(sidx), "bits"), Lit(1)), lvl(Arg(pidx)))
            key = "%s:%s" % (rule, f.id)
            if any(Mentions(Or(want, want2))(t) for t in all_terms(ctx, f)):
                ctx.ok(rule, key, "%s selects the leaf field by `level %s bits - 1`" % (nm, {"Lt": "<", "Eq": "=="}[op]), loc=f.loc)
            else:
                ctx.bad(rule, key, "%s does not select inner/leaf by comparing the level with bits - 1" % nm, loc=f.loc)
        except Skip:
            pass
    try:
        f = ctx.fn(rule, name="decode_with_param", trait="ParameterizedDecode", self_adt="vdaf::poplar1::Poplar1FieldVec",
                   id_re=r"Poplar1AggregationParam\)>>::decode_with_param$")
        from rules.common import all_terms
        key = "%s:%s" % (rule, f.id)
        if any(Mentions(Bin("Eq", Mentions(Call("level")), Bin("Sub", Mentions(Field(Any(), "bits")), Lit(1)), commutative=True))(t) for t in all_terms(ctx, f)):
            ctx.ok(rule, key, "the aggregate-share decoder selects the leaf field by level == bits - 1", loc=f.loc)
        else:
            ctx.bad(rule, key, "the aggregate-share decoder does not select inner/leaf by level == bits - 1", loc=f.loc)
    except Skip:
        pass
    ctx.floor(rule, 4)

    # ------------- IDPF admits every prefix length 1..=bits
    rule = "R-C03.G"
    G(ctx, rule, dict(name="eval", self_adt="idpf::Idpf"), "Gt", Len(Arg(5)), Bin("Add", Len(Field(Arg(3), "inner_correction_words")), Lit(1), commutative=True),
      "Idpf::eval refuses exactly len(prefix) > bits")
    G(ctx, rule, dict(name="eval", self_adt="idpf::Idpf"), "Eq", Len(Arg(5)), Lit(0), "Idpf::eval refuses exactly the empty prefix")
    G(ctx, rule, dict(name="shard_with_random", self_adt="vdaf::poplar1::Poplar1", trait=""), "Ne", Len(Arg(3)), Field(Arg(1), "bits"),
      "shard refuses exactly len(input) != bits")
    try:
        f = ctx.fn(rule, name="eval", self_adt="idpf::Idpf")
        g = ctx.guards(f)
        # every relational refusal of eval - in its own body or in a helper it calls with `?` - is one of the three
        # admissible ones; an additional refusal rejects honest evaluations
        from expr import subst
        from guards import fmt_cond, SWAP
        bits = Bin("Add", Len(Field(Arg(3), "inner_correction_words")), Lit(1), commutative=True)
        allowed = [("Gt", Arg(2), Lit(1)), ("Eq", Len(Arg(5)), Lit(0)), ("Gt", Len(Arg(5)), bits)]
        conds = [e.cond for e in g.refusal_edges(("err",)) if e.cond[0] == "rel"]
        for (cf, mapping, call_edge) in ctx._try_callees(f):
            g2 = ctx.guards(cf)
            for e in g2.refusal_edges(("err",)):
                if e.cond[0] == "rel":
                    conds.append(("rel", e.cond[1], subst(e.cond[2], mapping), subst(e.cond[3], mapping)))
        extra = []
        for c in conds:
            hit = False
            for (op, l, r) in allowed:
                if (c[1] == op and l(c[2]) and r(c[3])) or (SWAP[c[1]] == op and l(c[3]) and r(c[2])):
                    hit = True
            if not hit:
                extra.append(fmt_cond(c)[:100])
        key = "%s:%s:no-other-refusal" % (rule, f.id)
        if not extra and len(conds) >= 3:
            ctx.ok(rule, key, "Idpf::eval refuses only: agg_id > 1, empty prefix, len(prefix) > bits", loc=f.loc)
        else:
            ctx.bad(rule, key, "Idpf::eval has refusals beyond agg_id > 1 / empty prefix / len(prefix) > bits (an extra refusal rejects honest "
                               "evaluations): %s" % (extra or [fmt_cond(c)[:80] for c in conds]), loc=f.loc)
    except Skip:
        pass
    ctx.floor(rule, 4)

    # ------------- the aggregation-parameter constructor admits every level 0..=65535 (shared with C20), and the
    # IDPF cache keys used by Poplar1's RingBufferCache are canonical (shared with C06)
    from rules import c20, c06
    c20.constructor_rules(ctx, "R-C03.G.aggparam")
    c06.run_keys(ctx)
    # the measurement's bit order: IdpfInput::from_bytes is the MSB-first bit view of the bytes, copied whole into the index (the
    # client's input, the collector's candidate prefixes and the decoded aggregation parameter all go through it)
    rule = "R-C03.I"
    try:
        f = ctx.fn(rule, name="from_bytes", id_re=r"^idpf::IdpfInput::from_bytes$")
        g = ctx.guards(f)
        key = "%s:%s" % (rule, f.id)
        views = [(bi, t) for bi, t in f.body.calls() if t.callee.name == "view_bits"]
        msb = [t for bi, t in views if "Msb0" in ((t.callee.bestfull or "") + (t.callee.path or "")) and t.args and Arg(1)(g.eb.operand(t.args[0]))]
        copies = [g.eb.call_expr(t) for bi, t in f.body.calls() if t.callee.name in ("clone_from_bitslice", "copy_from_bitslice", "extend_from_bitslice", "to_bitvec", "from_bitslice")]
        tricks = [t.callee.name for bi, t in f.body.calls() if t.callee.name in ("reverse_bits", "from_be_bytes", "from_le_bytes", "from_ne_bytes", "swap_bytes", "rotate_left", "rotate_right",
                                                                               "reverse", "chunks", "chunks_exact", "truncate", "from_vec", "split_at")]
        whole = len(copies) == 1 and Mentions(Call("view_bits", Arg(1)))(copies[0]) and not [x for x in walk(copies[0]) if isinstance(x, tuple) and x[0] == "call" and len(x) > 4 and
                                                                                       x[4] in ("std::ops::Index::index", "std::ops::IndexMut::index_mut")]
        rds = [rd for rd in g.retdefs if rd.expr is not None]
        if len(views) == 1 and len(msb) == 1 and whole and not tricks and len(rds) == 1 and Agg("IdpfInput", Any())(rds[0].expr):
            ctx.ok(rule, key, "index = bytes.view_bits::<Msb0>() copied whole (bit i of the input is bit 7 - i%8 of byte i/8)", loc=f.loc)
        else:
            ctx.bad(rule, key, "IdpfInput::from_bytes is not the whole MSB-first bit view of its argument (views %d, Msb0 %d, copies %d, other bit manipulation %s)" % (
                len(views), len(msb), len(copies), tricks), loc=f.loc)
    except Skip:
        pass
    ctx.floor(rule, 1)
    # the ping-pong driver decodes and routes the Poplar1 messages whose shape changes between rounds (shared with C12)
    from rules import c12
    c12.run(ctx)
    # "used in any admissible sequence on the same reports": the admissibility predicate must accept exactly the admissible
    # histories (shared with C20)
    c20.validity_rules(ctx, "R-C03.V")
