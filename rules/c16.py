import re
from pat import *
from expr import fmt, walk
from harness import Skip
import ppa as P
from rules.ppa_reviewed import REVIEWED
from rules.c08 import run_ppa

INFO = {
    "explanation": "PPA (panic-precondition analysis, api sources) over the MIR of the closure of every effectively-public "
                   "Result-returning function of vdaf::{prio3,poplar1,prio2}, flp, flp::types, dp, idpf, topology::ping_pong "
                   "and the codec encode side: caller-controlled arguments (all non-self parameters of the entry points, "
                   "tracked syntactically into callees; lengths and fields of message-typed arguments included) range over "
                   "their full type; a slice whose length a dominating guard pins to an instance value is sanitised; "
                   "instance fields obey the constructor-established table and assumption A1. Every panic edge on a "
                   "caller-controlled operand, and every narrow-integer / subtraction / division edge regardless of "
                   "taint, must be discharged by intervals, dominating relations (including the success conditions of "
                   "`?`-propagated checks) or re-evaluation at every call site. usize index arithmetic over internal "
                   "buffers (NTT, Lagrange routines, gadget internals) is OUT of scope and skipped (counted). GUARD rules "
                   "additionally require the validation guards of the constructors / encoders / role checks to be "
                   "present. 'Valid arguments at the extremes are accepted and work' is NOT decided.",
    "trusted_base": ["rustc type checker and MIR construction (nightly)", "std model table in sa/ppa.py",
                     "reviewed exceptions in rules/ppa_reviewed.py", "instance-field invariant table in sa/ppa.py"],
    "assumptions": ["A1: lengths of in-memory objects, usize instance fields and usize accumulators are < 2^56",
                    "explicit, syntactic taint: mutable accumulators are not considered caller-controlled"],
}

ROOT_RE = re.compile(r"(vdaf::prio3|vdaf::poplar1|vdaf::prio2|flp::|flp::types|dp::|idpf::|topology::ping_pong|^vdaf::|<vdaf::|^codec::encode|^dp::)")
EXCL = ("ntt::", "polynomial::", "fp::", "field::", "prng::", "vdaf::xof::", "dp::distributions", "dp::rand_bigint", "flp::gadgets")


def api_scope(prog):
    def is_result(f):
        return f.output is not None and prog.types[f.output]["s"].startswith("std::result::Result<")
    roots = [f for f in prog.fns if f.eff_pub and f.kind != "Closure" and is_result(f) and not prog.is_test_util(f)
             and ROOT_RE.search(f.id) and f.name not in ("decode", "decode_with_param", "get_decoded", "get_decoded_with_param", "fmt", "deserialize", "serialize")]

    def stop(f):
        return any(f.id.startswith(x) or ("<" + x) in f.id for x in EXCL)
    scope = [f for f in prog.reachable_fns(roots, stop=stop) if not prog.is_test_util(f) and not stop(f)]
    return roots, scope


def policy(f):
    return set(i for i in range(1, f.body.argc + 1) if f.param_name(i) != "self")


def run_api_ppa(ctx, rule, ppa, scope, floor, only=None):
    n = skipped = nrev = 0
    for f in sorted(scope, key=lambda f: f.id):
        if only is not None and not only(f):
            continue
        for o in P.enumerate_obligations(ppa, f):
            if not P.obligation_tainted(ppa, o) and not P.always_obligation(o):
                skipped += 1
                continue
            n += 1
            ok, why = P.decide(ppa, o)
            if not ok:
                ok2, why2 = P.decide_at_callers(ppa, o)
                if ok2:
                    ok, why = True, why2
            key = "%s:%s" % (rule, o.key())
            loc = "%s:%s" % (f.file, o.line)
            if ok:
                ctx.ok(rule, key, why[:200], loc=loc,
                       sample={"rule": rule, "fn": f.id, "edge": o.kind, "operands": [fmt(t)[:80] for t in o.terms], "discharged_by": why[:160]})
            elif o.key() in REVIEWED:
                nrev += 1
                ctx.ok(rule, key, "reviewed exception: " + REVIEWED[o.key()], loc=loc)
            else:
                ctx.bad(rule, key, "%s: panic edge `%s` reachable under caller-controlled arguments: %s" % (f.id, o.kind, why), loc=loc)
    ctx.count("panic_edges_in_scope", n)
    ctx.count("panic_edges_skipped_untainted_internal", skipped)
    ctx.count("reviewed_exceptions_used", nrev)
    ctx.floor(rule, floor)


def run(ctx):
    prog = ctx.prog
    roots, scope = api_scope(prog)
    if len(roots) < 100:
        ctx.bad("R-C16.P", "R-C16.P:roots", "expected at least 100 public Result-returning entry points, found %d" % len(roots), kind="anchor")
    ppa = P.PPA(prog, scope, roots, adversarial_roots=True)
    P.propagate_taint(ppa, roots, policy)
    ctx.count("entry_points", len(roots))
    ctx.count("functions_in_closure", len(scope))
    run_api_ppa(ctx, "R-C16.P", ppa, scope, 150)
