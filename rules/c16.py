import re
from pat import *
from expr import fmt, walk
from harness import Skip
import ppa as P
from rules.common import adapters_in
from rules.ppa_reviewed import REVIEWED
from rules.c08 import run_ppa

INFO = {
    "explanation": "PPA (panic-precondition analysis, api sources) over the MIR of the closure of every effectively-public "
                   "Result-returning function of vdaf::{prio3,poplar1,prio2}, flp, flp::types, dp, idpf, topology::ping_pong "
                   "and the codec encode side: caller-controlled arguments (all non-self parameters of the entry points, "
                   "tracked syntactically into callees; lengths and fields of message-typed arguments included) range over "
                   "their full type; a slice whose length a dominating guard pins to an instance value is sanitised; "
                   "instance fields obey the constructor-established table and assumption A1. Every panic edge on a "
                   "caller-controlled operand, and every narrow-integer / subtraction / division edge regardless of "
                   "taint, must be discharged by intervals, dominating relations (including the success conditions of "
                   "`?`-propagated checks) or re-evaluation at every call site. usize index arithmetic over internal "
                   "buffers (NTT, Lagrange routines, gadget internals) is OUT of scope and skipped (counted). GUARD rules "
                   "additionally require the validation guards of the constructors / encoders / role checks to be "
                   "present. Rational::try_from(f32) refuses special and negative floats; the aggregation-parameter constructor accepts exactly the lengths 1..=2^16 (shared with C20). 'Valid arguments at the extremes are accepted and work' is NOT decided.",
    "trusted_base": ["rustc type checker and MIR construction (nightly)", "std model table in sa/ppa.py",
                     "reviewed exceptions in rules/ppa_reviewed.py", "instance-field invariant table in sa/ppa.py"],
    "assumptions": ["A1: lengths of in-memory objects, usize instance fields and usize accumulators are < 2^56",
                    "explicit, syntactic taint: mutable accumulators are not considered caller-controlled"],
}

ROOT_RE = re.compile(r"(vdaf::prio3|vdaf::poplar1|vdaf::prio2|flp::|flp::types|dp::|idpf::|topology::ping_pong|^vdaf::|<vdaf::|^codec::encode|^dp::)")
# numeric core / samplers: internal index arithmetic and value-level code, out of this analysis' scope
EXCL_FILES = ("src/ntt.rs", "src/polynomial.rs", "src/fp.rs", "src/fp/ops.rs", "src/field.rs", "src/field/field255.rs", "src/prng.rs",
              "src/vdaf/xof.rs", "src/dp/distributions.rs", "src/dp/rand_bigint.rs", "src/flp/gadgets.rs")


def api_scope(prog):
    def is_result(f):
        return f.output is not None and prog.types[f.output]["s"].startswith("std::result::Result<")
    roots = [f for f in prog.fns if f.eff_pub and f.kind != "Closure" and is_result(f) and not prog.is_test_util(f)
             and ROOT_RE.search(f.id) and f.name not in ("decode", "decode_with_param", "get_decoded", "get_decoded_with_param", "fmt", "deserialize", "serialize")]

    def stop(f):
        return f.file in EXCL_FILES
    scope = [f for f in prog.reachable_fns(roots, stop=stop) if not prog.is_test_util(f) and not stop(f)]
    return roots, scope


def policy(f):
    return set(i for i in range(1, f.body.argc + 1) if f.param_name(i) != "self")


def run_api_ppa(ctx, rule, ppa, scope, floor, only=None):
    n = skipped = nrev = 0
    for f in sorted(scope, key=lambda f: f.id):
        if only is not None and not only(f):
            continue
        seen_keys = {}
        for o in P.enumerate_obligations(ppa, f):
            if not P.obligation_tainted(ppa, o) and not P.always_obligation(o):
                skipped += 1
                continue
            n += 1
            ok, why = P.decide(ppa, o)
            if not ok:
                ok2, why2 = P.decide_at_callers(ppa, o)
                if ok2:
                    ok, why = True, why2
            okey = o.key()
            seen_keys[okey] = seen_keys.get(okey, 0) + 1
            if seen_keys[okey] > 1:
                okey = "%s#%d" % (okey, seen_keys[okey])      # identical operand text twice in one function: number them
            key = "%s:%s" % (rule, okey)
            loc = "%s:%s" % (f.file, o.line)
            if ok:
                ctx.ok(rule, key, why[:200], loc=loc,
                       sample={"rule": rule, "fn": f.id, "edge": o.kind, "operands": [fmt(t)[:80] for t in o.terms], "discharged_by": why[:160]})
            elif o.key() in REVIEWED:
                nrev += 1
                ctx.ok(rule, key, "reviewed exception: " + REVIEWED[o.key()], loc=loc)
            else:
                ctx.bad(rule, key, "%s: panic edge `%s` reachable under caller-controlled arguments: %s" % (f.id, o.kind, why), loc=loc)
    ctx.count("panic_edges_in_scope", n)
    ctx.count("panic_edges_skipped_untainted_internal", skipped)
    ctx.count("reviewed_exceptions_used", nrev)
    ctx.floor(rule, floor)


def run(ctx):
    prog = ctx.prog
    roots, scope = api_scope(prog)
    if len(roots) < 100:
        ctx.bad("R-C16.P", "R-C16.P:roots", "expected at least 100 public Result-returning entry points, found %d" % len(roots), kind="anchor")
    ppa = P.PPA(prog, scope, roots, adversarial_roots=True)
    P.propagate_taint(ppa, roots, policy)
    ctx.count("entry_points", len(roots))
    ctx.count("functions_in_closure", len(scope))
    run_api_ppa(ctx, "R-C16.P", ppa, scope, 150)


# ----------------------------------------------------------------------
# R-C16.G: validation guards (Appendix A of DESIGN.md): a guard whose absence would not panic but
# would produce an unusable instance / accept an out-of-domain argument.

ZERO = Or(Lit(0), Call("zero"), Sym("ZERO"))
MOD = Call("modulus")


def G(ctx, rule, fnkw, when, lhs, rhs, desc, **kw):
    try:
        f = ctx.fn(rule, **fnkw)
    except Skip:
        return
    ctx.require_guard(rule, f, when, lhs, rhs, desc=desc, **kw)


def guard_rules(ctx):
    rule = "R-C16.G"
    T = "flp::types::"
    # --- Prio3
    G(ctx, rule, dict(name="check_num_aggregators", id_re=r"^vdaf::prio3::check_num_aggregators$"), "Eq", Arg(1), Lit(0), "num_aggregators == 0 -> Err")
    G(ctx, rule, dict(name="check_num_aggregators", id_re=r"^vdaf::prio3::check_num_aggregators$"), "Gt", Arg(1), Lit(254), "num_aggregators > 254 -> Err")
    try:
        f = ctx.fn(rule, name="new", self_adt="vdaf::prio3::Prio3", trait="")
        ctx.require_try_call(rule, f, Call("check_num_aggregators", Arg(1)), desc="check_num_aggregators(num_aggregators)?")
        ctx.require_guard(rule, f, "Eq", Arg(2), Lit(0), desc="num_proofs == 0 -> Err")
    except Skip:
        pass
    G(ctx, rule, dict(name="role_try_from", self_adt="vdaf::prio3::Prio3"), "Ge", Arg(2), Cast(Field(Arg(1), "num_aggregators")), "agg_id >= num_aggregators -> Err")
    G(ctx, rule, dict(name="shard_with_random", self_adt="vdaf::prio3::Prio3", trait=""), "Ne", Len(Arg(5)), Call("random_size"), "len(random) != random_size() -> Err")
    # every named constructor goes through Prio3::new
    for f in ctx.fns(rule, 8, id_re=r"^vdaf::prio3::Prio3::<.*>::new_[a-z_0-9]+$"):
        g = ctx.guards(f)
        key = "%s:%s:via-new" % (rule, f.id)
        news = [g.eb.call_expr(t) for bi, t in f.body.calls() if t.callee.name == "new" and "Prio3" in (t.callee.path or "")]
        if news and Arg(1)(news[0][2][0]):
            ctx.ok(rule, key, "%s -> Prio3::new(num_aggregators, ..)" % f.name, loc=f.loc, nontrivial=False)
        elif ctx.require_try_call(rule, f, Call("check_num_aggregators", Arg(1)), desc="check_num_aggregators(num_aggregators)?", key=key) is not None:
            pass   # struct literal guarded by the same check (new_average)
        elif False:
            ctx.bad(rule, key, "%s does not construct the instance through Prio3::new(num_aggregators, ..)" % f.name, loc=f.loc)
    # --- FLP types
    for adt, idx_max in (("Sum", 1), ("SumVec", 1)):
        kw = dict(name="new", self_adt=T + adt, trait="")
        G(ctx, rule, kw, "Ge", Arg(idx_max), MOD, "%s::new: max_measurement >= modulus -> Err" % adt)
        G(ctx, rule, kw, "Eq", Arg(idx_max), ZERO, "%s::new: max_measurement == 0 -> Err" % adt)
    G(ctx, rule, dict(name="new", self_adt=T + "SumVec", trait=""), "Eq", Arg(2), Lit(0), "SumVec::new: len == 0 -> Err")
    G(ctx, rule, dict(name="new", self_adt=T + "SumVec", trait=""), "Eq", Arg(3), Lit(0), "SumVec::new: chunk_length == 0 -> Err")
    try:
        f = ctx.fn(rule, name="new", self_adt=T + "SumVec", trait="")
        ctx.require_try_call(rule, f, Call("ok_or_else", Call("checked_mul", Any(), Arg(2))), desc="SumVec::new: bits.checked_mul(len) overflow -> Err")
    except Skip:
        pass
    kw = dict(name="new", self_adt=T + "Histogram", trait="")
    G(ctx, rule, kw, "Ge", Arg(1), ThroughCasts(Lit(4294967295)), "Histogram::new: length >= u32::MAX -> Err")
    G(ctx, rule, kw, "Eq", Arg(1), Lit(0), "Histogram::new: length == 0 -> Err")
    G(ctx, rule, kw, "Eq", Arg(2), Lit(0), "Histogram::new: chunk_length == 0 -> Err")
    kw = dict(name="new", self_adt=T + "MultihotCountVec", trait="")
    G(ctx, rule, kw, "Ge", Arg(1), ThroughCasts(Lit(4294967295)), "MultihotCountVec::new: num_buckets >= u32::MAX -> Err")
    G(ctx, rule, kw, "Eq", Arg(1), Lit(0), "MultihotCountVec::new: num_buckets == 0 -> Err")
    G(ctx, rule, kw, "Eq", Arg(3), Lit(0), "MultihotCountVec::new: chunk_length == 0 -> Err")
    G(ctx, rule, kw, "Eq", Arg(2), Lit(0), "MultihotCountVec::new: max_weight == 0 -> Err")
    G(ctx, rule, kw, "Ge", Mentions(Call("try_from", Arg(2))), MOD, "MultihotCountVec::new: max_weight >= modulus -> Err")
    try:
        f = ctx.fn(rule, **kw)
        ctx.require_variant_guard(rule, f, Call("try_from", Arg(2)), "Err", True, desc="MultihotCountVec::new: max_weight does not fit the field integer -> Err")
    except Skip:
        pass
    kw = dict(name="new", self_adt=T + "l1boundsum::L1BoundSum", trait="")
    G(ctx, rule, kw, "Eq", Arg(2), Lit(0), "L1BoundSum::new: measurement_len == 0 -> Err")
    G(ctx, rule, kw, "Eq", Arg(3), Lit(0), "L1BoundSum::new: chunk_length == 0 -> Err")
    G(ctx, rule, kw, "Le", Arg(1), ZERO, "L1BoundSum::new: max_value <= 0 -> Err")
    G(ctx, rule, kw, "Ge", Arg(1), MOD, "L1BoundSum::new: max_value >= modulus -> Err")
    try:
        f = ctx.fn(rule, **kw)
        ctx.require_try_call(rule, f, Call("ok_or_else", Mentions(Call("checked_add", Arg(2), Lit(1)))), desc="L1BoundSum::new: bits*(measurement_len+1) overflow -> Err")
    except Skip:
        pass
    # --- Rational::try_from(f32): special floats are refused, and a negative value is refused by the *fallible* signed -> unsigned
    # conversion of the numerator (taking the magnitude instead would accept -2.0 as 2)
    try:
        f = ctx.fn(rule, name="try_from", trait="TryFrom", self_adt="dp::Rational", id_re=r"TryFrom<f32>")
        g = ctx.guards(f)
        oks = [rd for rd in g.retdefs if rd.kind == "ok"]
        # (the None arm is spelled `Err(..)?`: its never-taken Continue side is a non-refusing return of the CFG, so the guards are
        # stated on the Ok(..) return instead of on "every accepting return")
        none = [e for e in g.edges if e.cond[0] == "variant" and e.cond[3] and
                ((e.cond[2] == "None" and Call("from_float", Arg(1))(e.cond[1])) or
                 (e.cond[2] == "Break" and e.cond[1][0] == "call" and e.cond[1][2] and
                  Or(Call("ok_or", Call("from_float", Arg(1))), Call("ok_or_else", Call("from_float", Arg(1))))(e.cond[1][2][0])))]
        key = "%s:%s:special-floats-refused" % (rule, f.id)
        if none and oks and not any(rd.kind == "ok" for e in none for rd in e.leads):
            ctx.ok(rule, key, "from_float(value) is None (NaN / infinite) cannot reach the Ok return", loc=f.loc)
        else:
            ctx.bad(rule, key, "Rational::try_from(f32): NaN / infinite are not refused", loc=f.loc)
        key = "%s:%s:negative-refused" % (rule, f.id)
        brk = [e for e in g.edges if e.cond[0] == "variant" and e.cond[2] == "Break" and e.cond[3] and
               Mentions(Call("try_into", Mentions(Call("numer", Mentions(Call("from_float", Arg(1)))))))(e.cond[1])
               and e.leads and set(rd.kind for rd in e.leads) <= {"err"}]
        if brk and oks and all(f.body.dominates(brk[0].block, rd.block) for rd in oks):
            ctx.ok(rule, key, "the numerator's signed -> unsigned conversion is fallible, propagated, and dominates the Ok return", loc=f.loc)
        else:
            ctx.bad(rule, key, "Rational::try_from(f32): a negative value is not refused (no propagated fallible conversion of the numerator)", loc=f.loc)
        key = "%s:%s:no-sign-dropping" % (rule, f.id)
        drops = [t.callee.name for bi, t in f.body.calls() if t.callee.name in ("magnitude", "abs", "unsigned_abs", "into_parts", "to_biguint", "iter_u32_digits", "to_u32_digits")]
        if not drops:
            ctx.ok(rule, key, "the sign of the float is never discarded", loc=f.loc)
        else:
            ctx.bad(rule, key, "Rational::try_from(f32) discards the sign (%s): negative values would be accepted as their absolute value" % drops, loc=f.loc)
    except Skip:
        pass
    # --- the aggregation-parameter constructor accepts every length 1..=2^16 and refuses the rest (shared with C20 / C03)
    from rules import c20
    c20.constructor_rules(ctx, "R-C16.G.aggparam")
    # --- encoders
    G(ctx, rule, dict(name="encode_measurement", trait="Type", self_adt=T + "Sum"), "Gt", Arg(2), Field(Arg(1), "max_measurement"), "Sum: summand > max_measurement -> Err")
    G(ctx, rule, dict(name="encode_measurement", trait="Type", self_adt=T + "Histogram"), "Ge", Arg(2), Field(Arg(1), "length"), "Histogram: bucket >= length -> Err")
    G(ctx, rule, dict(name="encode_measurement", trait="Type", self_adt=T + "MultihotCountVec"), "Ne", Len(Arg(2)), Field(Arg(1), "length"), "MultihotCountVec: len != length -> Err")
    G(ctx, rule, dict(name="encode_measurement", trait="Type", self_adt=T + "MultihotCountVec"), "Gt", Call("count", Call("filter", Arg(2), Any())), Field(Arg(1), "max_weight"), "MultihotCountVec: weight > max_weight -> Err")
    G(ctx, rule, dict(name="encode_measurement", trait="Type", self_adt=T + "SumVec"), "Ne", Len(Arg(2)), Field(Arg(1), "len"), "SumVec: len != len -> Err")
    G(ctx, rule, dict(name="encode_measurement", trait="Type", self_adt=T + "l1boundsum::L1BoundSum"), "Ne", Len(Arg(2)), Field(Arg(1), "measurement_len"), "L1BoundSum: len != measurement_len -> Err")
    for adt in ("SumVec", "l1boundsum::L1BoundSum", "Sum"):
        try:
            f = ctx.fn(rule, name="encode_measurement", trait="Type", self_adt=T + adt)
            ctx.require_try_call(rule, f, Call("encode_range_checked_int"), dominates=False, desc="%s: encode_range_checked_int(..)? (value must fit the bit width)" % adt)
        except Skip:
            pass
    try:
        f = ctx.fn(rule, name="encode_range_checked_int", id_re=r"^flp::types::encode_range_checked_int$")
        ctx.require_try_call(rule, f, Call("encode_as_bitvector"), desc="encode_as_bitvector(..)?")
    except Skip:
        pass
    # --- L1BoundSum: the norm handed to the range check is the exact integer sum of all entries
    try:
        f = ctx.fn(rule, name="encode_measurement", trait="Type", self_adt=T + "l1boundsum::L1BoundSum")
        g = ctx.guards(f)
        b = f.body
        K = "%s:%s:" % (rule, f.id)
        item = Field(Call("next"), name="0", variant="Some")
        adds = [(bi, c) for bi, t in b.calls() for c in [g.eb.call_expr(t)] if t.callee.name == "checked_add" and g.loop_of(bi) is not None]
        encs = [(bi, c) for bi, t in b.calls() for c in [g.eb.call_expr(t)] if t.callee.name == "encode_range_checked_int"]
        fin = [x for x in encs if g.loop_of(x[0]) is None]
        per = [x for x in encs if g.loop_of(x[0]) is not None]
        good = len(adds) == 1 and len(fin) == 1 and len(per) == 1
        why = "expected one checked_add in the loop, one per-entry range check and one final range check"
        if good:
            acc = adds[0][1][2][0]
            lp = g.loop_of(adds[0][0])
            latches = [t for (t, hh) in b.back_edges() if hh == lp[0]]

            class _E:
                block = adds[0][0]
            src = ctx.loop_source(f, _E)
            init = g.eb.init_expr(acc[1]) if acc[0] == "phi" else None
            from guards import phi_defs
            defs = phi_defs(g, acc[1]) if acc[0] == "phi" else []
            upd = [d for d in defs if Try(Mentions(Call("checked_add", lambda x: x == acc, item)))(d[0]) and d[2] in lp[1]]
            zero_init = [d for d in defs if Mentions(Call("zero"))(d[0]) or Lit(0)(d[0])]
            good = item(adds[0][1][2][1]) and src is not None and Arg(2)(src) and not adapters_in(src) and \
                len(defs) == 2 and len(upd) == 1 and len(zero_init) == 1 and all(b.dominates(upd[0][2], t) for t in latches) and \
                fin[0][1][2][0] == acc and item(per[0][1][2][0]) and b.dominates(lp[0], fin[0][0])
            why = "the L1 norm is not `0, then checked_add(entry)?` over every entry, passed unconverted to the final range check"
        if good:
            ctx.ok(rule, K + "l1-norm-exact", "norm = integer sum of all entries with checked_add(..)? per entry; encode_range_checked_int(norm, ..)? afterwards", loc=f.loc)
            ctx.require_try_call(rule, f, Mentions(Call("checked_add")), dominates=False, desc="overflow of the norm -> Err", key=K + "l1-norm-overflow-refused")
        else:
            ctx.bad(rule, K + "l1-norm-exact", "L1BoundSum::encode_measurement: %s (a wrapped norm lets out-of-range measurements through)" % why, loc=f.loc)
    except Skip:
        pass
    # --- share count / share length in Prio3's combiner; Prio2's constructor (rules shared with C02 and C19)
    from rules import c02, c19
    c02.combine_rules(ctx, "R-C16.G.combine")
    c19.new_rules(ctx, "R-C16.G.prio2-new")
    # Prio2: a leader share of the wrong length (too short OR too long) is refused before it is split
    for nm in ("unpack_proof", "unpack_proof_mut"):
        G(ctx, rule, dict(name=nm, id_re=r"^vdaf::prio2::client::%s$" % nm), "Ne", Len(Arg(1)), Call("proof_length", Arg(2)),
          "Prio2 %s: len(proof) != proof_length(dimension) -> Err" % nm)
    try:
        fv = ctx.fn(rule, name="generate_verification_message", id_re=r"^vdaf::prio2::server::generate_verification_message$")
        ctx.require_try_call(rule, fv, Call("unpack_proof", Arg(3), Arg(1)), desc="Prio2 verify: unpack_proof(share, dimension)?")
    except Skip:
        pass
    # --- Poplar1 / IDPF
    G(ctx, rule, dict(name="shard_with_random", self_adt="vdaf::poplar1::Poplar1", trait=""), "Ne", Len(Arg(3)), Field(Arg(1), "bits"), "Poplar1 shard: len(input) != bits -> Err")
    G(ctx, rule, dict(name="eval", self_adt="idpf::Idpf"), "Gt", Arg(2), Lit(1), "Idpf::eval: agg_id > 1 -> Err")
    G(ctx, rule, dict(name="eval", self_adt="idpf::Idpf"), "Eq", Len(Arg(5)), Lit(0), "Idpf::eval: empty prefix -> Err")
    G(ctx, rule, dict(name="eval", self_adt="idpf::Idpf"), "Gt", Len(Arg(5)), Bin("Add", Len(Field(Arg(3), "inner_correction_words")), Lit(1), commutative=True),
      "Idpf::eval: len(prefix) > bits -> Err")
    G(ctx, rule, dict(name="gen", self_adt="idpf::Idpf"), "Eq", Len(Arg(2)), Lit(0), "Idpf::gen: empty input -> Err")
    # --- DP
    G(ctx, rule, dict(name="from_unsigned", self_adt="dp::Rational"), "Eq", ThroughCasts(Arg(2)), Or(Lit(0), Sym("ZERO")), "Rational::from_unsigned: denominator == 0 -> Err")
    for adt in ("dp::ZCdpBudget", "dp::PureDpBudget"):
        G(ctx, rule, dict(name="new", self_adt=adt), "Eq", Mentions(Arg(1)), Sym("ZERO"), "%s::new: epsilon == 0 -> Err" % adt.split("::")[-1])
    ctx.floor(rule, 48)


_run0 = run


def run(ctx):
    _run0(ctx)
    guard_rules(ctx)
