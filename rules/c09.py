from pat import *
from expr import fmt, walk
from harness import Skip
from guards import phi_defs
from rules.common import adapters_in, calls_named, req, strip, S, find_rel_edges

INFO = {
    "explanation": "PARTIAL. Decided statically, from the constants the compiler evaluated and the MIR of the wiring code: (K) every "
                   "field-parameter constant satisfies its defining number-theoretic relation - PRIME is prime, MU = -PRIME^-1 mod 2^w "
                   "(2^(w/2) for the split-word multiplier), R2 = (2^w)^2 mod PRIME, G generates a subgroup of order exactly "
                   "2^NUM_ROOTS, ROOTS[i] has order exactly 2^i and ROOTS[i] = G^(2^(NUM_ROOTS-i)) (all in Montgomery form), HALF = 1/2, "
                   "BIT_MASK = 2^bitlen(PRIME)-1, every constant is below PRIME, ENCODED_SIZE = ceil(bitlen/8), and the 255-bit "
                   "modulus table is 2^255-19 (checked by integer arithmetic inside the checker on the extracted constant values, "
                   "nothing of libprio is executed); (A) the accessors hand out those constants with the stated bounds (root(l) "
                   "only for l <= min(MAX_ROOTS, NUM_ROOTS), generator_order = 2^NUM_ROOTS, one = ROOTS[0]); (W) each operator "
                   "of each Montgomery field is wired to the matching FieldOps routine of the matching parameter set on the raw "
                   "representations, conversions from integers/bytes go through montgomery() and conversions out through "
                   "residue(), the exponent of pow() is NOT converted, and the derived FieldOps routines (neg, modp, inv, "
                   "montgomery, residue, pow) have their defining shapes; (E) equality, constant-time equality, hashing and "
                   "conditional selection act on the single canonical representation; (M) the two Montgomery multipliers are verified algebraically for every instantiation (FP32, FP64 single-word; FP128 split-word): the straight-line MIR is turned into single-assignment terms, high parts are eliminated through H = (v - L)/B, and the polynomial identity x*y + m*PRIME = 2^w * (Z + 2^w*CC) is checked over the rationals (m = the quotient digits MU*z mod B, using only the axiom z + PRIME*w = 0 mod B, which R-C09.K's check of MU justifies), together with an interval proof that no machine add, multiply, shift or narrowing leaves its type for the instantiated prime and that Z + 2^w*CC < 2*PRIME; the final correction of the multipliers and FieldOps::add/sub have the reviewed branch-free conditional-subtraction shape (lemma: for V < 2p it returns V mod p); Field255's byte conversions do not mask. Hence mul(x, y) = x*y*2^-w mod PRIME, fully reduced, for all x, y < PRIME - without executing or enumerating anything. NOT decided: the fiat-crypto arithmetic of Field255.",
    "trusted_base": ["rustc const evaluation and MIR construction (nightly)", "Python integer arithmetic (pow, Miller-Rabin with 40 prime bases)",
                     "expression reconstruction over MIR (sa/expr.py)"],
    "assumptions": ["operands of the word-level routines are below PRIME (the representation invariant established by every constructor, R-C09.W)"],
}

FIELDS = [  # (field type, parameter struct, word bits, multiplier word bits)
    ("FieldPrio2", "FP32", 32, 32),
    ("Field64", "FP64", 64, 64),
    ("Field128", "FP128", 128, 64),
]
SMALL_PRIMES = [2, 3, 5, 7, 11, 13, 17, 19, 23, 29, 31, 37, 41, 43, 47, 53, 59, 61, 67, 71, 73, 79, 83, 89, 97, 101, 103, 107, 109,
                113, 127, 131, 137, 139, 149, 151, 157, 163, 167, 173]


def is_prime(n):
    if n < 2:
        return False
    for q in SMALL_PRIMES:
        if n % q == 0:
            return n == q
    d, s = n - 1, 0
    while d % 2 == 0:
        d //= 2
        s += 1
    for a in SMALL_PRIMES:
        x = pow(a, d, n)
        if x in (1, n - 1):
            continue
        for _ in range(s - 1):
            x = x * x % n
            if x == n - 1:
                break
        else:
            return False
    return True


def const(ctx, rule, fp, w, name):
    path = "<fp::%s as fp::ops::FieldParameters<u%d>>::%s" % (fp, w, name)
    c = ctx.prog.const_by_path.get(path)
    if c is None or ("vs" not in c and "va" not in c):
        ctx.bad(rule, "%s:anchor:%s" % (rule, path), "constant %s not found / not evaluated" % path, kind="anchor")
        raise Skip()
    return int(c["vs"]) if "vs" in c else [int(x) for x in c["va"]]


def run_constants(ctx):
    rule = "R-C09.K"
    mr = ctx.prog.const_by_path.get("fp::MAX_ROOTS")
    max_roots = int(mr["vs"]) if mr and "vs" in mr else None
    req(ctx, rule, rule + ":MAX_ROOTS", max_roots is not None, "MAX_ROOTS = %s" % max_roots, "fp::MAX_ROOTS not found")
    for fld, fp, w, mw in FIELDS:
        try:
            p = const(ctx, rule, fp, w, "PRIME")
            mu = const(ctx, rule, fp, w, "MU")
            r2 = const(ctx, rule, fp, w, "R2")
            G = const(ctx, rule, fp, w, "G")
            nr = const(ctx, rule, fp, w, "NUM_ROOTS")
            mask = const(ctx, rule, fp, w, "BIT_MASK")
            roots = const(ctx, rule, fp, w, "ROOTS")
            half = const(ctx, rule, fp, w, "HALF")
        except Skip:
            continue
        K = "%s:%s:" % (rule, fp)
        R = 1 << w
        Rinv = pow(R, -1, p) if p > 2 and p % 2 else None
        req(ctx, rule, K + "PRIME-prime", is_prime(p) and p < R and p % 2 == 1, "PRIME = %d is an odd prime below 2^%d" % (p, w), "PRIME = %d is not an odd prime below 2^%d" % (p, w))
        if Rinv is None:
            continue
        B = 1 << mw
        req(ctx, rule, K + "MU", mu == (-pow(p, -1, B)) % B, "MU = -PRIME^-1 mod 2^%d" % mw, "MU (%d) is not -PRIME^-1 mod 2^%d (= %d)" % (mu, mw, (-pow(p, -1, B)) % B))
        if mw != w:
            c2 = ctx.prog.const_by_path.get("<fp::%s as fp::ops::FieldMulOpsSplitWord<u%d>>::MU" % (fp, w))
            # the half-word MU is derived from the full one by a checked narrowing in the macro; its value equals mu when mu < 2^mw
            req(ctx, rule, K + "MU-fits-half-word", mu < B, "MU fits the half word used by the split-word multiplier", "MU does not fit %d bits" % mw)
        req(ctx, rule, K + "R2", r2 == (R * R) % p, "R2 = (2^%d)^2 mod PRIME" % w, "R2 (%d) is not (2^%d)^2 mod PRIME (= %d)" % (r2, w, (R * R) % p))
        req(ctx, rule, K + "BIT_MASK", mask == (1 << p.bit_length()) - 1, "BIT_MASK = 2^bitlen(PRIME) - 1", "BIT_MASK (%d) is not 2^%d - 1" % (mask, p.bit_length()))
        req(ctx, rule, K + "HALF", half == (pow(2, -1, p) * R) % p, "HALF = 2^-1 (Montgomery form)", "HALF (%d) is not the Montgomery form of 1/2" % half)
        req(ctx, rule, K + "two-adicity", (p - 1) % (1 << nr) == 0, "2^NUM_ROOTS divides PRIME - 1", "2^%d does not divide PRIME - 1" % nr)
        g = (G * Rinv) % p
        ok = G < p and pow(g, 1 << nr, p) == 1 and pow(g, 1 << (nr - 1), p) == p - 1
        req(ctx, rule, K + "G-order", ok, "G has multiplicative order exactly 2^%d" % nr, "G does not have order exactly 2^NUM_ROOTS = 2^%d" % nr)
        top = min(max_roots or 0, nr)
        good = len(roots) == (max_roots or 0) + 1 and all(x < p for x in roots)
        bad_i = []
        for i in range(0, top + 1):
            r = (roots[i] * Rinv) % p
            if i == 0:
                if r != 1:
                    bad_i.append(i)
                continue
            if not (pow(r, 1 << i, p) == 1 and pow(r, 1 << (i - 1), p) == p - 1):
                bad_i.append(i)
            elif r != pow(g, 1 << (nr - i), p):
                bad_i.append(i)
        req(ctx, rule, K + "ROOTS", good and not bad_i,
            "ROOTS[i] has order exactly 2^i and equals G^(2^(NUM_ROOTS-i)) for i = 0..%d; ROOTS[0] = 1 (Montgomery)" % top,
            "ROOTS entries %s do not have the claimed order / are not the matching power of G (len=%d)" % (bad_i, len(roots)))
        req(ctx, rule, K + "reduced", all(x < p for x in (r2, G, half)), "R2, G, HALF are below PRIME", "a Montgomery constant is not below PRIME")
        # ENCODED_SIZE
        es = ctx.prog.const_by_path.get("<field::%s as field::FieldElement>::ENCODED_SIZE" % fld)
        req(ctx, rule, "%s:%s:ENCODED_SIZE" % (rule, fld), es is not None and int(es.get("vs", -1)) == (p.bit_length() + 7) // 8,
            "ENCODED_SIZE = ceil(bitlen(PRIME)/8) = %d" % ((p.bit_length() + 7) // 8), "ENCODED_SIZE of %s is not ceil(bitlen(PRIME)/8)" % fld)
    m = ctx.prog.const_by_path.get("field::field255::MODULUS_LITTLE_ENDIAN")
    good = False
    if m is not None and "va" in m:
        v = sum(int(b) << (8 * i) for i, b in enumerate(m["va"]))
        good = v == (1 << 255) - 19 and len(m["va"]) == 32 and is_prime(v)
    req(ctx, rule, rule + ":Field255:modulus", good, "MODULUS_LITTLE_ENDIAN = 2^255 - 19 (prime), 32 bytes", "Field255's modulus table is not 2^255 - 19")
    ctx.floor(rule, 33)


def run_accessors(ctx):
    rule = "R-C09.A"
    for fld, fp, w, mw in FIELDS:
        adt = "field::" + fld
        try:
            f = ctx.fn(rule, name="root", self_adt=adt)
            g = ctx.guards(f)
            some = [rd for rd in g.retdefs if rd.kind == "some"]
            none = [rd for rd in g.retdefs if rd.kind == "none"]
            good = len(some) == 1 and len(none) == 1 and Mentions(Index(Any(), Local(1)))(some[0].expr) and "ROOTS" in fmt(some[0].expr)
            bound = [e for e in g.edges if e.cond[0] == "rel" and e.cond[1] == "Ge" and Local(1)(e.cond[2]) and
                     Call("min", Any(), Bin("Add", Sym("NUM_ROOTS"), Lit(1), commutative=True))(e.cond[3]) and set(rd.kind for rd in e.leads) == {"none"}]
            req(ctx, rule, "%s:%s" % (rule, f.id), good and len(bound) == 1, "root(l) = Some(ROOTS[l]) iff l < min(len(ROOTS), NUM_ROOTS + 1)",
                "root(l) does not return ROOTS[l] exactly for l < min(len(ROOTS), NUM_ROOTS+1)", loc=f.loc)
            for nm, want, desc in (("generator", Agg(fld, Sym("G")), "Self(G)"),
                                   ("half", Agg(fld, Sym("HALF")), "Self(HALF)"),
                                   ("modulus", Sym("PRIME"), "PRIME"),
                                   ("zero", Agg(fld, Lit(0)), "Self(0)"),
                                   ("generator_order", S(Bin("Shl", Lit(1), S(Sym("NUM_ROOTS")))), "1 << NUM_ROOTS")):
                f = ctx.fn(rule, name=nm, self_adt=adt)
                g = ctx.guards(f)
                rds = [rd for rd in g.retdefs if rd.expr is not None]
                req(ctx, rule, "%s:%s" % (rule, f.id), len(rds) == 1 and want(rds[0].expr), "%s = %s" % (nm, desc),
                    "%s is not %s: %s" % (nm, desc, [fmt(r.expr)[:80] for r in rds]), loc=f.loc)
            f = ctx.fn(rule, name="one", self_adt=adt)
            g = ctx.guards(f)
            rds = [rd for rd in g.retdefs if rd.expr is not None]
            good = len(rds) == 1 and Agg(fld, Index(Any(), Lit(0)))(rds[0].expr) and "ROOTS" in fmt(rds[0].expr) and fp in fmt(rds[0].expr)
            req(ctx, rule, "%s:%s" % (rule, f.id), good, "one = Self(ROOTS[0])", "one() is not Self(ROOTS[0])", loc=f.loc)
        except Skip:
            pass
    ctx.floor(rule, 21)


def run_wiring(ctx):
    rule = "R-C09.W"
    prog = ctx.prog
    for fld, fp, w, mw in FIELDS:
        adt = "field::" + fld
        raw = lambda p: Field(p, "0")

        def fpcall(nm, *args):
            def m(e):
                return Call(nm, *args)(e) and ("FieldOps" in e[1] or "FieldOps" in (e[4] or "")) and (fp in (e[3] or "") or "Self" in (e[3] or ""))
            return m
        try:
            for nm, tr, op in (("add", "Add", "add"), ("sub", "Sub", "sub"), ("mul", "Mul", "mul")):
                f = ctx.fn(rule, name=nm, trait=tr, self_adt=adt, id_re=r"^<field::%s as " % fld)
                g = ctx.guards(f)
                rds = [rd for rd in g.retdefs if rd.expr is not None]
                good = len(rds) == 1 and Agg(fld, fpcall(op, raw(Local(1)), raw(Local(2))))(rds[0].expr)
                req(ctx, rule, "%s:%s" % (rule, f.id), good, "%s = Self(%s::%s(self.0, rhs.0))" % (nm, fp, op),
                    "%s::%s is not %s::%s on the raw representations: %s" % (fld, nm, fp, op, [fmt(r.expr)[:100] for r in rds]), loc=f.loc)
            f = ctx.fn(rule, name="neg", trait="Neg", self_adt=adt, id_re=r"^<field::%s as " % fld)
            rds = [rd for rd in ctx.guards(f).retdefs if rd.expr is not None]
            req(ctx, rule, "%s:%s" % (rule, f.id), len(rds) == 1 and Agg(fld, fpcall("neg", raw(Local(1))))(rds[0].expr), "neg = Self(%s::neg(self.0))" % fp,
                "neg is not %s::neg on the raw representation" % fp, loc=f.loc)
            f = ctx.fn(rule, name="inv", trait="FieldElement", self_adt=adt)
            rds = [rd for rd in ctx.guards(f).retdefs if rd.expr is not None]
            req(ctx, rule, "%s:%s" % (rule, f.id), len(rds) == 1 and Agg(fld, fpcall("inv", raw(Local(1))))(rds[0].expr), "inv = Self(%s::inv(self.0))" % fp,
                "inv is not %s::inv on the raw representation" % fp, loc=f.loc)
            f = ctx.fn(rule, name="div", trait="Div", self_adt=adt, id_re=r"^<field::%s as " % fld)
            rds = [rd for rd in ctx.guards(f).retdefs if rd.expr is not None]
            req(ctx, rule, "%s:%s" % (rule, f.id), len(rds) == 1 and Bin("Mul", Local(1), Call("inv", Local(2)))(rds[0].expr), "div = self * rhs.inv()",
                "div is not self * rhs.inv()", loc=f.loc)
            f = ctx.fn(rule, name="pow", self_adt=adt)
            rds = [rd for rd in ctx.guards(f).retdefs if rd.expr is not None]
            good = len(rds) == 1 and Agg(fld, fpcall("pow", raw(Local(1)), S(Local(2))))(rds[0].expr) and \
                not Mentions(Call("montgomery"))(rds[0].expr) and not Mentions(Call("residue"))(rds[0].expr)
            req(ctx, rule, "%s:%s" % (rule, f.id), good, "pow = Self(%s::pow(self.0, exp as plain integer))" % fp,
                "pow does not raise the raw representation to the PLAIN exponent", loc=f.loc)
            # conversions in
            ins = [x for x in prog.find(name="from", self_adt=adt) if re_int_from(x.id, fld)]
            for f in ins:
                rds = [rd for rd in ctx.guards(f).retdefs if rd.expr is not None]
                good = len(rds) == 1 and Agg(fld, fpcall("montgomery", S(Local(1))))(rds[0].expr)
                req(ctx, rule, "%s:%s" % (rule, f.id), good, "From<int> = Self(montgomery(x))", "conversion from an integer does not go through montgomery()", loc=f.loc)
            if not ins:
                ctx.bad(rule, "%s:%s:from-int" % (rule, fld), "no From<integer> impl found for %s" % fld, kind="anchor")
            f = ctx.fn(rule, name="try_from_bytes", self_adt=adt)
            g = ctx.guards(f)
            acc = g.accept_defs(("err",))
            good = len(acc) == 1 and acc[0].payload is not None and Agg(fld, fpcall("montgomery", lambda x: AnyLocal()(x) or Bin("BitAnd", AnyLocal(), Local(2))(x)))(acc[0].payload)
            req(ctx, rule, "%s:%s:montgomery" % (rule, f.id), good, "bytes -> Self(montgomery(int))", "decoded integers are not converted with montgomery()", loc=f.loc)
            # little-endian assembly: int |= (bytes[i] as W) << (i << 3)
            asm = False
            for bi, si, s in f.body.iter_stmts():
                if s.kind == "assign" and s.rv is not None and s.rv.kind == "bin" and s.rv.op == "BitOr":
                    ex = g.eb.rvalue(s.rv)
                    sh = ex[3] if Bin("Shl")(ex[3]) else ex[2]
                    if Bin("Shl", S(Index(Local(1))), Bin("Shl", Any(), Lit(3)))(sh) and strip(sh[2])[2] == sh[3][2]:
                        asm = True
                    # the same with `for (i, byte) in bytes[..N].iter().enumerate()`: byte = item.1, i = item.0 of one `next()`
                    en = Field(Call("next"), name="0", variant="Some")
                    if Bin("Shl", S(Field(en, name="1")), Bin("Shl", Field(en, name="0"), Lit(3)))(sh):
                        b0, i0 = strip(sh[2]), sh[3][2]
                        if b0[1] == i0[1]:
                            asm = True
            req(ctx, rule, "%s:%s:little-endian" % (rule, f.id), asm, "int |= (bytes[i] as W) << (8*i)", "bytes are not assembled little-endian with byte i at bit 8*i", loc=f.loc)
            # conversions out
            outs = [x for x in prog.fns if x.name == "from" and re_out(x.id, fld)]
            n_out = 0
            for f in outs:
                g = ctx.guards(f)
                terms = [g.eb.call_expr(t) for bi, t in f.body.calls()]
                uses_raw = [t for t in terms if Mentions(raw(Local(1)))(t)]
                good = bool(uses_raw) and all(Mentions(fpcall("residue", raw(Local(1))))(t) or not Mentions(raw(Local(1)))(t) for t in terms)
                # Vec<u8> delegates to the array conversion
                if not uses_raw:
                    good = any(Call("from", Local(1))(t) or (t[0] == "conv" and Local(1)(t[1])) for t in terms)
                n_out += 1
                req(ctx, rule, "%s:%s" % (rule, f.id), good, "conversion out goes through residue(self.0)", "a conversion out of %s reads the Montgomery form directly" % fld, loc=f.loc)
            if n_out < 2:
                ctx.bad(rule, "%s:%s:from-out" % (rule, fld), "expected the integer and byte-array conversions out of %s" % fld, kind="anchor")
            # byte array: slice[i] = (int >> (i << 3)) & 0xff
            fb = [x for x in outs if "[u8;" in x.id]
            okb = False
            for f in fb:
                g = ctx.guards(f)
                for bi, si, s in f.body.iter_stmts():
                    if s.kind == "assign" and s.rv is not None and s.rv.kind == "cast":
                        ex = g.eb.rvalue(s.rv)
                        if Cast(Bin("BitAnd", Bin("Shr", fpcall("residue", raw(Local(1))), Bin("Shl", Any(), Lit(3))), Lit(255)))(ex):
                            okb = True
            req(ctx, rule, "%s:%s:to-bytes-little-endian" % (rule, fld), okb, "byte i = (residue >> 8*i) & 0xff", "the byte encoding is not little-endian of residue(self.0)")
            f = ctx.fn(rule, name="eq", self_adt=adt, id_re=r"PartialEq<u")
            rds = [rd for rd in ctx.guards(f).retdefs if rd.expr is not None]
            req(ctx, rule, "%s:%s" % (rule, f.id), len(rds) == 1 and Bin("Eq", fpcall("residue", raw(Local(1))), S(Local(2)), commutative=True)(rds[0].expr),
                "eq(int) compares residue(self.0)", "comparison with an integer does not use residue()", loc=f.loc)
        except Skip:
            pass
    # FieldOps derived routines
    W0 = Sym("ZERO")
    W1 = Sym("ONE")
    P = Sym("PRIME")
    specs = [
        ("neg", Call("sub", W0, Local(1)), "sub(0, x)"),
        ("modp", Call("sub", Local(1), P), "sub(x, PRIME)"),
        ("inv", Call("pow", Local(1), Bin("Sub", Bin("Sub", P, W1), W1)), "pow(x, PRIME - 2)"),
        ("montgomery", Call("modp", Call("mul", Local(1), Sym("R2"))), "modp(mul(x, R2))"),
        ("residue", Call("modp", Call("mul", Local(1), W1)), "modp(mul(x, 1))"),
    ]
    for nm, want, desc in specs:
        try:
            f = ctx.fn(rule, name=nm, id_re=r"^fp::ops::FieldOps::%s$" % nm)
            rds = [rd for rd in ctx.guards(f).retdefs if rd.expr is not None]
            req(ctx, rule, "%s:%s" % (rule, f.id), len(rds) == 1 and want(rds[0].expr), "%s(x) = %s" % (nm, desc),
                "FieldOps::%s is not %s: %s" % (nm, desc, [fmt(r.expr)[:120] for r in rds]), loc=f.loc)
        except Skip:
            pass
    # pow: left-to-right square and multiply from ROOTS[0]
    try:
        f = ctx.fn(rule, name="pow", id_re=r"^fp::ops::FieldOps::pow$")
        g = ctx.guards(f)
        b = f.body
        K = "%s:%s:" % (rule, f.id)
        muls = calls_named(ctx, f, "mul")
        rds = [rd for rd in g.retdefs if rd.expr is not None]
        good = len(muls) == 2 and len(rds) == 1 and rds[0].expr[0] == "phi"
        if good:
            t = rds[0].expr
            sq = [m for m in muls if m[1][2][0] == t and m[1][2][1] == t]
            mx = [m for m in muls if m[1][2][0] == t and Local(1)(m[1][2][1])]
            defs = phi_defs(g, t[1])
            init = [d for d in defs if Index(Any(), Lit(0))(d[0]) and "ROOTS" in fmt(d[0])]
            good = len(sq) == 1 and len(mx) == 1 and len(init) == 1 and len(defs) == 3 and b.dominates(sq[0][0], mx[0][0])
            if good:
                class _E:
                    block = sq[0][0]
                src = ctx.loop_source(f, _E)
                nbits = Bin("Sub", Sym("BITS"), S(Call("leading_zeros", Local(2))))
                lp = g.loop_of(sq[0][0])
                latches = [tt for (tt, hh) in b.back_edges() if hh == lp[0]]
                if src is not None:
                    # for i in (0..nbits).rev()
                    item = Field(Call("next"), name="0", variant="Some")
                    range_ok = Call("rev", Agg("Range", Lit(0), nbits))(src) and adapters_in(src) == ["rev"]
                else:
                    # let mut i = nbits; while i > 0 { i -= 1; .. }     (the same index sequence nbits-1, .., 0)
                    item, range_ok = (lambda x: False), False
                    ex = [e for e in find_rel_edges(g, "Eq", lambda x: x[0] == "phi", Lit(0)) + find_rel_edges(g, "Le", lambda x: x[0] == "phi", Lit(0))
                          if e.block in lp[1] and e.target not in lp[1]]
                    exits = [e for e in g.edges if e.block in lp[1] and e.target not in lp[1]]
                    if len(ex) == 1 and len(exits) == 1:
                        c = ex[0].cond
                        ctr = c[2] if c[2][0] == "phi" else c[3]
                        cd = phi_defs(g, ctr[1])
                        ini = [d for d in cd if not Mentions(Same(ctr))(d[0])]
                        dec = [d for d in cd if Bin("Sub", Same(ctr), Lit(1), commutative=False)(d[0])]
                        if len(cd) == 2 and len(ini) == 1 and len(dec) == 1 and nbits(ini[0][0]) and dec[0][2] in lp[1] and \
                                b.dominates(dec[0][2], sq[0][0]) and all(b.dominates(dec[0][2], tt) for tt in latches) and ex[0].block == lp[0]:
                            item, range_ok = Same(ctr), True
                bit = Bin("BitAnd", Bin("Shr", Local(2), item), W1)
                cond = [e for e in g.edges if e.cond[0] == "rel" and ((e.cond[1] == "Ne" and bit(e.cond[2]) and W0(e.cond[3])) or
                                                                     (e.cond[1] == "Eq" and bit(e.cond[2]) and W1(e.cond[3])))]
                good = range_ok and len(cond) == 1 and b.dominates(cond[0].target, mx[0][0]) and \
                    all(b.dominates(sq[0][0], tt) for tt in latches)
        req(ctx, rule, K + "square-and-multiply", good, "t = ROOTS[0]; for i in (0..bitlen(exp)).rev() { t = t*t; if bit i of exp { t = t*x } }",
            "FieldOps::pow is not left-to-right square-and-multiply starting from one", loc=f.loc)
    except Skip:
        pass
    ctx.floor(rule, 45)


def CtEq(a, b):
    def m(e):
        return isinstance(e, tuple) and e[0] == "cteq" and ((a(e[1]) and b(e[2])) or (a(e[2]) and b(e[1])))
    return m


def re_int_from(fid, fld):
    import re
    return re.match(r"^<field::%s as std::convert::From<u(32|64|128)>>::from$" % fld, fid) is not None


def re_out(fid, fld):
    import re
    return re.search(r"From<field::%s> for (u\d+|\[u8;.*\]|std::vec::Vec<u8>)>::from$" % fld, fid) is not None


def run_projections(ctx):
    rule = "R-C09.E"
    for fld, fp, w, mw in FIELDS:
        adt = "field::" + fld
        raw = lambda p: Field(p, "0")
        try:
            f = ctx.fn(rule, name="eq", trait="PartialEq", self_adt=adt, id_re=r"PartialEq>::eq$")
            rds = [rd for rd in ctx.guards(f).retdefs if rd.expr is not None]
            req(ctx, rule, "%s:%s" % (rule, f.id), len(rds) == 1 and Bin("Eq", raw(Local(1)), raw(Local(2)), commutative=True)(rds[0].expr),
                "eq compares the (unique, reduced) representation", "eq does not compare self.0 with rhs.0", loc=f.loc)
            f = ctx.fn(rule, name="hash", trait="Hash", self_adt=adt)
            hs = [c for bi, c in calls_named(ctx, f, "hash")]
            req(ctx, rule, "%s:%s" % (rule, f.id), len(hs) == 1 and raw(Local(1))(hs[0][2][0]), "hash feeds exactly self.0 - the projection eq compares",
                "hash does not hash exactly the projection that eq compares", loc=f.loc)
            f = ctx.fn(rule, name="ct_eq", trait="ConstantTimeEq", self_adt=adt)
            rds = [rd for rd in ctx.guards(f).retdefs if rd.expr is not None]
            req(ctx, rule, "%s:%s" % (rule, f.id), len(rds) == 1 and CtEq(raw(Local(1)), raw(Local(2)))(rds[0].expr), "ct_eq compares self.0 with rhs.0",
                "ct_eq does not compare the representations", loc=f.loc)
            f = ctx.fn(rule, name="conditional_select", trait="ConditionallySelectable", self_adt=adt)
            rds = [rd for rd in ctx.guards(f).retdefs if rd.expr is not None]
            req(ctx, rule, "%s:%s" % (rule, f.id), len(rds) == 1 and Agg(fld, Call("conditional_select", raw(Local(1)), raw(Local(2)), Local(3)))(rds[0].expr),
                "conditional_select(a, b, c) = Self(select(a.0, b.0, c))  (a for 0, b for 1)", "conditional_select does not select between a.0 and b.0 in that order", loc=f.loc)
        except Skip:
            pass
    # Field255: equality via canonical encodings
    try:
        adt = "field::field255::Field255"
        f = ctx.fn(rule, name="ct_eq", trait="ConstantTimeEq", self_adt=adt)
        g = ctx.guards(f)
        tb = calls_named(ctx, f, "fiat_25519_to_bytes")
        rds = [rd for rd in g.retdefs if rd.expr is not None]
        good = len(tb) == 2 and any(Field(Local(1), "0")(c[1][2][1]) for c in tb) and any(Field(Local(2), "0")(c[1][2][1]) for c in tb) and \
            len(rds) == 1 and rds[0].expr[0] == "cteq" and {rds[0].expr[1], rds[0].expr[2]} == {tb[0][1][2][0], tb[1][1][2][0]}
        req(ctx, rule, "%s:%s" % (rule, f.id), good, "ct_eq compares the canonical 32-byte encodings of both operands",
            "Field255::ct_eq does not compare canonical encodings (the limb representation is not unique)", loc=f.loc)
        f = ctx.fn(rule, name="eq", trait="PartialEq", self_adt=adt)
        rds = [rd for rd in ctx.guards(f).retdefs if rd.expr is not None]
        req(ctx, rule, "%s:%s" % (rule, f.id), len(rds) == 1 and S(CtEq(Local(1), Local(2)))(rds[0].expr), "eq = ct_eq", "Field255::eq is not ct_eq", loc=f.loc)
        f = ctx.fn(rule, name="conditional_select", trait="ConditionallySelectable", self_adt=adt)
        sel = calls_named(ctx, f, "fiat_25519_selectznz")
        good = len(sel) == 1 and S(Call("unwrap_u8", Local(3)))(sel[0][1][2][1]) and Mentions(Local(1))(sel[0][1][2][2]) and Mentions(Local(2))(sel[0][1][2][3])
        req(ctx, rule, "%s:%s" % (rule, f.id), good, "selectznz(choice, a, b): a for 0, b for 1", "Field255::conditional_select operand order is wrong", loc=f.loc)
    except Skip:
        pass
    ctx.floor(rule, 15)


def cond_sub_parts(e):
    """match the branch-free final correction  (Z & m) | (s0 & !m)  with  s0,b0 = Z -o PRIME;  _,b1 = CC -o b0;  m = 0 -w b1
    and return (Z, CC); None if the term has another shape.  Reviewed lemma: for V = Z + 2^w * CC < 2 * PRIME the
    result is V mod PRIME (b1 = 1 iff CC = 0 and Z < PRIME, i.e. iff V < PRIME)."""
    if not Bin("BitOr")(e):
        return None
    for keep, corr in ((e[2], e[3]), (e[3], e[2])):
        if not (Bin("BitAnd")(keep) and Bin("BitAnd")(corr)):
            continue
        for z, m in ((keep[2], keep[3]), (keep[3], keep[2])):
            for s0, nm in ((corr[2], corr[3]), (corr[3], corr[2])):
                if not (isinstance(nm, tuple) and nm[0] == "un" and nm[1] == "Not" and nm[2] == m):
                    continue
                osub = Call("overflowing_sub", lambda x, z=z: x == z, Sym("PRIME"))
                if not Field(osub, name="0")(s0):
                    continue
                b0 = S(Field(osub, name="1"))
                if not Call("wrapping_sub", Sym("ZERO"), Any())(m):
                    continue
                b1 = strip(m[2][1])
                if not (Field(Call("overflowing_sub", Any(), b0), name="1")(b1)):
                    continue
                cc = b1[1][2][0]
                return z, cc
    return None


def run_word_ops(ctx):
    rule = "R-C09.M"
    try:
        f = ctx.fn(rule, name="add", id_re=r"^fp::ops::FieldOps::add$")
        rds = [rd for rd in ctx.guards(f).retdefs if rd.expr is not None]
        parts = cond_sub_parts(rds[0].expr) if len(rds) == 1 else None
        oadd = Call("overflowing_add", Local(1), Local(2))
        good = parts is not None and Field(oadd, name="0")(parts[0]) and S(Field(oadd, name="1"))(parts[1])
        req(ctx, rule, "%s:%s" % (rule, f.id), good, "add: (z, carry) = x +o y; V = z + 2^w*carry = x + y < 2p; result = V mod p (reviewed correction shape)",
            "FieldOps::add is not `x + y with carry, then the branch-free conditional subtraction of PRIME on (carry, sum)`", loc=f.loc)
        f = ctx.fn(rule, name="sub", id_re=r"^fp::ops::FieldOps::sub$")
        rds = [rd for rd in ctx.guards(f).retdefs if rd.expr is not None]
        osub = Call("overflowing_sub", Local(1), Local(2))
        mask = Call("wrapping_sub", Sym("ZERO"), S(Field(osub, name="1")))
        good = len(rds) == 1 and Call("wrapping_add", Field(osub, name="0"), Bin("BitAnd", mask, Sym("PRIME"), commutative=True))(rds[0].expr)
        req(ctx, rule, "%s:%s" % (rule, f.id), good, "sub: (z, borrow) = x -o y; result = z +w (borrow ? PRIME : 0)",
            "FieldOps::sub is not `x - y with borrow, adding PRIME back exactly when it borrowed`", loc=f.loc)
        for nm in ("FieldMulOpsSingleWord", "FieldMulOpsSplitWord"):
            f = ctx.fn(rule, name="mul", id_re=r"^fp::ops::%s::mul$" % nm)
            rds = [rd for rd in ctx.guards(f).retdefs if rd.expr is not None]
            parts = cond_sub_parts(rds[0].expr) if len(rds) == 1 else None
            req(ctx, rule, "%s:%s:final-correction" % (rule, f.id), parts is not None,
                "final correction: result = (prod, cc) - PRIME if (cc, prod) >= PRIME (reviewed branch-free shape): prod = %s, cc = %s" % (
                    fmt(parts[0])[:60] if parts else None, fmt(parts[1])[:40] if parts else None),
                "%s::mul does not end with the branch-free conditional subtraction of PRIME on the full (carry, product) pair" % nm, loc=f.loc)
    except Skip:
        pass
    # the carry-save core of the Montgomery multipliers, per instantiation: polynomial identity + range obligations
    import sle, carry
    for fld, fp, w, mw in FIELDS:
        try:
            fm = ctx.fn(rule, name="mul", id_re=r"^<fp::%s as fp::ops::FieldOps<u%d>>::mul$" % (fp, w))
            cs = [t for bi, t in fm.body.calls()]
            tgt = [t for t in cs if t.callee.name == "mul" and ("FieldMulOpsSingleWord" in (t.callee.bestfull or "") or "FieldMulOpsSplitWord" in (t.callee.bestfull or ""))]
            key = "%s:%s:montgomery-identity" % (rule, fp)
            if len(tgt) != 1 or len(cs) != 1:
                ctx.bad(rule, key, "%s::mul does not forward to exactly one of the generic Montgomery multipliers" % fp, loc=fm.loc)
                continue
            split = "SplitWord" in tgt[0].callee.bestfull
            gen = ctx.fn(rule, name="mul", id_re=r"^fp::ops::FieldMulOps%s::mul$" % ("SplitWord" if split else "SingleWord"))
            pval = const(ctx, rule, fp, w, "PRIME")
            try:
                term = sle.straight_line_term(ctx.prog, gen)
            except sle.NotStraightLine as ex:
                ctx.bad(rule, key, "the multiplier is not straight-line code (%s): the carry-save identity is not established" % ex, loc=gen.loc)
                continue
            parts = cond_sub_parts(term)
            if parts is None:
                ctx.bad(rule, key, "the multiplier does not end in the reviewed conditional subtraction; (Z, CC) cannot be identified", loc=gen.loc)
                continue
            cv = carry.Carry(w, pval, split)
            ok, detail = cv.montgomery_goal(*parts)
            if ok:
                ctx.ok(rule, key, "%s (%s, w=%d): %s" % (fp, "split-word" if split else "single-word", w, detail), loc=gen.loc,
                       sample={"rule": rule, "instantiation": fp, "identity": detail[:200], "axioms": sorted(set(cv.notes))})
            else:
                ctx.bad(rule, key, "%s (%s multiplier, w=%d): %s" % (fp, "split-word" if split else "single-word", w, detail), loc=gen.loc)
        except Skip:
            pass
    # Field255 byte conversions do not mask
    try:
        for f in ctx.fns(rule, 1, name="try_from", self_adt="field::field255::Field255", id_re=r"TryFrom<&"):
            rds = [rd for rd in ctx.guards(f).retdefs if rd.expr is not None]
            good = len(rds) == 1 and Call("try_from_bytes", Local(1), Lit(0))(rds[0].expr)
            req(ctx, rule, "%s:%s" % (rule, f.id), good, "Field255::try_from(bytes) = try_from_bytes(bytes, mask_top_bit = false)",
                "Field255::try_from(&[u8]) clears the top bit: non-canonical byte strings are accepted as other elements", loc=f.loc)
        f = ctx.fn(rule, name="from", self_adt="field::field255::Field255", id_re=r"From<u64>")
        cs = calls_named(ctx, f, "try_from_bytes")
        good = len(cs) == 1 and Lit(0)(cs[0][1][2][1])
        req(ctx, rule, "%s:%s" % (rule, f.id), good, "Field255::from(u64) decodes the little-endian bytes without masking", "Field255::from(u64) masks", loc=f.loc)
    except Skip:
        pass
    # Field255 -> u64: the bytes not taken into the result are all checked to be zero, and the split point is 8 bytes
    try:
        f = ctx.fn(rule, name="try_from", id_re=r"TryFrom<field::field255::Field255> for u64>::try_from$")
        g = ctx.guards(f)
        acc = g.accept_defs(("err",))
        K = "%s:%s" % (rule, f.id)
        good = False
        if len(acc) == 1 and acc[0].payload is not None:
            pay = acc[0].payload
            took = [x for x in walk(pay) if Call("index", AnyLocal(), Agg("RangeTo", Any()))(x)]
            if Call("from_le_bytes")(strip(pay)) and len(took) == 1:
                buf, k = took[0][2][0], took[0][2][1][2][0]
                tb = [c for bi, c in calls_named(ctx, f, "fiat_25519_to_bytes")]
                rest = Call("index", Same(buf), Agg("RangeFrom", Same(k)))
                ref = [e for e in g.edges if e.cond[0] == "rel" and e.cond[1] == "Ne" and len(e.cond) > 4 and (rest(e.cond[2]) or rest(e.cond[3]))
                       and set(rd.kind for rd in e.leads) == {"err"} and g.dominates_accepts(e)]
                kv = int(k[2]) if k[0] == "symlit" else (k[1] if k[0] == "lit" else None)
                good = len(tb) == 1 and tb[0][2][0] == buf and Field(Local(1), "0")(tb[0][2][1]) and len(ref) == 1 and kv == 8
        req(ctx, rule, K, good, "u64::from_le_bytes(bytes[..8]) after refusing unless bytes[8..] == 0 (all 32 canonical bytes are either used or checked)",
            "Field255 -> u64 does not check every byte beyond the first 8 to be zero", loc=f.loc)
    except Skip:
        pass
    ctx.floor(rule, 10)


def run(ctx):
    run_word_ops(ctx)
    run_constants(ctx)
    run_accessors(ctx)
    run_wiring(ctx)
    run_projections(ctx)
    # conversion from bytes: the canonical-range test of every field (strict `< p` over all bytes, masks) is C11's sampling /
    # decoding rule set, shared here because "conversion to and from bytes agrees with arithmetic modulo p" needs it
    from rules import c11
    c11.run_sampling(ctx)
