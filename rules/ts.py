"""TS helper: compare the decision table extracted from a dispatch function with an expected table."""
from guards import decision_table, fmt_cond
from expr import fmt
from pat import *


def cond_matches(c, want):
    """want: ('variant', subject_pat, name) | ('rel', op, lhs_pat, rhs_pat) | ('truth', pat, polarity)"""
    from guards import SWAP
    if want[0] == "variant":
        return c[0] == "variant" and c[3] and c[2] == want[2] and want[1](c[1])
    if want[0] == "rel":
        if c[0] != "rel":
            return False
        if c[1] == want[1] and want[2](c[2]) and want[3](c[3]):
            return True
        return SWAP[c[1]] == want[1] and want[2](c[3]) and want[3](c[2])
    if want[0] == "truth":
        return c[0] == "truth" and c[2] == want[2] and want[1](c[1])
    return False


def check_table(ctx, rule, f, rows, refusal=("err",), exact=True):
    """rows: list of (name, payload_pattern over the returned expression, [wanted conditions]).
    Every accepting return of f must match exactly one row and be guarded by all its conditions;
    every row must be matched (the table is exhaustive over accepting returns)."""
    g = ctx.guards(f)
    table = decision_table(g, refusal)
    matched = {name: 0 for name, _, _ in rows}
    for rd, conds in table:
        hits = [r for r in rows if r[1](rd.expr)]
        key = "%s:%s:accepting-return:%s" % (rule, f.id, hits[0][0] if len(hits) == 1 else fmt(rd.expr)[:80])
        if len(hits) != 1:
            ctx.bad(rule, key, "%s has an accepting return that matches %d expected rows: %s  [guarded by: %s]" % (
                f.id, len(hits), fmt(rd.expr)[:200], "; ".join(fmt_cond(c)[:80] for c in conds)),
                loc="%s:%s" % (f.file, rd.line))
            continue
        name, _, wants = hits[0]
        matched[name] += 1
        missing = [w for w in wants if not any(cond_matches(c, w) for c in conds)]
        if missing:
            ctx.bad(rule, key, "%s: row `%s` is reachable without the required condition(s) %s; guarded only by: %s" % (
                f.id, name, [w[2] if w[0] == "variant" else w[1] for w in missing],
                "; ".join(fmt_cond(c)[:80] for c in conds)), loc="%s:%s" % (f.file, rd.line))
        else:
            ctx.ok(rule, key, "%s: %s <= %s" % (f.id, name, " & ".join(fmt_cond(c)[:60] for c in conds)),
                   loc="%s:%s" % (f.file, rd.line),
                   sample={"rule": rule, "fn": f.id, "row": name, "conditions": [fmt_cond(c)[:100] for c in conds]})
    for name, n in matched.items():
        if n == 0:
            ctx.bad(rule, "%s:%s:row-missing:%s" % (rule, f.id, name), "%s: expected accepting row `%s` not found" % (f.id, name), loc=f.loc)
    return table
