"""FACTS extraction harness: runs the rustc_private driver over /repo's working tree.

Facts are cached per (tree hash, config) under /verif/.work/facts so that all checks of one
tree share one extraction.  A missing/stale fact file is a hard failure (exit 2).
"""
import hashlib, json, os, subprocess, sys, time, glob, shutil, fcntl

VERIF = os.path.dirname(os.path.dirname(os.path.abspath(__file__)))
REPO = os.environ.get("PRIO_REPO", "/repo")
WORK = os.path.join(VERIF, ".work")
DRIVER = os.path.join(VERIF, "driver", "target", "debug", "prio-facts-driver")

CONFIGS = {
    "K2": "experimental,test-util,multithreaded",
    "K1": "experimental,test-util",
    "K0": "",
}
RUSTFLAGS = "-Zmir-opt-level=0 -Coverflow-checks=yes -Cdebug-assertions=no -Awarnings"


def infra_fail(msg):
    sys.stderr.write("INFRA-FAILURE: %s\n" % msg)
    sys.exit(2)


def tree_hash(repo=REPO):
    h = hashlib.sha256()
    paths = []
    for root in ("src",):
        for dp, dn, fn in os.walk(os.path.join(repo, root)):
            dn.sort()
            for f in sorted(fn):
                paths.append(os.path.join(dp, f))
    for f in ("Cargo.toml", "Cargo.lock"):
        paths.append(os.path.join(repo, f))
    for p in paths:
        try:
            with open(p, "rb") as fh:
                data = fh.read()
        except OSError:
            continue
        h.update(os.path.relpath(p, repo).encode())
        h.update(b"\0")
        h.update(hashlib.sha256(data).digest())
    # the driver itself is part of the key
    try:
        with open(os.path.join(VERIF, "driver", "src", "main.rs"), "rb") as fh:
            h.update(hashlib.sha256(fh.read()).digest())
    except OSError:
        pass
    return h.hexdigest()[:20]


def sysroot_lib():
    out = subprocess.run(["rustc", "+nightly", "--print", "sysroot"], capture_output=True, text=True)
    if out.returncode != 0:
        infra_fail("nightly toolchain not available: " + out.stderr)
    return os.path.join(out.stdout.strip(), "lib")


def build_driver():
    r = subprocess.run(["cargo", "+nightly", "build", "--offline"], cwd=os.path.join(VERIF, "driver"),
                       capture_output=True, text=True)
    if r.returncode != 0 or not os.path.exists(DRIVER):
        infra_fail("driver build failed:\n" + r.stderr[-3000:])


def facts_path(config, repo=REPO):
    return os.path.join(WORK, "facts", "%s-%s.json" % (tree_hash(repo), config))


def extract(config="K2", repo=REPO, force=False):
    """Return the path of a fresh fact file for repo's current working tree."""
    os.makedirs(os.path.join(WORK, "facts"), exist_ok=True)
    out = facts_path(config, repo)
    if os.path.exists(out) and not force:
        return out
    # one lock per (config, repository path): extractions of different scratch copies may run in parallel
    lkey = hashlib.sha256(os.path.abspath(repo).encode()).hexdigest()[:8]
    lockf = open(os.path.join(WORK, "extract-%s-%s.lock" % (config, lkey)), "w")
    fcntl.flock(lockf, fcntl.LOCK_EX)
    try:
        if os.path.exists(out) and not force:
            return out
        srcs = glob.glob(os.path.join(VERIF, "driver", "src", "*.rs"))
        if not os.path.exists(DRIVER) or any(os.path.getmtime(x) > os.path.getmtime(DRIVER) for x in srcs):
            build_driver()
        # a target dir per (repo path, config): cargo's freshness cache is defeated by removing
        # the fingerprints of the workspace members before each extraction
        tkey = hashlib.sha256(os.path.abspath(repo).encode()).hexdigest()[:8]
        target = os.path.join(WORK, "target-%s-%s" % (config, tkey)) if os.path.abspath(repo) != "/repo" \
            else os.path.join(WORK, "target-%s" % config)
        scratch_target = os.path.abspath(repo) != "/repo"
        if scratch_target and not os.path.exists(target):
            # a scratch copy of the repository: start from the dependency build of /repo's target directory (same lock file,
            # same flags) instead of compiling ~60 crates again; the directory is removed after the extraction
            base = os.path.join(WORK, "target-%s" % config)
            if os.path.isdir(base):
                subprocess.run(["cp", "-a", base, target])
        for fp in glob.glob(os.path.join(target, "debug", ".fingerprint", "prio-*")):
            shutil.rmtree(fp, ignore_errors=True)
        env = dict(os.environ)
        env["LD_LIBRARY_PATH"] = sysroot_lib() + ":" + env.get("LD_LIBRARY_PATH", "")
        env["RUSTFLAGS"] = RUSTFLAGS
        env["RUSTC_WORKSPACE_WRAPPER"] = DRIVER
        env["CARGO_TARGET_DIR"] = target
        env["CARGO_NET_OFFLINE"] = "true"
        env["PRIO_FACTS_OUT"] = out
        env["PRIO_FACTS_CRATE"] = "prio"
        env.pop("RUSTC_WRAPPER", None)
        cmd = ["cargo", "+nightly", "check", "--offline", "-p", "prio", "--lib"]
        feats = CONFIGS[config]
        if config == "K0":
            pass
        else:
            cmd += ["--features", feats]
        t0 = time.time()
        r = subprocess.run(cmd, cwd=repo, env=env, capture_output=True, text=True)
        if r.returncode != 0:
            sys.stderr.write(r.stderr[-6000:])
            infra_fail("cargo check failed for config %s (the tree does not compile?)" % config)
        if not os.path.exists(out) or os.path.getmtime(out) < t0 - 1:
            infra_fail("fact file %s was not (re)written by the driver" % out)
        if scratch_target:
            shutil.rmtree(target, ignore_errors=True)
        # keep the cache small: drop fact files older than the 12 most recent
        files = sorted(glob.glob(os.path.join(WORK, "facts", "*.json")), key=os.path.getmtime)
        for f in files[:-48]:
            try:
                os.remove(f)
            except OSError:
                pass
        return out
    finally:
        fcntl.flock(lockf, fcntl.LOCK_UN)
        lockf.close()
        if os.path.abspath(repo) != "/repo":
            try:
                os.remove(lockf.name)
            except OSError:
                pass


if __name__ == "__main__":
    cfg = sys.argv[1] if len(sys.argv) > 1 else "K2"
    t0 = time.time()
    p = extract(cfg, force="--force" in sys.argv)
    print(p, "%.1fs" % (time.time() - t0))
