"""SYM — symbolic byte counting for the wire codec.

For an `encode(&self, bytes)` implementation: the number of bytes appended to `bytes`, as a polynomial
normal form (sa/poly.py) per *variant path* (paths are distinguished only by enum discriminants /
Option-ness of fields; no solver, no value reasoning).  For `encoded_len(&self)`: the returned
expression per variant path.  Iterator loops are summarised as len(source) * per-item count (or an
opaque sum atom when the per-item count depends on the item).  Anything outside the supported shapes
yields UNSUPPORTED (reported as unproved, never as equal).
"""
import re
from expr import ExprBuilder, fmt, walk
from guards import FnGuards
from poly import Poly, to_poly, is_lit, lit_val

PRIM = {"u8": 1, "u16": 2, "u32": 4, "u64": 8, "u128": 16}
ITEM = ("item",)


class Unsupported(Exception):
    pass


class Sym:
    def __init__(self, prog):
        self.prog = prog
        self._g = {}
        self._enc_size = {}

    def guards(self, f):
        if f.did not in self._g:
            self._g[f.did] = FnGuards(self.prog, f)
        return self._g[f.did]

    # ------------------------------------------------------------------ atoms
    def canon(self, e):
        """canonical atom for a term (strip refs/casts/try, normalise loop items)"""
        while isinstance(e, tuple) and e and e[0] in ("cast", "conv", "try"):
            e = e[1]
        return e

    def atomize(self, store):
        def a(e):
            if not isinstance(e, tuple) or not e:
                return None
            if e[0] == "phi" and e[1] in store:
                return store[e[1]]
            if e[0] == "symlit":
                return Poly.const(e[2])
            if e[0] == "sym":
                return ("sym", norm_sym(e[1]))
            if e[0] == "len":
                return ("len", self.canon(e[1]))
            if e[0] == "call":
                name = e[1].split("::")[-1]
                if name == "div_ceil" and len(e[2]) == 2:
                    return ("fn", "div_ceil", (to_poly(e[2][0], a), to_poly(e[2][1], a)))
                if name == "next_power_of_two" and len(e[2]) == 1:
                    return ("fn", "npo2", (to_poly(e[2][0], a),))
                if name in ("encoded_len", "encoded_len_with_param") and e[2]:
                    return self.size_of_value(e, e[2][0])
                if name in ("unwrap", "expect", "unwrap_or_default") and e[2]:
                    return to_poly(e[2][0], a)
            return None
        return a

    # ------------------------------------------------------------------ sizes of encoded values
    def enc_size_of_impl(self, g):
        """constant byte count of a resolved local `encode` impl, or None if it depends on the value"""
        if g.did in self._enc_size:
            return self._enc_size[g.did]
        self._enc_size[g.did] = None
        try:
            paths = self.encode_paths(g)
            polys = set(p for _, p in paths)
            if len(polys) == 1:
                p = next(iter(polys))
                # constant = no atom mentions the value (self)
                if not any(mentions_self(a) for a in p.atoms()):
                    self._enc_size[g.did] = p
        except Unsupported:
            pass
        return self._enc_size[g.did]

    def size_of_value(self, call_e, x):
        """size atom/poly of the encoding of value term x given a call term to its encode/encoded_len"""
        full = call_e[3] or ""
        m = re.match(r"^<(.+) as codec::(?:Parameterized)?Encode(?:<.*>)?>::", full)
        if m:
            ty = m.group(1)
            if ty in PRIM:
                return Poly.const(PRIM[ty])
            # resolved local impl?
            cands = [g for g in self.prog.fns if g.name == "encode" and g.impl_trait == "codec::Encode" and
                     self.prog.types[g.impl_self]["s"] == ty]
            if not cands:
                head = ty.split("<")[0]
                cands = [g for g in self.prog.fns if g.name == "encode" and g.impl_trait == "codec::Encode" and
                         self.prog.types[g.impl_self]["s"].split("<")[0] == head and self.prog.types[g.impl_self]["k"] == "adt"]
            if len(cands) == 1:
                sz = self.enc_size_of_impl(cands[0])
                if sz is not None:
                    # instantiate const generics of the impl with the concrete type's arguments
                    return instantiate(sz, self.prog.types[cands[0].impl_self]["s"], ty)
            # a bare type parameter bounded by FieldElement encodes to ENCODED_SIZE bytes
            if re.match(r"^[A-Z][A-Za-z0-9]*$", ty) or ty.startswith("<"):
                if self.is_field_param(ty):
                    return Poly.atom(("sym", norm_sym("<%s as field::FieldElement>::ENCODED_SIZE" % ty)))
        return Poly.atom(("enc", self.canon(x)))

    def is_field_param(self, ty):
        return ty in ("F",) or "Field" in ty

    # ------------------------------------------------------------------ path walking
    def encode_paths(self, f, bytes_param=2):
        return self._paths(f, mode="encode", bytes_param=bytes_param)

    def len_paths(self, f):
        return self._paths(f, mode="len")

    def _paths(self, f, mode, bytes_param=None):
        g = self.guards(f)
        b = f.body
        loops = b.loops()
        results = []
        budget = [4000]

        def is_bytes(op):
            e = g.eb.operand(op)
            return e[0] == "param" and e[2] == bytes_param

        def run(block, assum, count, store, stop_at, depth):
            """walk from block; returns list of (assum, count, store, end) where end is 'return' or stop_at"""
            out = []
            work = [(block, assum, count, store)]
            while work:
                budget[0] -= 1
                if budget[0] < 0:
                    raise Unsupported("path budget exceeded in %s" % f.id)
                blk, assum, count, store = work.pop()
                if stop_at is not None and blk == stop_at:
                    out.append((assum, count, store, "stop"))
                    continue
                # loop header?
                if blk in loops and (stop_at is None or blk != stop_at) and depth < 3:
                    res = self.loop(f, g, blk, loops[blk], assum, count, store, run, mode, bytes_param, depth)
                    if res is not None:
                        for (a2, c2, s2, nxt) in res:
                            work.append((nxt, a2, c2, s2))
                        continue
                    raise Unsupported("unsupported loop shape in %s (bb%d)" % (f.id, blk))
                bb = b.blocks[blk]
                store = dict(store)
                for si, s in enumerate(bb.stmts):
                    if s.kind != "assign" or s.place[1]:
                        continue
                    l = s.place[0]
                    if l == 0:
                        store["_ret"] = (blk, si)
                        continue
                    if self.prog.types[b.locals[l]]["k"] == "int" and l in g.eb._mut_borrowed or \
                            (self.prog.types[b.locals[l]]["k"] == "int" and len([d for d in b.defs.get(l, []) if d[2] == "whole"]) > 1):
                        try:
                            store[l] = to_poly(g.eb.rvalue(s.rv), self.atomize(store))
                        except Exception:
                            pass
                t = bb.term
                if t.kind == "return":
                    rd = self.ret_def(g, store)
                    if mode == "len":
                        out.append((assum, self.ret_value(f, g, rd, store), store, "return"))
                    else:
                        if rd is not None and rd.kind == "err":
                            out.append((assum, "err", store, "return"))
                        else:
                            out.append((assum, count, store, "return"))
                    continue
                if t.kind in ("goto", "drop", "assert"):
                    work.append((t.targets[0], assum, count, store))
                    continue
                if t.kind == "unreachable" or t.kind in ("resume", "abort"):
                    continue
                if t.kind == "call":
                    c = t.callee
                    if t.target is None:
                        continue
                    add = Poly()
                    if mode == "encode":
                        add = self.call_bytes(f, g, t, is_bytes, store)
                    if t.dest is not None and not t.dest[1] and t.dest[0] == 0:
                        store = dict(store)
                        store["_ret"] = (blk, "term")
                    work.append((t.target, assum, count + add, store))
                    continue
                if t.kind == "switch":
                    de = g.eb.operand(t.discr)
                    edges = [e for e in g.edges if e.block == blk]
                    # error propagation: follow only the success side
                    if de[0] == "discr" and de[1][0] == "call" and de[1][4] == "std::ops::Try::branch":
                        for e in edges:
                            if e.cond[0] == "variant" and e.cond[2] == "Continue":
                                work.append((e.target, assum, count, store))
                        continue
                    for e in edges:
                        c = e.cond
                        if c[0] == "variant":
                            subj = self.canon(c[1])
                            key = ("v", subj)
                            cur = dict(assum)
                            if not c[3]:
                                work.append((e.target, assum, count, store))
                                continue
                            if key in cur and cur[key] != c[2]:
                                continue
                            cur[key] = c[2]
                            work.append((e.target, frozenset(cur.items()), count, store))
                        elif c[0] == "variant_other":
                            # unreachable default of an exhaustive match / error arm
                            leads = set(rd.kind for rd in e.leads)
                            if mode == "encode" and leads and leads <= {"err"}:
                                continue
                            work.append((e.target, assum, count, store))
                        else:
                            # data-dependent branch: both sides (no assumption)
                            leads = set(rd.kind for rd in e.leads)
                            if mode == "encode" and leads and leads <= {"err"}:
                                continue
                            if not e.leads and mode == "encode":
                                continue       # panic path
                            work.append((e.target, assum, count, store))
                    continue
                raise Unsupported("terminator %s in %s" % (t.kind, f.id))
            return out

        res = run(0, frozenset(), Poly(), {}, None, 0)
        for (assum, count, store, end) in res:
            if end == "return":
                results.append((assum, count))
        if not results:
            raise Unsupported("no path reaches a return in %s" % f.id)
        return results

    def ret_def(self, g, store):
        k = store.get("_ret")
        if k is None:
            return None
        for rd in g.retdefs:
            if (rd.block, rd.index) == k:
                return rd
        return None

    def ret_value(self, f, g, rd, store):
        """value returned on a path (mode=len): Some(poly) -> poly, None -> 'none'"""
        if rd is None:
            raise Unsupported("no return value definition on a path of %s" % f.id)
        e = rd.expr
        if rd.kind == "none":
            return "none"
        if rd.kind == "some" and rd.payload is not None:
            return to_poly(rd.payload, self.atomize(store))
        if rd.kind == "call":
            # tail call to another encoded_len
            name = e[1].split("::")[-1]
            if name in ("encoded_len", "encoded_len_with_param"):
                r = self.size_of_value(e, e[2][0])
                return r if isinstance(r, Poly) else Poly.atom(r)
            if name == "from_residual":
                return "none"
        if rd.kind == "val" and e[0] == "phi" and e[1] in store:
            return store[e[1]]
        raise Unsupported("return form %s in %s" % (fmt(e)[:80], f.id))

    # ------------------------------------------------------------------ calls that append bytes
    def call_bytes(self, f, g, t, is_bytes, store):
        c = t.callee
        name = c.name or ""
        args = t.args
        eb = g.eb
        at = self.atomize(store)
        if name == "push" and args and is_bytes(args[0]):
            return Poly.const(1)
        if name in ("extend_from_slice", "append", "extend") and len(args) == 2 and is_bytes(args[0]):
            x = eb.operand(args[1])
            return self.len_poly(f, g, x, at)
        if name in ("encode", "encode_with_param") and c.trait in ("codec::Encode", "codec::ParameterizedEncode") and args and is_bytes(args[-1]):
            ce = eb.call_expr(t)
            r = self.size_of_value(ce, ce[2][0])
            return r if isinstance(r, Poly) else Poly.atom(r)
        if name == "encode_fieldvec" and len(args) == 2 and is_bytes(args[1]):
            v = eb.operand(args[0])
            fty = self.prog.types[c.args[0]["t"]]["s"] if c.args and "t" in c.args[0] else "F"
            return Poly.atom(("len", self.canon(v))) * self.field_size(fty)
        if name == "encode_fixlen_items" and len(args) == 2 and is_bytes(args[0]):
            v = eb.operand(args[1])
            ety = self.prog.types[c.args[0]["t"]]["s"] if c.args and "t" in c.args[0] else "?"
            return Poly.atom(("len", self.canon(v))) * self.type_size(ety)
        m = re.match(r"encode_u(8|16|32)_items", name)
        if m and len(args) == 3 and is_bytes(args[0]):
            v = eb.operand(args[2])
            ety = self.prog.types[c.args[1]["t"]]["s"] if len(c.args) > 1 and "t" in c.args[1] else "?"
            return Poly.const(int(m.group(1)) // 8) + Poly.atom(("len", self.canon(v))) * self.type_size(ety)
        # any other call that receives `bytes` mutably is unsupported
        if any(a.kind in ("copy", "move") and is_bytes(a) for a in args):
            raise Unsupported("call %s receives the output buffer in %s" % (c.bestfull, f.id))
        return Poly()

    def field_size(self, ty):
        if ty in ("field::Field64",):
            return Poly.const(8)
        if ty == "field::Field128":
            return Poly.const(16)
        if ty == "field::FieldPrio2":
            return Poly.const(4)
        if ty == "field::field255::Field255":
            return Poly.const(32)
        return Poly.atom(("sym", norm_sym("<%s as field::FieldElement>::ENCODED_SIZE" % ty)))

    def type_size(self, ty):
        if ty in PRIM:
            return Poly.const(PRIM[ty])
        if "Field" in ty or re.match(r"^[A-Z]$", ty):
            return self.field_size(ty)
        raise Unsupported("item type %s" % ty)

    def len_poly(self, f, g, x, at):
        """length in bytes of a byte-slice-valued term"""
        x0 = x
        while isinstance(x0, tuple) and x0 and x0[0] in ("try", "cast"):
            x0 = x0[1]
        if x0[0] == "conv" or (x0[0] == "call" and x0[1].split("::")[-1] in ("from", "into")):
            full = x0[3] if x0[0] == "call" else x0[2]
            m = re.search(r"\[u8; ([^\]]+)\]", full or "")
            if m:
                sz = m.group(1)
                m2 = re.search(r"From<(field::[A-Za-z0-9_:]+)>", full or "")
                if "ENCODED_SIZE" in sz and m2:
                    c = self.prog.const_by_path.get("<%s as field::FieldElement>::ENCODED_SIZE" % m2.group(1))
                    if c is not None and c.get("vs"):
                        return Poly.const(int(c["vs"]))
                return sym_or_const(sz)
        x = self.canon(x)
        # &self.0[..] of an array field
        if x[0] == "call" and x[1].split("::")[-1] in ("index", "as_slice", "as_ref") and x[2]:
            rng = x[2][1] if len(x[2]) > 1 else None
            if rng is None or (rng[0] == "agg" and "RangeFull" in rng[1]) or (rng[0] in ("sym", "lit") and "RangeFull" in str(rng)):
                return self.len_poly(f, g, x[2][0], at)
        if x[0] == "call" and x[1].split("::")[-1] in ("to_be_bytes", "to_le_bytes"):
            m = re.search(r"<impl (u8|u16|u32|u64|u128)>", x[1])
            if m:
                return Poly.const(PRIM[m.group(1)])
        if x[0] == "call" and x[1].split("::")[-1] in ("from", "into") or x[0] == "conv":
            # <[u8; N]>::from(field element)
            full = x[3] if x[0] == "call" else x[2]
            m = re.search(r"\[u8; ([^\]]+)\]", full or "")
            if m:
                return sym_or_const(m.group(1))
        if x[0] in ("field", "param", "phi", "vfield"):
            ty = self.term_type(f, x)
            if ty is not None and ty["k"] == "array":
                if "lenv" in ty:
                    return Poly.const(ty["lenv"])
                return sym_or_const(ty["len"])
        return Poly.atom(("len", x))

    def term_type(self, f, e):
        prog = self.prog
        if e[0] == "param":
            return prog.types[prog.strip_refs(f.body.locals[e[2]])]
        if e[0] == "phi":
            return prog.types[prog.strip_refs(f.body.locals[e[1]])]
        if e[0] in ("field", "vfield"):
            bt = self.term_type(f, e[1])
            name = e[2] if e[0] == "field" else e[3]
            if bt is None:
                return None
            if bt["k"] == "adt":
                adt = prog.adt_by_path.get(bt["path"])
                if adt is None:
                    return None
                for v in adt["variants"]:
                    for fl in v["fields"]:
                        if fl["n"] == name:
                            ft = prog.types[prog.strip_refs(fl["t"])]
                            # substitute const generic names by the instantiation's arguments
                            return ft
            if bt["k"] == "tuple" and name.isdigit():
                return prog.types[prog.strip_refs(bt["ts"][int(name)])]
        return None

    # ------------------------------------------------------------------ loops
    def loop(self, f, g, h, blocks, assum, count, store, run, mode, bytes_param, depth):
        """summarise an iterator loop at header h: returns [(assum, count, store, exit_block)] or None"""
        b = f.body
        # the header region contains `next(&mut iter)` followed by a switch on its discriminant
        nxt = None
        for bi in sorted(blocks):
            t = b.blocks[bi].term
            if t.kind == "call" and t.callee.path == "std::iter::Iterator::next" and b.dominates(bi, bi):
                if all(b.dominates(bi, l) for (l, hh) in b.back_edges() if hh == h):
                    nxt = (bi, t)
                    break
        if nxt is None:
            return None
        bi, t = nxt
        sw = t.target
        edges = [e for e in g.edges if e.block == sw and e.cond[0] == "variant"]
        some = [e for e in edges if e.cond[2] == "Some"]
        none = [e for e in edges if e.cond[2] == "None"]
        if len(some) != 1 or len(none) != 1:
            return None
        it = g.eb.operand(t.args[0])
        src = g.eb.init_expr(it[1]) if it[0] == "phi" else it
        if src is None:
            return None
        item = ("vfield", g.eb.call_expr(t), "Some", "0")
        # body: from the Some target back to the header
        body = run(some[0].target, assum, Poly() if mode == "encode" else Poly(), dict(store), h, depth + 1)
        body = [x for x in body if x[3] == "stop"]
        if not body:
            return None
        # per-iteration effect
        if mode == "encode":
            deltas = set(x[1] for x in body)
            if len(deltas) != 1:
                raise Unsupported("loop body appends a path-dependent number of bytes in %s" % f.id)
            delta = next(iter(deltas))
            # `opt.iter().flatten()` / `opt.into_iter().flatten()` over an Option<collection>: nothing when None, the collection's
            # items when Some - a case split on the option, like the `match` that spells the same loop
            sc = strip_iter(src)
            if isinstance(sc, tuple) and sc[0] == "call" and sc[1].split("::")[-1] == "flatten" and sc[2]:
                inner = strip_iter(sc[2][0])
                ity = None
                try:
                    ity = self.term_type(f, inner)
                except Exception:
                    ity = None
                tys = ity if isinstance(ity, dict) else (self.prog.types[ity] if isinstance(ity, int) else None)
                if tys is not None and tys.get("k") == "adt" and tys.get("path") == "std::option::Option":
                    key = ("v", self.canon(inner))
                    out = []
                    cur = dict(assum)
                    if cur.get(key, "None") == "None":
                        c0 = dict(cur); c0[key] = "None"
                        out.append((frozenset(c0.items()), count, store, none[0].target))
                    if cur.get(key, "Some") == "Some":
                        c1 = dict(cur); c1[key] = "Some"
                        some_items = ("vfield", inner, "Some", "0")
                        out.append((frozenset(c1.items()), count + self.times(some_items, item, delta), store, none[0].target))
                    return out
            total = self.times(src, item, delta)
            return [(assum, count + total, store, none[0].target)]
        else:
            # integer accumulators updated in the body
            new_store = dict(store)
            allk = set()
            for x in body:
                allk |= set(x[2].keys())
            for l in allk:
                if l == "_ret":
                    continue
                vals = set(x[2].get(l, store.get(l)) for x in body)
                if len(vals) != 1:
                    raise Unsupported("loop body updates an accumulator path-dependently in %s" % f.id)
                v = next(iter(vals))
                base = store.get(l)
                if v is None or base is None or v == base:
                    continue
                delta = v - base
                new_store[l] = base + self.times(src, item, delta)
            return [(assum, count, new_store, none[0].target)]

    def times(self, src, item, delta):
        """sum of delta over the items of src"""
        src_c = strip_iter(src)
        n = Poly.atom(("len", self.canon(src_c)))
        # does delta mention the item?
        def ment(a):
            return any(x == item for x in walk(a)) if isinstance(a, tuple) else False
        if not any(ment(a) for a in delta.atoms()):
            return n * delta
        # opaque sum atom keyed by the source and the per-item expression with the item abstracted
        def absitem(a):
            if a == item:
                return ITEM
            if isinstance(a, tuple):
                return tuple(absitem(z) if isinstance(z, tuple) else z for z in a)
            return a
        keyed = tuple(sorted(((tuple(absitem(a) for a in k), v) for k, v in delta.m.items()), key=repr))
        return Poly.atom(("sum", self.canon(src_c), keyed))


def strip_iter(e):
    while isinstance(e, tuple) and e and e[0] == "call" and e[1].split("::")[-1] in ("iter", "into_iter", "iter_mut", "by_ref", "copied", "cloned") and e[2]:
        e = e[2][0]
    while isinstance(e, tuple) and e and e[0] in ("cast", "conv", "try"):
        e = e[1]
    return e


def mentions_self(a):
    if not isinstance(a, tuple):
        return False
    for x in walk(a) if a and isinstance(a[0], str) and a[0] not in ("fn", "sum") else []:
        if isinstance(x, tuple) and x[0] == "param":
            return True
    if a and a[0] in ("enc", "len", "sum"):
        return True
    if a and a[0] == "fn":
        return any(any(mentions_self(z) for z in p.atoms()) for p in a[2] if isinstance(p, Poly))
    return False


def norm_sym(s):
    s = s.split("::")[-1] if not s.startswith("<") else s
    # `<F as field::FieldElement>::ENCODED_SIZE` and `<<T as Flp>::Field as FieldElement>::ENCODED_SIZE` keep the type
    return s


def sym_or_const(s):
    s = s.strip()
    if s.isdigit():
        return Poly.const(int(s))
    if s.endswith("_usize") and s[:-6].isdigit():
        return Poly.const(int(s[:-6]))
    return Poly.atom(("sym", norm_sym(s)))


def instantiate(p, generic_ty, concrete_ty):
    """substitute the const-generic symbols of an impl's size polynomial by the concrete type's arguments
    (Seed<SEED_SIZE> -> Seed<16>)"""
    def args(s):
        if "<" not in s:
            return []
        inner = s[s.index("<") + 1:s.rindex(">")]
        out, depth, cur = [], 0, ""
        for ch in inner:
            if ch in "<([":
                depth += 1
            elif ch in ">)]":
                depth -= 1
            if ch == "," and depth == 0:
                out.append(cur.strip())
                cur = ""
            else:
                cur += ch
        if cur.strip():
            out.append(cur.strip())
        return out
    ga, ca = args(generic_ty), args(concrete_ty)
    if len(ga) != len(ca) or ga == ca:
        return p
    m = {}
    for g_, c_ in zip(ga, ca):
        if re.match(r"^[A-Z_][A-Z_0-9]*$", g_):
            m[("sym", g_)] = sym_or_const(c_)
    if not m:
        return p
    out = Poly()
    for k, v in p.m.items():
        term = Poly.const(v)
        for a in k:
            term = term * (m[a] if a in m else Poly.atom(a))
        out = out + term
    return out
