import sys,glob
sys.path.insert(0,'/verif/sa')
import ir, ppa
from expr import fmt
p=ir.load(sorted(glob.glob('/verif/.work/facts/*-K2.json'))[-1])
roots=[f for f in p.fns if f.name in ('decode','decode_with_param') and f.impl_trait in ('codec::Decode','codec::ParameterizedDecode') and not p.is_test_util(f)]
roots+= [f for f in p.fns if f.name in ('get_decoded','get_decoded_with_param') and f.in_trait and f.impl is None]
roots+= [f for f in p.fns if f.id.startswith('codec::decode_')]
scope=[f for f in p.reachable_fns(roots) if not p.is_test_util(f)]
P=ppa.PPA(p, scope, roots, adversarial_roots=False)
tot=0; bad=[]
for f in sorted(scope,key=lambda f:f.id):
    for o in ppa.enumerate_obligations(P,f):
        tot+=1
        ok,why=ppa.decide(P,o)
        if not ok: bad.append((o,why))
print(len(scope),'fns',tot,'obligations',len(bad),'open')
for o,why in bad: print(' -', o.fn.id[:80], o.kind, '@%s'%o.line, '::', why[:200])
