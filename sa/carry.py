"""Algebraic verification of word-level (carry-save) arithmetic from its straight-line term.

The term produced by sle.SL is translated into a polynomial over the rationals in the atoms
    x, y            the operands                    p           the modulus
    L_B[v]          low part  v mod B               W_B[z]      MU * z mod B   (the Montgomery quotient digit)
while every high part is *eliminated* through  H_B[v] = (v - L_B[v]) / B.  Alongside, an interval is computed for
every intermediate value from the concrete word size and modulus, and every machine addition, multiplication,
subtraction, shift and narrowing is required to stay inside its machine type (so integer semantics = machine
semantics).  One number-theoretic axiom is used, justified by the constant check MU = -p^-1 mod B (R-C09.K):
    L_B[z + L_B[q * W_B[z]]] = 0      for q = p or q = L_B[p]           (z + p*w = 0 mod B)
The goal for a Montgomery multiplier with quotient digits w_1..w_k is the polynomial identity
    x*y + (w_1 + B w_2 + ...) * p  =  B^k * (Z + 2^w * CC)
where (Z, CC) is the pair handed to the final conditional subtraction.  Nothing is executed."""
from fractions import Fraction
from poly import Poly


class Obligation(Exception):
    pass


class Carry:
    def __init__(self, w, p, split=False):
        self.w = w
        self.p = p
        self.split = split
        self.memo = {}
        self.keep = []
        self.watoms = []          # (atom, B, zpoly)
        self.notes = []
        self.nops = 0
        self.failed = []

    # ---- helpers
    def bits(self, ty):
        if "DoubleWord" in ty:
            return 2 * self.w
        if "HalfWord" in ty:
            return self.w // 2
        if ty in ("usize", "u64"):
            return 64
        if ty in ("u32",):
            return 32
        if ty == "bool":
            return 1
        return self.w

    def num(self, e):
        if not isinstance(e, tuple):
            return None
        t = e[0]
        if t == "lit":
            return e[1] if isinstance(e[1], int) else None
        if t == "symlit":
            try:
                return int(e[2])
            except (TypeError, ValueError):
                return None
        if t == "sym":
            s = e[1]
            if s.endswith("::BITS"):
                return self.w
            if s.endswith("::ONE"):
                return 1
            if s.endswith("::ZERO"):
                return 0
            return None
        if t in ("cast", "conv"):
            return self.num(e[1])
        if t == "as":
            return self.num(e[1])
        if t == "bin":
            a, b = self.num(e[2]), self.num(e[3])
            if a is None or b is None:
                return None
            op = e[1]
            if op == "Add":
                return a + b
            if op == "Sub":
                return a - b
            if op == "Mul":
                return a * b
            if op == "Div":
                return a // b if b else None
            if op == "Shl":
                return a << b if 0 <= b < 512 else None
            if op == "Shr":
                return a >> b if 0 <= b < 512 else None
        return None

    def need(self, cond, what, e=None):
        self.nops += 1
        if not cond:
            self.failed.append(what)

    def latom(self, B, vp, lo, hi, axiom=True):
        """(poly, lo, hi) of v mod B"""
        if hi < B:
            return vp, lo, hi
        # axiom: z + L_B[q*w] = 0 (mod B)
        if axiom:
            for (wa, WB, zp) in self.watoms:
                if WB != B:
                    continue
                pa = Poly.atom(("p",))
                for q, qv in ((pa, self.p), (self.latom(B, pa, self.p, self.p, axiom=False)[0], self.p % B)):
                    lw, _, _ = self.latom(B, q * Poly.atom(wa), 0, qv * (B - 1), axiom=False)
                    if vp == zp + lw:
                        self.notes.append("axiom z + p*w = 0 (mod 2^%d) used" % (B.bit_length() - 1))
                        return Poly(), 0, 0
        if lo == hi:
            return Poly.atom(("L", B, vp.key())), lo % B, lo % B
        return Poly.atom(("L", B, vp.key())), 0, B - 1

    def hatom(self, B, vp, lo, hi):
        lp, _, _ = self.latom(B, vp, lo, hi)
        if hi < B:
            return Poly(), 0, 0
        hp = (vp - lp) * Poly.const(Fraction(1, B))
        return hp, lo // B, hi // B

    # ---- translation
    def tr(self, e):
        k = id(e)
        if k in self.memo:
            return self.memo[k]
        r = self._tr(e)
        self.memo[k] = r
        self.keep.append(e)
        return r

    def _tr(self, e):
        n = self.num(e)
        if n is not None:
            return Poly.const(n), n, n
        t = e[0]
        if t == "param":
            return Poly.atom(("in", e[1])), 0, self.p - 1
        if t == "sym":
            if e[1].endswith("::PRIME"):
                return Poly.atom(("p",)), self.p, self.p
            raise Obligation("unknown constant %s" % e[1])
        if t in ("cast", "conv"):
            return self.tr(e[1])
        if t == "as":
            vp, lo, hi = self.tr(e[1])
            B = 1 << self.bits(e[3])
            if hi < B:
                return vp, lo, hi
            return self.latom(B, vp, lo, hi)
        if t == "field" and e[1][0] == "call" and e[1][1].split("::")[-1] == "overflowing_add":
            a, b = e[1][2][0], e[1][2][1]
            ap, alo, ahi = self.tr(a)
            bp, blo, bhi = self.tr(b)
            B = 1 << self.w
            self.need(ahi < B and bhi < B, "operand of overflowing_add exceeds the word")
            vp, lo, hi = ap + bp, alo + blo, ahi + bhi
            if e[2] == "0":
                return self.latom(B, vp, lo, hi)
            return self.hatom(B, vp, lo, hi)
        if t == "call" and e[1].split("::")[-1] == "wrapping_mul":
            mu, z = e[2][0], e[2][1]
            if not (mu[0] == "sym" and mu[1].endswith("::MU")):
                mu, z = z, mu                       # wrapping_mul is commutative
            if not (mu[0] == "sym" and mu[1].endswith("::MU")):
                raise Obligation("wrapping_mul without MU as an operand")
            B = 1 << (self.bits(z[3]) if z[0] == "as" else self.w)
            zp, zlo, zhi = self.tr(z)
            self.need(zhi < B, "the digit fed to MU * z exceeds the multiplier word")
            atom = ("W", B, zp.key())
            if not any(wa == atom for wa, _, _ in self.watoms):
                self.watoms.append((atom, B, zp))
            return Poly.atom(atom), 0, B - 1
        if t == "bin":
            op = e[1]
            ty = e[4] if len(e) > 4 else "W"
            M = 1 << self.bits(ty)
            nb = self.num(e[3])
            na = self.num(e[2])
            if op == "Shr" and nb is not None:
                vp, lo, hi = self.tr(e[2])
                return self.hatom(1 << nb, vp, lo, hi)
            if op == "BitAnd" and (nb is not None or na is not None):
                mask, other = (nb, e[2]) if nb is not None else (na, e[3])
                if mask & (mask + 1) != 0:
                    raise Obligation("mask %d is not 2^k - 1" % mask)
                vp, lo, hi = self.tr(other)
                return self.latom(mask + 1, vp, lo, hi)
            if op == "Shl" and nb is not None:
                vp, lo, hi = self.tr(e[2])
                self.need(hi << nb < M, "left shift overflows its %d-bit type" % self.bits(ty))
                return vp * Poly.const(1 << nb), lo << nb, hi << nb
            if op == "BitOr":
                for a, b in ((e[2], e[3]), (e[3], e[2])):
                    if isinstance(b, tuple) and b[0] == "bin" and b[1] == "Shl" and self.num(b[3]) is not None:
                        kk = self.num(b[3])
                        ap, alo, ahi = self.tr(a)
                        bp, blo, bhi = self.tr(b)
                        self.need(ahi < (1 << kk), "`a | (b << k)` with a >= 2^k is not a + b*2^k")
                        return ap + bp, alo + blo, ahi + bhi
                raise Obligation("unsupported BitOr")
            if op in ("Add", "Sub", "Mul"):
                ap, alo, ahi = self.tr(e[2])
                bp, blo, bhi = self.tr(e[3])
                if op == "Add":
                    vp, lo, hi = ap + bp, alo + blo, ahi + bhi
                elif op == "Mul":
                    vp, lo, hi = ap * bp, alo * blo, ahi * bhi
                else:
                    vp, lo, hi = ap - bp, alo - bhi, ahi - blo
                    self.need(lo >= 0, "subtraction may underflow")
                self.need(hi < M, "%s may overflow its %d-bit machine type (max %d bits)" % (op, self.bits(ty), hi.bit_length()))
                return vp, lo, hi
            raise Obligation("unsupported operator %s" % op)
        raise Obligation("unsupported term %s" % (t,))

    # ---- goals
    def montgomery_goal(self, Z, CC):
        """check x*y + m*p == R * (Z + 2^w * CC); returns (ok, detail)"""
        try:
            zp, zlo, zhi = self.tr(Z)
            cp, clo, chi = self.tr(CC)
        except Obligation as ex:
            return False, "cannot translate: %s" % ex
        x = Poly.atom(("in", "x"))
        y = Poly.atom(("in", "y"))
        p = Poly.atom(("p",))
        ws = list(self.watoms)
        # order the quotient digits: a digit whose z mentions another digit comes later
        def mentions(zp_, atom):
            return any(atom in mono for mono in zp_.m)
        ws.sort(key=lambda wa: sum(1 for other in self.watoms if other is not wa and mentions(wa[2], other[0])))
        if not ws:
            return False, "no Montgomery quotient digit (MU * z) found"
        B = ws[0][1]
        if any(wb != B for _, wb, _ in ws):
            return False, "quotient digits of different sizes"
        R = B ** len(ws)
        if R != 1 << self.w:
            return False, "the quotient digits cover %d bits, the word has %d" % (R.bit_length() - 1, self.w)
        m = Poly()
        for i, (wa, _, _) in enumerate(ws):
            m = m + Poly.atom(wa) * Poly.const(B ** i)
        goal = x * y + m * p - (zp + cp * Poly.const(1 << self.w)) * Poly.const(R)
        if goal.m:
            mons = sorted(goal.m.items(), key=lambda kv: repr(kv[0]))[:3]
            return False, "x*y + m*p - R*(Z + 2^w*CC) does not vanish; residual has %d monomials, e.g. %s" % (
                len(goal.m), [(short(k), str(v)) for k, v in mons])
        if self.failed:
            return False, "range obligations failed: %s" % sorted(set(self.failed))[:3]
        # V = (x*y + m*p)/R < 2p ?
        vmax = ((self.p - 1) ** 2 + (R - 1) * self.p) // R
        if not vmax < 2 * self.p:
            return False, "the reduced value can reach %d >= 2p: one conditional subtraction is not enough" % vmax
        if not (zhi < (1 << self.w) and chi <= 1):
            return False, "(Z, CC) do not fit (word, bit)"
        return True, "x*y + (%s)*p = 2^%d * (Z + 2^%d*CC) as polynomials; %d machine operations range-checked; (Z + 2^%d CC) <= %d < 2p" % (
            " + ".join("2^%d*w%d" % ((B ** i).bit_length() - 1, i + 1) for i in range(len(ws))), self.w, self.w, self.nops, self.w, vmax)


def short(mono):
    out = []
    for a in mono:
        if a and a[0] in ("L", "W"):
            out.append("%s_%d[..]" % (a[0], a[1].bit_length() - 1))
        else:
            out.append("".join(str(x) for x in a[1:]) or a[0])
    return "*".join(out) or "1"
