"""DEP — interprocedural may-depend analysis (explicit data flow) over MIR facts.

Flow-insensitive inside a function, field-sensitive through access paths (depth <= 3), with
aliasing through references, summaries for crate-local callees (class-hierarchy analysis for trait
calls, optionally narrowed by `bindings`), structural models for the std combinators and iterator
adapters that occur on the analysed paths, and closure bodies analysed at the call that receives
them.  Control dependence is deliberately not tracked.

Atoms:  ("p", local, path)   parameter (or a field path of it) of the function being summarised
        ("c", name)          named constant / const generic / associated constant
        ("rng",)             result of an OS randomness source
"""
import re
from collections import defaultdict

MAXDEPTH = 3
ITEM = "@item"


def trunc(path):
    return tuple(path[:MAXDEPTH])


def compat(p, q):
    n = min(len(p), len(q))
    return p[:n] == q[:n]


class Struct:
    """dependency structure of a value: path -> set(atoms).  Reading path p unions every entry whose
    path is a prefix of p or an extension of p."""
    __slots__ = ("m",)

    def __init__(self, m=None):
        self.m = m if m is not None else {}

    def read(self, p=()):
        out = set()
        for q, s in self.m.items():
            if compat(p, q):
                out |= s
        return out

    def sub(self, p):
        """structure of the sub-value at path p"""
        r = {}
        for q, s in self.m.items():
            if len(q) >= len(p):
                if q[:len(p)] == p:
                    r.setdefault(q[len(p):], set()).update(s)
            elif p[:len(q)] == q:
                r.setdefault((), set()).update(s)
        return Struct(r)

    def flat(self):
        out = set()
        for s in self.m.values():
            out |= s
        return out

    def add(self, p, atoms):
        p = trunc(p)
        if not atoms:
            return False
        cur = self.m.get(p)
        if cur is None:
            self.m[p] = set(atoms)
            return True
        n = len(cur)
        cur |= atoms
        return len(cur) != n

    def merge(self, other, prefix=()):
        ch = False
        for q, s in other.m.items():
            if self.add(prefix + q, s):
                ch = True
        return ch

    def copy(self):
        return Struct({k: set(v) for k, v in self.m.items()})

    def __repr__(self):
        return "Struct(%s)" % {k: sorted(map(str, v)) for k, v in self.m.items()}


class Summary:
    def __init__(self):
        self.ret = Struct()
        self.muts = {}      # param local -> Struct (post-state of what the &mut param points to)
        self.top = False


TOP_SUMMARY = None


def place_path(proj):
    """projection -> (n_leading_derefs handled by caller) list of path keys; index projections are
    dropped (array elements are merged unless a constant index key is given by the caller)"""
    keys = []
    i = 0
    proj = list(proj)
    while i < len(proj):
        pe = proj[i]
        if pe == "*":
            keys.append("*")
        elif pe[0] == "f":
            keys.append(pe[2] if pe[2] is not None else str(pe[1]))
        elif pe[0] == "dc":
            if i + 1 < len(proj) and proj[i + 1] != "*" and proj[i + 1][0] == "f":
                f = proj[i + 1]
                keys.append("%s.%s" % (pe[2] if pe[2] is not None else pe[1], f[2] if f[2] is not None else f[1]))
                i += 1
        elif pe[0] == "cix":
            keys.append("#%d" % pe[1] if not pe[2] else "#-%d" % pe[1])
        elif pe[0] == "ix":
            keys.append(("ix", pe[1]))
        i += 1
    return keys


RNG_SOURCES = re.compile(r"^(rand::rng|rand::random|getrandom::|rand::rngs::)")

IDENTITY_NAMES = {
    "deref", "deref_mut", "as_ref", "as_mut", "as_slice", "as_mut_slice", "borrow", "borrow_mut", "clone", "cloned",
    "copied", "to_vec", "to_owned", "must_use", "into_iter", "iter", "iter_mut", "as_deref", "as_deref_mut", "by_ref",
    "into_boxed_slice", "into_vec", "as_bytes", "into", "from", "to_be_bytes", "to_le_bytes", "as_array", "try_into",
    "try_from", "into_inner", "get_ref", "take", "skip", "rev", "step_by", "peekable", "fuse", "collect", "unwrap_or_default",
    "from_bytes", "into_bytes", "boxed", "new_unchecked", "from_iter", "chunks", "chunks_exact", "as_chunks", "flatten",
}
ITER_MAKERS = {"iter", "iter_mut", "into_iter", "chunks", "chunks_exact", "chunks_mut", "drain", "windows"}
UNWRAPS = {"unwrap", "expect", "unwrap_unchecked", "unwrap_or_default"}


class Dep:
    def __init__(self, prog, bindings=None, trace=False):
        self.prog = prog
        self.bindings = bindings or {}      # trait path -> self-type ADT path to which CHA is narrowed
        self.summaries = {}
        self.in_progress = set()
        self.fa = {}
        self.trace = trace

    # ------------------------------------------------------------------ resolution
    def targets(self, callee):
        prog = self.prog
        ts = prog.resolve_call(callee)
        if callee.trait is not None and callee.rpath is None and callee.trait in self.bindings:
            want = self.bindings[callee.trait]
            narrowed = [t for t in ts if t.self_adt is not None and (t.self_adt == want or t.self_adt.endswith("::" + want))]
            dflt = [t for t in ts if t.impl is None]
            if narrowed:
                return narrowed
            if dflt:
                return dflt
        # a default method body plus overriding impls: if impls exist that override, both are possible
        return ts

    def summary(self, f):
        if f.did in self.summaries:
            return self.summaries[f.did]
        if f.did in self.in_progress:
            return None
        self.in_progress.add(f.did)
        try:
            fa = FnAnalysis(self, f)
            fa.run()
            self.fa[f.did] = fa
            s = fa.summary()
        finally:
            self.in_progress.discard(f.did)
        self.summaries[f.did] = s
        return s

    def analysis(self, f):
        self.summary(f)
        return self.fa.get(f.did)


class FnAnalysis:
    def __init__(self, dep, f):
        self.dep = dep
        self.prog = dep.prog
        self.f = f
        self.body = f.body
        b = self.body
        self.D = defaultdict(Struct)           # local -> Struct
        self.alias = defaultdict(set)          # local -> set of (local, path)
        self.closures = {}                     # local -> (did, [operand])
        self.consts = {}                       # local -> int value (for constant indices)
        self.is_param = set(range(1, b.argc + 1))
        self.changed = True

    # ---------------------------------------------------------------- helpers
    def ty(self, l):
        return self.prog.types[self.body.locals[l]]

    def is_mut_ref_local(self, l):
        t = self.ty(l)
        return t["k"] in ("ref", "ptr") and t.get("mut")

    def is_ref_local(self, l):
        return self.ty(l)["k"] in ("ref", "ptr")

    def resolve_targets(self, l, keys, for_write=False):
        """abstract locations denoted by place (l, keys): list of (local, path)"""
        targets = [(l, ())]
        extra = set()
        for k in keys:
            if k == "*":
                nt = []
                for (b, p) in targets:
                    als = self.alias.get(b)
                    if als:
                        # one level of indirection; prefer the ultimate referents over borrow carriers
                        if for_write:
                            leaves = [x for x in als if not self.alias.get(x[0])]
                            nt.extend(leaves if leaves else als)
                        else:
                            nt.extend(als)
                    else:
                        nt.append((b, p))
                targets = nt
            elif isinstance(k, tuple) and k[0] == "ix":
                il = k[1]
                if il in self.consts:
                    targets = [(b, trunc(p + ("#%d" % self.consts[il],))) for (b, p) in targets]
                else:
                    extra |= self.D[il].flat() if il in self.D else set()
                    if il in self.is_param:
                        extra.add(("p", il, ()))
            else:
                targets = [(b, trunc(p + (k,))) for (b, p) in targets]
        # cap
        seen = []
        for t in targets:
            if t not in seen:
                seen.append(t)
        return seen[:64], extra

    def read_loc(self, b, p):
        s = self.D[b].read(p) if b in self.D else set()
        if b in self.is_param:
            s = set(s)
            s.add(("p", b, tuple(k for k in p if not (isinstance(k, str) and k.startswith("#")))))
        return s

    def struct_loc(self, b, p):
        st = self.D[b].sub(p) if b in self.D else Struct()
        if b in self.is_param:
            st = st.copy()
            st.add((), {("p", b, tuple(k for k in p if not (isinstance(k, str) and k.startswith("#"))))})
            # keep symbolic sub-paths resolvable: reading st at q gives ("p", b, p) — coarser but sound
        return st

    def read_place_struct(self, place):
        l, proj = place
        keys = place_path(proj)
        targets, extra = self.resolve_targets(l, keys)
        out = Struct()
        for (b, p) in targets:
            st = self.struct_loc(b, p)
            # also whatever the reference local itself carries (e.g. iterator wrappers)
            out.merge(st)
        if extra:
            out.add((), extra)
        return out

    def operand_struct(self, op):
        if op.kind in ("copy", "move"):
            return self.read_place_struct(op.place)
        if op.kind == "const":
            s = Struct()
            if op.sym is not None and not op.sym.startswith("{") and "promoted" not in op.sym:
                s.add((), {("c", op.sym)})
            elif op.symdef is not None and "promoted" not in (op.symdef or ""):
                s.add((), {("c", op.symdef)})
            return s
        return Struct()

    def operand_aliases(self, op):
        """abstract locations an operand may point to (for reference-typed operands)"""
        if op.kind not in ("copy", "move"):
            return set()
        l, proj = op.place
        if not proj:
            als = set(self.alias.get(l, ()))
            return als
        keys = place_path(proj)
        targets, _ = self.resolve_targets(l, keys)
        out = set()
        for (b, p) in targets:
            # aliasing is field-insensitive: a reference stored anywhere inside b may be the one read
            out |= self.alias.get(b, set())
        return out

    def alias_closure(self, als):
        seen = set()
        work = list(als)
        while work:
            x = work.pop()
            if x in seen:
                continue
            seen.add(x)
            for y in self.alias.get(x[0], ()):
                if y not in seen:
                    work.append(y)
        return seen

    def args_aliases(self, args):
        als = set()
        for a in args:
            als |= self.operand_aliases(a)
        return self.alias_closure(als)

    def write_targets(self, targets, st):
        ch = False
        for (b, p) in targets:
            if self.D[b].merge(st, p):
                ch = True
        if ch:
            self.changed = True

    def can_hold_borrow(self, l):
        ty = self.ty(l)
        s = ty["s"]
        return ty["k"] in ("ref", "ptr") or "&" in s or "'" in s or "*const" in s or "*mut" in s or ty["k"] == "closure"

    def write_place(self, place, st, aliases=None):
        l, proj = place
        if aliases and not proj and not self.can_hold_borrow(l):
            aliases = None
        keys = place_path(proj)
        targets, _ = self.resolve_targets(l, keys, for_write=True)
        self.write_targets(targets, st)
        if aliases:
            for (b, p) in targets:
                if p == ():
                    n = len(self.alias[b])
                    self.alias[b] |= aliases
                    if len(self.alias[b]) != n:
                        self.changed = True

    # ---------------------------------------------------------------- transfer
    def run(self):
        b = self.body
        # constants for index keys
        for bi, si, s in b.iter_stmts():
            if s.kind == "assign" and not s.place[1] and s.rv.kind == "use" and s.rv.ops[0].kind == "const" \
                    and isinstance(s.rv.ops[0].value, int) and len(b.defs.get(s.place[0], [])) == 1:
                self.consts[s.place[0]] = s.rv.ops[0].value
        it = 0
        while self.changed and it < 60:
            self.changed = False
            it += 1
            for bi in sorted(b.reachable):
                blk = b.blocks[bi]
                for s in blk.stmts:
                    if s.kind == "assign":
                        self.assign(s)
                t = blk.term
                if t.kind == "call":
                    self.call(t)

    def assign(self, s):
        rv = s.rv
        k = rv.kind
        if k == "use":
            op = rv.ops[0]
            st = self.operand_struct(op)
            self.write_place(s.place, st, self.operand_aliases(op))
            if op.kind in ("copy", "move") and not op.place[1] and op.place[0] in self.closures and not s.place[1]:
                self.closures[s.place[0]] = self.closures[op.place[0]]
        elif k in ("ref", "rawptr"):
            l, proj = rv.place
            keys = place_path(proj)
            targets, extra = self.resolve_targets(l, keys)
            # the reference carries the value structure as well (so that by-value reads through
            # copies of the reference see it) and aliases the locations
            st = Struct()
            for (bb, p) in targets:
                st.merge(self.struct_loc(bb, p))
            if extra:
                st.add((), extra)
            self.write_place(s.place, st, set(targets))
            if not proj and l in self.closures and not s.place[1]:
                self.closures[s.place[0]] = self.closures[l]
        elif k in ("cast", "un", "repeat"):
            op = rv.ops[0]
            st = self.operand_struct(op)
            if k == "cast" and rv.cast_kind in ("PointerCoercion", "PtrToPtr", "Transmute"):
                als = self.operand_aliases(op)
                if not als and op.kind in ("copy", "move") and not s.place[1] and self.ty(s.place[0])["k"] in ("ref", "ptr"):
                    # a raw pointer manufactured from an owning value (Box internals in `vec!`): it
                    # points into that value
                    als = {(op.place[0], ())}
                self.write_place(s.place, st, als)
            elif k == "repeat":
                self.write_place(s.place, Struct({(): st.flat()}))
            else:
                self.write_place(s.place, Struct({(): st.flat()}))
        elif k == "bin":
            a = self.operand_struct(rv.ops[0]).flat() | self.operand_struct(rv.ops[1]).flat()
            self.write_place(s.place, Struct({(): a}))
        elif k == "discr":
            # the discriminant of a value depends on the value (variant choice is data)
            self.write_place(s.place, Struct({(): self.read_place_struct(rv.place).read(())}))
        elif k == "agg":
            if rv.agg == "closure":
                if not s.place[1]:
                    self.closures[s.place[0]] = (rv.did, list(rv.ops))
                st = Struct()
                als = set()
                for i, op in enumerate(rv.ops):
                    st.merge(self.operand_struct(op), (str(i),))
                    als |= self.operand_aliases(op)
                self.write_place(s.place, st, als)
                return
            st = Struct()
            als = set()
            for i, op in enumerate(rv.ops):
                if rv.agg == "adt":
                    fname = rv.fields[i] if rv.fields and i < len(rv.fields) else str(i)
                    adt = self.prog.adt_by_path.get(rv.path)
                    is_enum = (adt is not None and adt["k"] == "Enum") or rv.path in ("std::option::Option", "std::result::Result", "std::ops::ControlFlow")
                    key = "%s.%s" % (rv.vname, fname) if is_enum else fname
                elif rv.agg == "array":
                    key = "#%d" % i
                else:
                    key = str(i)
                st.merge(self.operand_struct(op), (key,))
                als |= self.operand_aliases(op)
            if not rv.ops:
                st.add((), set())
            self.write_place(s.place, st, als)
        else:
            pass

    # ---------------------------------------------------------------- calls
    def call(self, t):
        c = t.callee
        args = t.args
        if c.indirect is not None:
            self.default_call(t, [self.operand_struct(a) for a in args])
            return
        name = c.name or ""
        path = c.path or ""
        argst = [self.operand_struct(a) for a in args]
        if self.model(t, name, path, argst):
            return
        targets = self.dep.targets(c)
        applied = False
        if targets:
            ret = Struct()
            for g in targets:
                sm = self.dep.summary(g)
                if sm is None:
                    # recursion: fall back to the default for this target
                    self.default_call(t, argst)
                    applied = True
                    continue
                applied = True
                self.apply_summary(t, g, sm, argst)
            # closures handed to local callees may be invoked there
            self.invoke_closure_args(t, argst, into_dest=True)
            return
        self.default_call(t, argst)
        self.invoke_closure_args(t, argst, into_dest=True)

    def subst_atoms(self, atoms, argst, callee_fn):
        out = set()
        for a in atoms:
            if a[0] == "p":
                j = a[1] - 1
                if j < len(argst):
                    out |= argst[j].read(a[2])
            else:
                out.add(a)
        return out

    def apply_summary(self, t, g, sm, argst):
        st = Struct()
        for q, atoms in sm.ret.m.items():
            st.add(q, self.subst_atoms(atoms, argst, g))
        als = self.args_aliases(t.args)
        self.write_place(t.dest, st, als)
        for pj, pst in sm.muts.items():
            j = pj - 1
            if j >= len(t.args):
                continue
            a = t.args[j]
            wst = Struct()
            for q, atoms in pst.m.items():
                wst.add(q, self.subst_atoms(atoms, argst, g))
            self.write_through(a, wst)

    def returns_borrow(self, t):
        l, proj = t.dest
        ty = self.ty(l)
        s = ty["s"]
        return ty["k"] in ("ref", "ptr") or "&" in s or "'" in s or "Iter" in s or "Zip" in s or "Chunks" in s or "Map<" in s or True

    def write_through(self, arg, st):
        """write st into whatever a (reference) argument points to"""
        if arg.kind not in ("copy", "move"):
            return
        als = self.operand_aliases(arg)
        l, proj = arg.place
        targets = set(als)
        if not targets:
            keys = place_path(proj)
            tg, _ = self.resolve_targets(l, keys)
            targets = set(tg)
        else:
            # the reference local itself also carries the structure
            keys = place_path(proj)
            tg, _ = self.resolve_targets(l, keys)
            targets |= set(tg)
        # transitive: targets that are themselves borrow-carrying locals (iterators over other locals)
        seen = set()
        work = list(targets)
        while work:
            x = work.pop()
            if x in seen:
                continue
            seen.add(x)
            if x[1] == ():
                for y in self.alias.get(x[0], ()):
                    if y not in seen:
                        work.append(y)
        leaves = [x for x in seen if not self.alias.get(x[0])]
        self.write_targets((leaves if leaves else list(seen))[:128], st)

    def default_call(self, t, argst):
        allatoms = set()
        for st in argst:
            allatoms |= st.flat()
        c = t.callee
        p = (c.rpath or c.path or "") if c.indirect is None else ""
        if RNG_SOURCES.search(p):
            allatoms = allatoms | {("rng",)}
        als = self.args_aliases(t.args)
        self.write_place(t.dest, Struct({(): allatoms}), als)
        for a in t.args:
            if a.kind in ("copy", "move") and self.arg_is_mut_ref(a):
                self.write_through(a, Struct({(): allatoms}))

    def arg_is_mut_ref(self, a):
        l, proj = a.place
        if not proj:
            return self.is_mut_ref_local(l)
        # field of something: be conservative when the field type is a &mut
        last = proj[-1]
        if isinstance(last, tuple) and last[0] == "f" and len(last) > 3 and last[3] is not None:
            ft = self.prog.types[last[3]]
            return ft["k"] in ("ref", "ptr") and ft.get("mut")
        return False

    def closure_of(self, a):
        if a.kind in ("copy", "move") and not a.place[1]:
            return self.closures.get(a.place[0])
        return None

    def invoke_closure(self, cl, call_args_struct, dest=None, dest_prefix=()):
        """apply closure summary: cl = (did, upvar operands); call_args_struct: list of Struct for the
        closure's own parameters (positional, starting at local 2)"""
        did, ups = cl
        g = self.prog.by_did.get(did)
        if g is None:
            return Struct()
        sm = self.dep.summary(g)
        upst = [self.operand_struct(u) for u in ups]

        def subst(atoms):
            out = set()
            for a in atoms:
                if a[0] == "p":
                    if a[1] == 1:
                        # environment: path[0] is the upvar index
                        if a[2]:
                            k = a[2][0]
                            try:
                                i = int(k)
                            except (TypeError, ValueError):
                                i = None
                            if i is not None and i < len(upst):
                                out |= upst[i].read(tuple(a[2][1:]))
                                continue
                        for u in upst:
                            out |= u.flat()
                    else:
                        j = a[1] - 2
                        if j < len(call_args_struct):
                            out |= call_args_struct[j].read(a[2])
                        else:
                            for s in call_args_struct:
                                out |= s.flat()
                else:
                    out.add(a)
            return out
        if sm is None:
            flat = set()
            for u in upst:
                flat |= u.flat()
            for s in call_args_struct:
                flat |= s.flat()
            ret = Struct({(): flat})
            for u in ups:
                self.write_through(u, Struct({(): flat}))
            return ret
        ret = Struct()
        for q, atoms in sm.ret.m.items():
            ret.add(q, subst(atoms))
        # writes through captured references: summary.muts[1] paths start with the upvar index
        m1 = sm.muts.get(1)
        if m1 is not None:
            for q, atoms in m1.m.items():
                if not q:
                    continue
                try:
                    i = int(q[0])
                except (TypeError, ValueError):
                    continue
                if i < len(ups):
                    self.write_through(ups[i], Struct({tuple(q[1:]): subst(atoms)}))
        # writes through &mut parameters of the closure are ignored here (arguments are temporaries)
        return ret

    def invoke_closure_args(self, t, argst, into_dest=False):
        for i, a in enumerate(t.args):
            cl = self.closure_of(a)
            if cl is None:
                continue
            others = [s for j, s in enumerate(argst) if j != i]
            flat = set()
            for s in others:
                flat |= s.flat()
            ret = self.invoke_closure(cl, [Struct({(): flat})] * 4)
            if into_dest:
                self.write_place(t.dest, Struct({(): ret.flat()}))

    # ---------------------------------------------------------------- models
    def model(self, t, name, path, argst):
        """structural models of std combinators; return True if handled"""
        c = t.callee
        full = c.rpath or c.path or ""
        n = len(argst)
        als = self.args_aliases(t.args)
        is_std = not (c.did is not None or c.rdid is not None)
        if not is_std:
            return False

        def out(st, aliases=als):
            self.write_place(t.dest, st, aliases)
            return True

        if path == "std::ops::Try::branch" and n == 1:
            st = Struct()
            a = argst[0]
            st.merge(a.sub(("Ok.0",)), ("Continue.0",))
            st.merge(a.sub(("Some.0",)), ("Continue.0",))
            st.merge(a.sub(("Err.0",)), ("Break.0",))
            # unknown structure (flat) goes everywhere
            base = a.m.get(())
            if base:
                st.add((), base)
            return out(st)
        if path == "std::ops::FromResidual::from_residual" and n == 1:
            return out(Struct({("Err.0",): argst[0].flat()}))
        if "Option" in full or "Result" in full:
            if name in UNWRAPS or name in ("unwrap_or", "unwrap_or_else") and n >= 1:
                st = Struct()
                a = argst[0]
                st.merge(a.sub(("Some.0",)))
                st.merge(a.sub(("Ok.0",)))
                base = a.m.get(())
                if base:
                    st.add((), base)
                for extra in argst[1:]:
                    st.add((), extra.flat())
                if name == "unwrap_or_else":
                    self.invoke_closure_args(t, argst, into_dest=False)
                return out(st)
            if name in ("as_ref", "as_mut", "as_deref", "as_deref_mut", "copied", "cloned", "take", "as_slice"):
                return out(argst[0].copy())
            if name in ("map_err",) and n == 2:
                st = Struct()
                st.merge(argst[0].sub(("Ok.0",)), ("Ok.0",))
                base = argst[0].m.get(())
                if base:
                    st.add((), base)
                st.add(("Err.0",), argst[0].sub(("Err.0",)).flat() | argst[1].flat())
                cl = self.closure_of(t.args[1])
                if cl is not None:
                    r = self.invoke_closure(cl, [argst[0].sub(("Err.0",))])
                    st.add(("Err.0",), r.flat())
                return out(st)
            if name in ("ok_or", "ok_or_else") and n == 2:
                st = Struct()
                st.merge(argst[0].sub(("Some.0",)), ("Ok.0",))
                base = argst[0].m.get(())
                if base:
                    st.add((), base)
                st.add(("Err.0",), argst[1].flat())
                return out(st)
            if name in ("ok",) and n == 1:
                st = Struct()
                st.merge(argst[0].sub(("Ok.0",)), ("Some.0",))
                base = argst[0].m.get(())
                if base:
                    st.add((), base)
                return out(st)
            if name in ("map", "and_then", "map_or", "map_or_else", "is_some_and") and n >= 2:
                a = argst[0]
                payload = Struct()
                payload.merge(a.sub(("Some.0",)))
                payload.merge(a.sub(("Ok.0",)))
                base = a.m.get(())
                if base:
                    payload.add((), base)
                cl = None
                for x in t.args[1:]:
                    cl = self.closure_of(x) or cl
                st = Struct()
                if base:
                    st.add((), base)
                if cl is not None:
                    r = self.invoke_closure(cl, [payload])
                    if name == "map":
                        key = "Some.0" if "Option" in full else "Ok.0"
                        st.merge(r, (key,))
                        if "Result" in full:
                            st.merge(a.sub(("Err.0",)), ("Err.0",))
                    else:
                        st.merge(r)
                else:
                    fl = set()
                    for s in argst:
                        fl |= s.flat()
                    st.add((), fl)
                for k, extra in enumerate(argst[1:]):
                    if self.closure_of(t.args[1 + k]) is None:
                        st.add((), extra.flat())
                return out(st)
            if name == "transpose" and n == 1:
                a = argst[0]
                st = Struct()
                inner = a.sub(("Some.0",))
                st.merge(inner.sub(("Ok.0",)), ("Ok.0", "Some.0"))
                st.merge(inner.sub(("Err.0",)), ("Err.0",))
                base = a.m.get(())
                if base:
                    st.add((), base)
                ib = inner.m.get(())
                if ib:
                    st.add((), ib)
                return out(st)
            if name in ("is_some", "is_none", "is_ok", "is_err"):
                return out(Struct({(): argst[0].read(())}))
        # iterator protocol
        if name in ITER_MAKERS and n >= 1 and ("slice" in full or "Vec" in full or "IntoIterator" in full or "array" in full or "Option" in full):
            st = Struct()
            a = argst[0]
            # already an iterator (into_iter on an iterator is the identity)
            if any(q and q[0] == ITEM for q in a.m):
                st = a.copy()
            else:
                st.merge(a, (ITEM,))
                # Option::iter yields the payload
                st.merge(a.sub(("Some.0",)), (ITEM,))
            for extra in argst[1:]:
                st.add((), extra.flat())
            return out(st)
        if path == "std::iter::Iterator::zip" and n == 2:
            st = Struct()
            a, b2 = argst
            ai = a.sub((ITEM,)) if any(q and q[0] == ITEM for q in a.m) else a
            bi = b2.sub((ITEM,)) if any(q and q[0] == ITEM for q in b2.m) else b2
            st.merge(ai, (ITEM, "0"))
            st.merge(bi, (ITEM, "1"))
            ab = a.m.get(())
            return out(st)
        if path == "std::iter::Iterator::enumerate" and n == 1:
            st = Struct()
            a = argst[0]
            ai = a.sub((ITEM,)) if any(q and q[0] == ITEM for q in a.m) else a
            st.merge(ai, (ITEM, "1"))
            return out(st)
        if path == "std::iter::Iterator::next" and n == 1:
            a = argst[0]
            st = Struct()
            if any(q and q[0] == ITEM for q in a.m):
                st.merge(a.sub((ITEM,)), ("Some.0",))
                base = a.m.get(())
                if base:
                    st.add((), base)
            else:
                st.add(("Some.0",), a.flat())
            return out(st)
        if path in ("std::iter::Iterator::take", "std::iter::Iterator::skip", "std::iter::Iterator::rev",
                    "std::iter::Iterator::step_by", "std::iter::Iterator::by_ref", "std::iter::Iterator::copied",
                    "std::iter::Iterator::cloned", "std::iter::Iterator::peekable", "std::iter::Iterator::fuse",
                    "std::iter::IntoIterator::into_iter") and n >= 1:
            st = argst[0].copy()
            for extra in argst[1:]:
                st.add((), extra.flat())
            return out(st)
        if path == "std::iter::Iterator::chain" and n == 2:
            st = argst[0].copy()
            b2 = argst[1]
            if any(q and q[0] == ITEM for q in b2.m):
                st.merge(b2)
            else:
                st.merge(b2, (ITEM,))
            return out(st)
        if path == "std::iter::once" and n == 1:
            st = Struct()
            st.merge(argst[0], (ITEM,))
            return out(st)
        if path in ("std::iter::Iterator::map", "std::iter::Iterator::flat_map", "std::iter::Iterator::filter_map",
                    "std::iter::Iterator::filter", "std::iter::Iterator::for_each", "std::iter::Iterator::all",
                    "std::iter::Iterator::any", "std::iter::Iterator::fold", "std::iter::Iterator::min_by_key",
                    "std::iter::repeat_with", "std::iter::Iterator::try_for_each", "std::iter::Iterator::position",
                    "std::iter::Iterator::find", "std::iter::Iterator::sum", "std::iter::Iterator::count") :
            a = argst[0] if argst else Struct()
            item = a.sub((ITEM,)) if any(q and q[0] == ITEM for q in a.m) else a
            cl = None
            for x in t.args:
                cl = self.closure_of(x) or cl
            st = Struct()
            if cl is not None:
                if name == "fold" and n == 3:
                    # closure(acc, item): acc depends on init and on previous results
                    r = self.invoke_closure(cl, [Struct({(): argst[1].flat()}), item])
                    r2 = self.invoke_closure(cl, [Struct({(): r.flat() | argst[1].flat()}), item])
                    st.add((), r.flat() | r2.flat() | argst[1].flat())
                elif name == "repeat_with":
                    r = self.invoke_closure(cl, [])
                    st.merge(r, (ITEM,))
                else:
                    r = self.invoke_closure(cl, [item, item])
                    if name in ("map", "flat_map", "filter_map"):
                        st.merge(r, (ITEM,))
                    elif name == "filter":
                        st = a.copy()
                    else:
                        st.add((), r.flat() | a.flat())
            else:
                fl = set()
                for s in argst:
                    fl |= s.flat()
                if name in ("map",):
                    st.add((ITEM,), fl)
                else:
                    st.add((), fl)
            return out(st)
        if name == "collect" and n == 1 or (name in ("to_vec", "to_owned", "into_vec", "into_boxed_slice") and n == 1):
            a = argst[0]
            st = Struct()
            if any(q and q[0] == ITEM for q in a.m):
                # collecting Results: Result<Vec<_>, E>
                item = a.sub((ITEM,))
                dty = self.ty(t.dest[0])["s"] if not t.dest[1] else ""
                if "Result<" in dty and dty.startswith("std::result::Result"):
                    st.merge(item.sub(("Ok.0",)), ("Ok.0",))
                    st.add(("Err.0",), item.sub(("Err.0",)).flat())
                    base = item.m.get(())
                    if base:
                        st.add((), base)
                else:
                    st.merge(item)
                base = a.m.get(())
                if base:
                    st.add((), base)
            else:
                st = a.copy()
            return out(st)
        if name in ("push", "push_back", "extend", "extend_from_slice", "append", "insert", "copy_from_slice",
                    "clone_from_slice", "fill", "resize") and n >= 2 and ("Vec" in full or "slice" in full or "VecDeque" in full or "Extend" in full):
            vals = set()
            for s in argst[1:]:
                a = s
                if any(q and q[0] == ITEM for q in a.m):
                    vals |= a.sub((ITEM,)).flat()
                vals |= a.flat()
            self.write_through(t.args[0], Struct({(): vals}))
            self.write_place(t.dest, Struct())
            return True
        if name in ("first", "last", "get", "get_mut", "first_mut", "last_mut", "split_first", "split_last") and n >= 1 and "slice" in full:
            a = argst[0]
            st = Struct()
            if name.startswith("first") and any(q and q[0] == "#0" for q in a.m):
                st.merge(a.sub(("#0",)), ("Some.0",))
                base = a.m.get(())
                if base:
                    st.add((), base)
            else:
                st.add(("Some.0",), a.flat())
            for extra in argst[1:]:
                st.add((), extra.flat())
            return out(st)
        if name in ("len", "is_empty", "capacity") and n == 1:
            # the length of a container is data derived from it
            return out(Struct({(): argst[0].flat()}), aliases=set())
        if name in ("with_capacity", "new") and ("Vec" in full or "String" in full):
            st = Struct()
            for s in argst:
                st.add((), s.flat())
            return out(st, aliases=set())
        if name in IDENTITY_NAMES and n >= 1 and name not in ("take", "skip"):
            st = argst[0].copy()
            for extra in argst[1:]:
                st.add((), extra.flat())
            return out(st)
        if path in ("std::ops::Index::index", "std::ops::IndexMut::index_mut") and n == 2:
            a = argst[0]
            st = Struct()
            # constant index into an array literal keeps the element
            ia = t.args[1]
            idx = None
            if ia.kind == "const" and isinstance(ia.value, int):
                idx = ia.value
            elif ia.kind in ("copy", "move") and not ia.place[1] and ia.place[0] in self.consts:
                idx = self.consts[ia.place[0]]
            if idx is not None and any(q and q[0] == "#%d" % idx for q in a.m):
                st.merge(a.sub(("#%d" % idx,)))
                base = a.m.get(())
                if base:
                    st.add((), base)
            else:
                st.add((), a.flat() | argst[1].flat())
            return out(st)
        return False

    # ---------------------------------------------------------------- results
    def summary(self):
        sm = Summary()
        b = self.body
        if 0 in self.D:
            sm.ret = self.D[0].copy()
        for p in range(1, b.argc + 1):
            if self.ty(p)["k"] in ("ref", "ptr") and self.ty(p).get("mut") or (self.f.kind == "Closure" and p == 1):
                if p in self.D and self.D[p].m:
                    sm.muts[p] = self.D[p].copy()
        return sm

    # queries
    def operand_deps(self, op, path=()):
        return self.operand_struct(op).read(path)

    def local_deps(self, l, path=()):
        return self.read_place_struct((l, ())).read(path)


def has_param(atoms, idx):
    return any(a[0] == "p" and a[1] == idx for a in atoms)


def has_const(atoms, suffix):
    return any(a[0] == "c" and (a[1] == suffix or a[1].endswith("::" + suffix) or a[1].endswith(suffix)) for a in atoms)


def has_field(atoms, idx, field):
    """depends on param idx as a whole or on its field `field`"""
    for a in atoms:
        if a[0] == "p" and a[1] == idx:
            if not a[2] or a[2][0] == field or a[2][0] == "*":
                return True
    return False
