"""SYM core: polynomial normal forms over expression terms.

A term built from Add/Sub/Mul/Neg, integer literals and opaque atoms is normalised to a polynomial
{monomial: coefficient} where a monomial is a sorted tuple of atoms.  Atoms are arbitrary terms
(after `canon`), so that uninterpreted functions such as npo2(1 + calls) take part as atoms whose
arguments are themselves normalised.  Equality of normal forms is syntactic: it can fail to prove
a true identity but cannot accept a false one (modulo the stated algebraic laws of + and *).
"""
from fractions import Fraction


def is_lit(e):
    return isinstance(e, tuple) and e and e[0] in ("lit", "symlit") and isinstance(e[1 if e[0] == "lit" else 2], int)


def lit_val(e):
    return e[1] if e[0] == "lit" else e[2]


class Poly:
    __slots__ = ("m",)

    def __init__(self, m=None):
        self.m = {k: v for k, v in (m or {}).items() if v != 0}

    @staticmethod
    def const(c):
        return Poly({(): c}) if c != 0 else Poly()

    @staticmethod
    def atom(a):
        return Poly({(a,): 1})

    def __add__(self, o):
        m = dict(self.m)
        for k, v in o.m.items():
            m[k] = m.get(k, 0) + v
        return Poly(m)

    def __neg__(self):
        return Poly({k: -v for k, v in self.m.items()})

    def __sub__(self, o):
        return self + (-o)

    def __mul__(self, o):
        m = {}
        for k1, v1 in self.m.items():
            for k2, v2 in o.m.items():
                k = tuple(sorted(k1 + k2, key=repr))
                m[k] = m.get(k, 0) + v1 * v2
        return Poly(m)

    def __eq__(self, o):
        return isinstance(o, Poly) and self.m == o.m

    def __hash__(self):
        return hash(self.key())

    def key(self):
        return tuple(sorted(((k, v) for k, v in self.m.items()), key=repr))

    def is_const(self):
        return all(k == () for k in self.m)

    def const_value(self):
        return self.m.get((), 0)

    def atoms(self):
        s = set()
        for k in self.m:
            s.update(k)
        return s

    def __repr__(self):
        if not self.m:
            return "0"
        parts = []
        for k, v in sorted(self.m.items(), key=repr):
            mon = "*".join(fmt_atom(a) for a in k)
            if not k:
                parts.append(str(v))
            elif v == 1:
                parts.append(mon)
            else:
                parts.append("%s*%s" % (v, mon))
        return " + ".join(parts)


def fmt_atom(a):
    from expr import fmt
    if isinstance(a, tuple) and a and a[0] == "fn":
        return "%s(%s)" % (a[1], ", ".join(repr(x) if isinstance(x, Poly) else fmt_atom(x) for x in a[2]))
    if isinstance(a, str):
        return a
    try:
        return fmt(a)
    except Exception:
        return str(a)


def to_poly(e, atomize=None, depth=0):
    """expression term -> Poly.  atomize(e) may map a sub-term to a canonical atom (or None)."""
    if atomize is not None:
        a = atomize(e)
        if a is not None:
            return a if isinstance(a, Poly) else Poly.atom(a)
    if not isinstance(e, tuple) or not e:
        return Poly.atom(("raw", str(e)))
    t = e[0]
    if is_lit(e):
        return Poly.const(lit_val(e))
    if t == "bin":
        op = e[1]
        if op.endswith("WithOverflow"):
            op = op[:-len("WithOverflow")]
        if op.endswith("Unchecked"):
            op = op[:-len("Unchecked")]
        if op in ("Add", "Sub", "Mul"):
            a = to_poly(e[2], atomize, depth + 1)
            b = to_poly(e[3], atomize, depth + 1)
            return a + b if op == "Add" else (a - b if op == "Sub" else a * b)
        if op == "Shl" and is_lit(e[3]):
            return to_poly(e[2], atomize, depth + 1) * Poly.const(1 << lit_val(e[3]))
        a = to_poly(e[2], atomize, depth + 1)
        b = to_poly(e[3], atomize, depth + 1)
        return Poly.atom(("fn", op, (a, b)))
    if t == "un" and e[1] == "Neg":
        return -to_poly(e[2], atomize, depth + 1)
    if t in ("cast", "conv", "try"):
        return to_poly(e[1], atomize, depth + 1)
    return Poly.atom(e)
