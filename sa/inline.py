"""Extract-function transparency: private helper functions that did not exist in the reviewed tree (their id is not in
/verif/baseline_fns.json) are inlined into their callers on the MIR facts, before any analysis.

    fn caller(..) { ..; helper(a, b)?; .. }      ==>      fn caller(..) { ..; <body of helper with its parameters bound to a, b>; .. }

The helper's blocks are spliced into the caller (locals and blocks renumbered, `return` becomes a jump to the call's
continuation) exactly like the closure bodies of desugar.py.  When the call's value is consumed by the caller's own `?`, every
return of the helper is threaded into the matching arm (`Err(..)` / `from_residual(..)` returns leave through the caller's
error exit, `Ok(v)` returns continue), so refusing paths stay path-precise.  A helper is dropped from the program when no
call or function-item reference to it remains.  Functions that exist in the baseline are never touched, so this pass can
only make a refactored tree look like the tree the rules were written for; it cannot hide a change inside a known function.
The transformation is purely structural; nothing is evaluated."""
import copy
import json
import os
from desugar import _remap_stmt, _remap_term, _local_of, _caller_try, _passthrough_stmt, LN

MAX_CALLEE_BLOCKS = 400


def _baseline():
    bp = os.path.join(os.path.dirname(os.path.dirname(os.path.abspath(__file__))), "baseline_fns.json")
    try:
        return set(json.load(open(bp)))
    except (ValueError, OSError):
        return None


def _refs(d, did):
    """number of remaining references (calls and function-item constants) to function did"""
    n = 0
    for f in d["fns"]:
        m = f.get("mir")
        if not m:
            continue
        for b in m["blocks"]:
            t = b["t"]
            if t["k"] in ("call", "tailcall"):
                if t["f"].get("did") == did or t["f"].get("rdid") == did:
                    n += 1
                for a in t.get("args", []):
                    if a.get("k") == "const" and a.get("did") == did:
                        n += 1
            for s in b["s"]:
                r = s.get("r")
                if not r:
                    continue
                for a in ([r.get("a"), r.get("b")] + list(r.get("ops", []))):
                    if isinstance(a, dict) and a.get("k") == "const" and a.get("did") == did:
                        n += 1
    return n


def _variant_agg(r, names):
    return r.get("k") == "agg" and r.get("ak") == "adt" and r.get("vn") in names


def _inline_site(m, blk, t, cm):
    ln = t.get("ln", LN)
    dest, target = t.get("dest"), t.get("t")
    L = len(m["locals"])
    m["locals"] = m["locals"] + list(cm["locals"])
    RET = L
    B = len(m["blocks"])
    n = len(cm["blocks"])
    CRET = B + n
    thread = _caller_try(m, dest, target)
    # 1. bind the parameters
    binds = []
    for i, a in enumerate(t["args"]):
        binds.append({"k": "assign", "p": L + 1 + i, "r": {"k": "use", "a": a}, "ln": ln})
    blk["s"] = blk["s"] + binds
    blk["t"] = {"k": "goto", "t": B, "ln": ln}
    # 2. the body
    for cb in cm["blocks"]:
        m["blocks"].append({"s": [_remap_stmt(s, L) for s in cb["s"]], "t": _remap_term(cb["t"], L, B, CRET), "c": cb.get("c", False)})
    # 3. the continuation
    m["blocks"].append({"s": [{"k": "assign", "p": dest, "r": {"k": "use", "a": {"k": "move", "p": RET}}, "ln": ln}],
                        "t": {"k": "goto", "t": target, "ln": ln}, "c": False})                                            # CRET
    # 4. path-precise exits when the caller applies `?` to the call's value
    if thread is not None:
        x, cont, brk = thread
        rb_set = set(B + i for i, cb in enumerate(cm["blocks"]) if cb["t"]["k"] == "return")
        grew = True
        while grew:
            grew = False
            for i, cb in enumerate(cm["blocks"]):
                if (B + i) in rb_set or any(not _passthrough_stmt(st, 0) for st in cb["s"]):
                    continue
                ct = cb["t"]
                if ct["k"] in ("goto", "drop") and (ct["t"] + B) in rb_set:
                    rb_set.add(B + i)
                    grew = True
        def cf(vi, op):
            return {"k": "agg", "ops": [op], "ak": "adt", "path": "std::ops::ControlFlow", "did": None, "vi": vi,
                    "vn": ("Continue", "Break")[vi], "fields": ["0"], "args": []}
        for i in range(n):
            X = m["blocks"][B + i]
            xt = X["t"]
            if X.get("c"):
                continue
            if xt["k"] == "call" and xt["f"].get("path") == "std::ops::FromResidual::from_residual" and xt.get("dest") == RET \
                    and xt.get("t") in rb_set and len(xt["args"]) == 1:
                # the helper's own `?` failed: its residual is the caller's residual
                X["s"] = X["s"] + [{"k": "assign", "p": x, "r": cf(1, xt["args"][0]), "ln": ln}]
                X["t"] = {"k": "goto", "t": brk, "ln": ln}
            elif xt["k"] in ("goto", "drop") and xt["t"] in rb_set and X["s"]:
                last = X["s"][-1]
                r = last.get("r", {})
                if last.get("p") == RET and _variant_agg(r, ("Ok", "Some")) and len(r.get("ops", [])) == 1:
                    X["s"] = X["s"][:-1] + [{"k": "assign", "p": x, "r": cf(0, r["ops"][0]), "ln": last.get("ln", ln)}]
                    if xt["k"] == "goto":
                        X["t"] = {"k": "goto", "t": cont, "ln": ln}
                    else:
                        X["t"] = dict(xt, t=cont)
                elif last.get("p") == RET and _variant_agg(r, ("Err", "None")):
                    # an explicit `return Err(e)`: the caller's `?` sees Break(Err(e))
                    X["s"] = X["s"] + [{"k": "assign", "p": x, "r": cf(1, {"k": "move", "p": RET}), "ln": ln}]
                    if xt["k"] == "goto":
                        X["t"] = {"k": "goto", "t": brk, "ln": ln}
                    else:
                        X["t"] = dict(xt, t=brk)
    return L


def inline_helpers(d):
    """inline every call to a private non-trait function that is not in the baseline; returns the list of inlined helper ids"""
    known = _baseline()
    d["inlined_helpers"] = []
    if known is None:
        return []
    by_did = {f["did"]: f for f in d["fns"]}
    cand = {}
    for f in d["fns"]:
        if f["id"] in known or f.get("k") == "Closure" or f.get("eff_pub") or f.get("impl_trait") is not None or not f.get("mir"):
            continue
        if f.get("in_trait") is not None:
            # a new provided method of a crate-private trait is a helper like any other, unless some impl overrides it
            if any(g.get("impl_trait") == f["in_trait"] and g.get("name") == f.get("name") for g in d["fns"]):
                continue
        if len(f["mir"]["blocks"]) > MAX_CALLEE_BLOCKS:
            continue
        # not (directly) recursive
        if any(b["t"]["k"] in ("call", "tailcall") and b["t"]["f"].get("did") == f["did"] for b in f["mir"]["blocks"]):
            continue
        cand[f["did"]] = f
    if not cand:
        return []
    n_sites = {}
    for _ in range(4):                       # nested new helpers: bottom-up by repetition
        progress = False
        for f in d["fns"]:
            m = f.get("mir")
            if not m:
                continue
            guard = 0
            again = True
            while again and guard < 64:
                again = False
                guard += 1
                for bi, blk in enumerate(m["blocks"]):
                    t = blk["t"]
                    if t["k"] != "call" or blk.get("c") or t.get("t") is None or t.get("dest") is None:
                        continue
                    cd = t["f"].get("did")
                    if cd not in cand or cd == f["did"]:
                        continue
                    cf = cand[cd]
                    cm = cf["mir"]
                    if cm["argc"] != len(t["args"]):
                        continue
                    # a helper that still calls another new helper is inlined after that one has been
                    if any(b["t"]["k"] == "call" and b["t"]["f"].get("did") in cand and b["t"]["f"].get("did") != cd for b in cm["blocks"]) and _ < 3:
                        continue
                    L0 = _inline_site(m, blk, t, copy.deepcopy(cm))
                    for v in cm.get("vars", []):
                        p = v["p"]
                        m.setdefault("vars", []).append({"n": v["n"], "p": (p + L0) if isinstance(p, int) else dict(p, l=p["l"] + L0)})
                    # closures constructed inside the helper now live in the caller
                    for g2 in d["fns"]:
                        if g2.get("parent") == cd:
                            g2["parent"] = f["did"]
                    n_sites[cd] = n_sites.get(cd, 0) + 1
                    again = True
                    progress = True
                    break
        if not progress:
            break
    dropped = []
    for did, cf in cand.items():
        if n_sites.get(did) and _refs(d, did) == 0:
            dropped.append(did)
    if dropped:
        ds = set(dropped)
        d["fns"] = [f for f in d["fns"] if f["did"] not in ds]
    d["inlined_helpers"] = sorted(cand[x]["id"] for x in n_sites)
    return d["inlined_helpers"]
