"""exploration helper: python3 sa/show.py <name> [id_re]  -- dumps edges, retdefs and calls of matching fns"""
import sys, os
sys.path.insert(0, os.path.dirname(__file__))
import extract, ir
from guards import FnGuards
from expr import fmt

def main():
    prog = ir.Program(extract.extract("K2"))
    name = sys.argv[1]
    rx = sys.argv[2] if len(sys.argv) > 2 else None
    kw = dict(name=name)
    if rx:
        kw["id_re"] = rx
    for f in prog.find(**kw):
        print("=" * 100)
        print(f.id, f.loc, "args=%d" % f.body.arg_count if hasattr(f.body, "arg_count") else "")
        g = FnGuards(prog, f)
        for rd in g.retdefs:
            print("  RET", rd.kind, "b%d" % rd.block, fmt(rd.expr)[:200] if rd.expr is not None else None)
        for e in g.edges:
            c = e.cond
            print("  EDGE b%d->b%d L%s" % (e.block, e.target, e.line), c[0], " ".join(fmt(x)[:120] if isinstance(x, tuple) else str(x) for x in c[1:]),
                  "leads=%s" % sorted(set(r.kind for r in e.leads)))
        for bi, t in f.body.calls():
            lp = g.loop_of(bi)
            print("  CALL b%d%s %s" % (bi, " loop@%d" % lp[0] if lp else "", fmt(g.eb.call_expr(t))[:220]))
main()
