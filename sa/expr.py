"""Expression reconstruction over MIR: turns locals/operands into nested-tuple terms so that rules can
match *what is compared with what* independently of temporaries, borrow noise and the `?` desugaring.

Term forms (all tuples, first element is the tag):
  ("param", name, local)          function parameter (closure env is param _1, captured vars are
                                  ("upvar", name))
  ("upvar", name)                 variable captured by a closure
  ("lit", value, tystr)           literal / evaluated constant
  ("sym", path)                   named constant, const generic or associated constant
  ("fnref", path)                 function item
  ("call", path, args, full)      call; path = most specific (resolved) callee path
  ("bin", op, a, b) ("un", op, a) ("cast", a, tystr)
  ("field", base, name) ("vfield", base, variant, name) ("index", base, idx) ("len", base)
  ("slice", base, from, to, from_end)
  ("discr", base) ("agg", label, ops) ("closure", path, ops)
  ("try", e)                      the success payload of `e?`
  ("phi", local, name)            a local with several definitions (loop variable, mutable variable)
  ("unk", text)
"""
from ir import fmt_place

TRANSPARENT_NAMES = {
    # callee *item names* that return (a view of) their first argument unchanged as a value
    "deref", "deref_mut", "as_ref", "as_mut", "as_slice", "as_mut_slice", "borrow", "borrow_mut",
    "clone", "cloned", "copied", "to_vec", "to_owned", "must_use", "into_iter", "iter", "iter_mut",
    "as_deref", "as_deref_mut", "by_ref", "into_boxed_slice", "into_vec", "as_bytes",
}
# These are only treated as transparent if the callee path matches one of these prefixes/traits
TRANSPARENT_PATHS = (
    "std::ops::Deref::deref", "std::ops::DerefMut::deref_mut", "std::convert::AsRef::as_ref",
    "std::convert::AsMut::as_mut", "std::vec::Vec::<T, A>::as_slice", "std::vec::Vec::<T, A>::as_mut_slice",
    "std::borrow::Borrow::borrow", "std::borrow::BorrowMut::borrow_mut", "std::clone::Clone::clone",
    "std::hint::must_use", "std::iter::IntoIterator::into_iter", "core::slice::<impl [T]>::iter",
    "core::slice::<impl [T]>::iter_mut", "std::option::Option::<T>::as_ref", "std::option::Option::<T>::as_mut",
    "std::option::Option::<T>::as_deref", "std::option::Option::<&T>::cloned", "std::option::Option::<&T>::copied",
    "std::iter::Iterator::cloned", "std::iter::Iterator::copied", "std::iter::Iterator::by_ref",
    "core::slice::<impl [T]>::to_vec", "std::borrow::ToOwned::to_owned", "std::result::Result::<T, E>::as_ref",
    "std::vec::Vec::<T, A>::as_ref", "std::convert::Into::into", "std::convert::From::from",
)

CMP_CALLS = {
    "std::cmp::PartialEq::eq": "Eq", "std::cmp::PartialEq::ne": "Ne",
    "std::cmp::PartialOrd::lt": "Lt", "std::cmp::PartialOrd::le": "Le",
    "std::cmp::PartialOrd::gt": "Gt", "std::cmp::PartialOrd::ge": "Ge",
}

OP_CALLS = {
    "std::ops::Add::add": "Add", "std::ops::Sub::sub": "Sub", "std::ops::Mul::mul": "Mul", "std::ops::Div::div": "Div",
    "std::ops::Rem::rem": "Rem", "std::ops::BitAnd::bitand": "BitAnd", "std::ops::BitOr::bitor": "BitOr",
    "std::ops::BitXor::bitxor": "BitXor", "std::ops::Shl::shl": "Shl", "std::ops::Shr::shr": "Shr",
}

LEN_CALLS = ("core::slice::<impl [T]>::len", "std::vec::Vec::<T, A>::len", "std::collections::VecDeque::<T, A>::len",
             "bitvec::slice::BitSlice::<T, O>::len", "bitvec::vec::BitVec::<T, O>::len")


def strip_generic_args(path):
    """`core::slice::<impl [u8]>::len` keeps as is; we match on callee.path (unsubstituted) mostly."""
    return path


class ExprBuilder:
    def __init__(self, prog, fn, max_depth=40):
        self.prog = prog
        self.fn = fn
        self.body = fn.body
        self.max_depth = max_depth
        self._cache = {}
        self._in_progress = set()
        self._defsite = {}
        b = self.body
        # single-definition locals
        for l, ds in b.defs.items():
            whole = [d for d in ds if d[2] == "whole"]
            partial = [d for d in ds if d[2] == "partial"]
            if len(whole) == 1 and not partial and not (1 <= l <= b.argc):
                self._defsite[l] = whole[0]
        # locals that are mutably borrowed may change behind our back: mark as phi unless the only
        # borrows are shared
        self._mut_borrowed = set()
        for bi, si, s in b.iter_stmts():
            if s.rv is not None and s.rv.kind in ("ref", "rawptr") and s.rv.mut:
                l, pr = s.rv.place
                if "*" not in pr:
                    self._mut_borrowed.add(l)
        self.upvar_names = [c["n"] for c in fn.captures] if fn.kind == "Closure" else []

    # ------------------------------------------------------------------
    def tystr(self, tyix):
        return self.prog.types[tyix]["s"] if tyix is not None else "?"

    def local_ty(self, l):
        return self.body.locals[l]

    def local(self, l, depth=0):
        if l in self._cache:
            return self._cache[l]
        b = self.body
        name = b.var_names.get(l)
        if 1 <= l <= b.argc and l not in b.defs:
            if self.fn.kind == "Closure" and l == 1:
                e = ("param", "{env}", 1)
            else:
                e = ("param", name or ("_%d" % l), l)
            self._cache[l] = e
            return e
        ds = self._defsite.get(l)
        if ds is None or depth > self.max_depth or l in self._in_progress:
            e = ("phi", l, name)
            if ds is None:
                self._cache[l] = e
            return e
        self._in_progress.add(l)
        try:
            bi, si, _ = ds
            if si == "term":
                t = b.blocks[bi].term
                e = self.call_expr(t, depth + 1)
            else:
                s = b.blocks[bi].stmts[si]
                e = self.rvalue(s.rv, depth + 1)
        finally:
            self._in_progress.discard(l)
        if l in self._mut_borrowed and name is not None:
            # a named variable that is mutably borrowed: its value may differ later; keep identity
            e = ("phi", l, name)
        self._cache[l] = e
        return e

    def _variant_def(self, e, vname, fidx):
        """`(x as V).f` where every definition of x builds an enum value and exactly one builds variant V: that
        definition's operand (MIR downcasts only after the discriminant was tested, so x is that value there)"""
        ds = self.body.defs.get(e[1], [])
        if len(ds) < 2 or e[1] in self._in_progress:
            return None
        hit = []
        for (bi, si, kind) in ds:
            if si == "term" or kind == "partial":
                return None
            rv = self.body.blocks[bi].stmts[si].rv
            if rv is None or rv.kind != "agg" or rv.agg != "adt" or rv.vname is None:
                return None
            if rv.vname == vname:
                hit.append(rv)
        if len(hit) != 1 or not isinstance(fidx, int) or fidx >= len(hit[0].ops):
            return None
        self._in_progress.add(e[1])
        try:
            return self.operand(hit[0].ops[fidx], 1)
        finally:
            self._in_progress.discard(e[1])

    def vec_literal(self, op):
        """`vec![a, b, c]` expands to Box::new_uninit + a store of the array through the box pointer +
        box_assume_init_into_vec_unsafe; recover ("agg", "vec", elems)"""
        if op.kind not in ("copy", "move") or op.place[1]:
            return None
        b = self.body
        box = op.place[0]
        # follow `x = move y` chains back to the new_uninit call result
        seen = set()
        while box not in seen:
            seen.add(box)
            ds = [d for d in b.defs.get(box, []) if d[2] == "whole"]
            if len(ds) != 1 or ds[0][1] == "term":
                break
            s = b.blocks[ds[0][0]].stmts[ds[0][1]]
            if s.rv.kind == "use" and s.rv.ops[0].kind in ("copy", "move") and not s.rv.ops[0].place[1]:
                box = s.rv.ops[0].place[0]
            else:
                break
        # pointer locals derived from the box
        ptrs = set()
        for bi, si, s in b.iter_stmts():
            if s.rv is not None and s.rv.kind == "cast" and s.rv.ops[0].kind in ("copy", "move") and s.rv.ops[0].place[0] in seen | {box}:
                ptrs.add(s.place[0])
        for bi, si, s in b.iter_stmts():
            if s.place is not None and s.place[0] in ptrs and s.place[1] and s.place[1][0] == "*" and s.rv is not None \
                    and s.rv.kind == "agg" and s.rv.agg == "array":
                return ("agg", "vec", tuple(self.operand(o, 2) for o in s.rv.ops))
        return None

    def init_expr(self, l):
        """the (single) whole-definition expression of a local even if it is a phi because of
        mutable borrows; None if it has several whole definitions"""
        ds = [d for d in self.body.defs.get(l, []) if d[2] == "whole"]
        if len(ds) != 1:
            return None
        bi, si, _ = ds[0]
        if si == "term":
            return self.call_expr(self.body.blocks[bi].term, 1)
        return self.rvalue(self.body.blocks[bi].stmts[si].rv, 1)

    def place(self, pl, depth=0):
        l, proj = pl
        e = self.local(l, depth)
        ty = self.body.locals[l]
        i = 0
        proj = list(proj)
        while i < len(proj):
            pe = proj[i]
            if pe == "*":
                pass
            elif pe[0] == "f":
                fname = pe[2] if pe[2] is not None else str(pe[1])
                # closure environment field -> upvar
                if e == ("param", "{env}", 1) and pe[1] < len(self.upvar_names):
                    e = ("upvar", self.upvar_names[pe[1]])
                # checked arithmetic tuple
                elif e[0] == "bin" and e[1].endswith("WithOverflow") and pe[1] == 0:
                    e = ("bin", e[1][:-len("WithOverflow")], e[2], e[3])
                elif e[0] == "agg" and e[1] == "tuple" and pe[1] < len(e[2]):
                    e = e[2][pe[1]]
                elif e[0] == "closure" and isinstance(pe[1], int) and pe[1] < len(e[2]):
                    e = e[2][pe[1]]          # environment field of a desugared closure = the captured operand
                elif e[0] == "agg" and len(e) > 3 and e[3] and fname in e[3] and len(e[3]) == len(e[2]):
                    e = e[2][list(e[3]).index(fname)]      # field of a struct literal built just before = that operand
                else:
                    e = ("field", e, fname)
            elif pe[0] == "dc":
                vname = pe[2] if pe[2] is not None else str(pe[1])
                # expect a following field
                if i + 1 < len(proj) and proj[i + 1] != "*" and proj[i + 1][0] == "f":
                    f = proj[i + 1]
                    fname = f[2] if f[2] is not None else str(f[1])
                    if e[0] == "call" and e[4] == "std::ops::Try::branch" and vname == "Continue":
                        inner = e[2][0]
                        if inner[0] == "call" and len(inner) > 5:
                            inner = inner[5]         # accepted value of a read-through helper
                        if inner[0] == "agg" and (inner[1].endswith("::Ok") or inner[1].endswith("::Some")) and len(inner[2]) == 1:
                            e = inner[2][0]          # `Ok(v)?`
                        else:
                            e = ("try", inner)
                    elif e[0] == "call" and e[4] == "std::ops::Try::branch" and vname == "Break":
                        e = ("residual", e[2][0])
                    else:
                        sel = self._variant_def(e, vname, f[1]) if e[0] == "phi" else None
                        e = sel if sel is not None else ("vfield", e, vname, fname)
                    i += 1
                else:
                    e = ("vcast", e, vname)
            elif pe[0] == "ix":
                e = ("index", e, self.local(pe[1], depth))
            elif pe[0] == "cix":
                e = ("index", e, ("lit", (-pe[1] if pe[2] else pe[1]), "usize"))
            elif pe[0] == "sub":
                e = ("slice", e, pe[1], pe[2], pe[3])
            else:
                e = ("unk", "proj:%s" % (pe,))
            i += 1
        return e

    def operand(self, op, depth=0):
        if op.kind in ("copy", "move"):
            return self.place(op.place, depth)
        if op.kind == "const":
            if op.fn is not None:
                return ("fnref", op.fn)
            if op.sym is not None and op.value is None:
                return ("sym", op.sym)
            if op.value is not None:
                if op.sym is not None and not (op.sym.startswith("{") or "promoted" in op.sym):
                    # evaluated named constant: keep name and value
                    return ("symlit", op.sym, op.value)
                return ("lit", op.value, self.tystr(op.ty))
            if op.sym is not None:
                return ("sym", op.sym)
            return ("lit", op.disp, self.tystr(op.ty))
        return ("unk", "operand")

    def rvalue(self, rv, depth=0):
        k = rv.kind
        if k == "use":
            return self.operand(rv.ops[0], depth)
        if k in ("ref", "rawptr"):
            return self.place(rv.place, depth)
        if k == "cast":
            a = self.operand(rv.ops[0], depth)
            tk = self.prog.types[rv.ty]
            if rv.cast_kind in ("PointerCoercion", "PtrToPtr", "Transmute") and tk["k"] in ("ref", "ptr"):
                return a  # unsizing etc.
            return ("cast", a, tk["s"])
        if k == "bin":
            return ("bin", rv.op, self.operand(rv.ops[0], depth), self.operand(rv.ops[1], depth))
        if k == "un":
            a = self.operand(rv.ops[0], depth)
            if rv.op == "PtrMetadata":
                return ("len", a)
            return ("un", rv.op, a)
        if k == "discr":
            return ("discr", self.place(rv.place, depth))
        if k == "agg":
            ops = tuple(self.operand(o, depth) for o in rv.ops)
            if rv.agg == "adt":
                label = rv.path + ("::" + rv.vname if rv.vname and not rv.path.endswith("::" + rv.vname) else "")
                return ("agg", label, ops, tuple(rv.fields or ()))
            if rv.agg == "closure":
                return ("closure", rv.path, ops, rv.did)
            return ("agg", rv.agg, ops)
        if k == "repeat":
            return ("repeat", self.operand(rv.ops[0], depth))
        return ("unk", rv.disp or k)

    def call_expr(self, t, depth=0):
        c = t.callee
        args = tuple(self.operand(a, depth) for a in t.args)
        if c.indirect is not None:
            return ("call", "<indirect>", args, "<indirect>", "<indirect>")
        path = c.path
        best = c.best
        # comparison operator calls
        if path in CMP_CALLS and len(args) == 2:
            return ("bin", CMP_CALLS[path], args[0], args[1])
        if path == "std::ops::Not::not" and len(args) == 1:
            return ("un", "Not", args[0])
        if (path in LEN_CALLS or (c.name == "len" and c.local_did is not None)) and len(args) == 1:
            # crate-local `len()` methods are lengths too (IdpfInput::len, ...)
            return ("len", args[0])
        if path is not None and path.endswith("box_assume_init_into_vec_unsafe") and len(t.args) == 1:
            v = self.vec_literal(t.args[0])
            if v is not None:
                return v
        if path in OP_CALLS and len(args) == 2:
            return ("bin", OP_CALLS[path], args[0], args[1])
        if path == "std::ops::Neg::neg" and len(args) == 1:
            return ("un", "Neg", args[0])
        if path in ("std::ops::Index::index", "std::ops::IndexMut::index_mut") and len(args) == 2:
            a1 = args[1]
            # x[a..][..n]  ==  x[a..a+n]  (one spelling for the rules and for the range checks of PPA)
            a0 = args[0]
            if a1[0] == "agg" and str(a1[1]).endswith("RangeTo") and len(a1[2]) == 1 and a0[0] == "call" and len(a0[2]) == 2 \
                    and a0[4] in ("std::ops::Index::index", "std::ops::IndexMut::index_mut") \
                    and a0[2][1][0] == "agg" and str(a0[2][1][1]).endswith("RangeFrom") and len(a0[2][1][2]) == 1:
                start = a0[2][1][2][0]
                rng = ("agg", str(a1[1])[:-len("RangeTo")] + "Range", (start, ("bin", "Add", start, a1[2][0])))
                if len(a1) > 3:
                    rng = rng + (("start", "end"),) + tuple(a1[4:])
                return ("call", best, (a0[2][0], rng), c.bestfull, path)
            if not (a1[0] == "agg" and "Range" in a1[1]) and not (a1[0] == "sym" and "RangeFull" in a1[1]) \
                    and not (a1[0] == "lit" and "Range" in str(a1[2])):
                return ("index", args[0], a1)
        if path == "subtle::ConstantTimeEq::ct_eq" and len(args) == 2:
            return ("cteq", args[0], args[1], best)
        if path == "subtle::ConstantTimeEq::ct_ne" and len(args) == 2:
            return ("un", "Not", ("cteq", args[0], args[1], best))
        if len(args) >= 1 and path in TRANSPARENT_PATHS:
            if path in ("std::convert::Into::into", "std::convert::From::from"):
                # identity only when the conversion is between the same types or is the
                # Choice->bool conversion; otherwise keep as a conversion call
                src = self.tystr(t.args[0].ty) if t.args[0].kind == "const" else None
                full = c.bestfull
                if "subtle::Choice" in full and "bool" in full:
                    return args[0]
                return ("conv", args[0], full)
            return args[0]
        # a private helper that did not exist on the reviewed tree (extract-function refactoring) whose result is one
        # loop- and merge-free term: read through it (the term is the caller's own expression, moved)
        did = c.local_did
        if did is not None and did in getattr(self.prog, "unknown_dids", ()):
            term, filtered = helper_return_term(self.prog, self.prog.by_did.get(did))
            if term is not None:
                term = subst(term, {i + 1: a for i, a in enumerate(args)})
                if not filtered:
                    return term
                # the helper also refuses: its accepted value is only meaningful under the caller's `?`
                return ("call", best, args, c.bestfull, path, term)
        return ("call", best, args, c.bestfull, path)


_HELPER_TERMS = {}


def helper_return_term(prog, cf):
    if cf is None or cf.body is None:
        return None, False
    k = (id(prog), cf.did)
    if k not in _HELPER_TERMS:
        _HELPER_TERMS[k] = (None, False)             # recursion guard
        term = None
        filtered = False
        eb = ExprBuilder(prog, cf)
        cands = []
        for (bi, si, kind) in cf.body.defs.get(0, []):
            if kind == "partial":
                cands = None
                break
            try:
                if si == "term":
                    t = cf.body.blocks[bi].term
                    if t.callee.path == "std::ops::FromResidual::from_residual":
                        filtered = True              # a refusal of the helper (attributed to the caller by guards._virtual_edges)
                        continue
                    e = eb.call_expr(t)
                else:
                    e = eb.rvalue(cf.body.blocks[bi].stmts[si].rv)
            except Exception:
                cands = None
                break
            if e[0] == "agg" and (e[1].endswith("::Err") or e[1].endswith("::None")):
                filtered = True                      # likewise
                continue
            cands.append(e)
        if cands is not None and len(cands) == 1:
            term = cands[0]
            if any(isinstance(x, tuple) and x and x[0] in ("phi", "upvar", "unk") for x in walk(term)):
                term = None                          # mentions callee-local merges: not a closed term
        _HELPER_TERMS[k] = (term, filtered)
    return _HELPER_TERMS[k]


# ----------------------------------------------------------------------
# term utilities

def walk(e):
    """yield all subterms"""
    st = [e]
    while st:
        x = st.pop()
        yield x
        if isinstance(x, tuple):
            for y in x[1:]:
                if isinstance(y, tuple):
                    if y and isinstance(y[0], str):
                        st.append(y)
                    else:
                        for z in y:
                            if isinstance(z, tuple):
                                st.append(z)


def subst(e, mapping):
    """replace ('param', name, idx) terms via mapping idx -> term"""
    if not isinstance(e, tuple) or not e:
        return e
    if e[0] == "param" and e[2] in mapping:
        return mapping[e[2]]
    out = []
    for y in e:
        if isinstance(y, tuple):
            if y and isinstance(y[0], str):
                out.append(subst(y, mapping))
            else:
                out.append(tuple(subst(z, mapping) if isinstance(z, tuple) else z for z in y))
        else:
            out.append(y)
    return tuple(out)


def mentions(e, pred):
    return any(pred(x) for x in walk(e))


def fmt(e, depth=0):
    if not isinstance(e, tuple) or not e:
        return str(e)
    if depth > 12:
        return "…"
    t = e[0]
    f = lambda x: fmt(x, depth + 1)
    if t == "param":
        return e[1]
    if t == "upvar":
        return "^" + e[1]
    if t == "lit":
        return str(e[1])
    if t == "symlit":
        return "%s(=%s)" % (e[1].split("::")[-1], e[2])
    if t == "sym":
        return e[1]
    if t == "fnref":
        return "fn " + e[1]
    if t == "call":
        return "%s(%s)" % (short(e[1]), ", ".join(f(a) for a in e[2]))
    if t == "bin":
        return "(%s %s %s)" % (f(e[2]), e[1], f(e[3]))
    if t == "un":
        return "%s(%s)" % (e[1], f(e[2]))
    if t == "cast":
        return "(%s as %s)" % (f(e[1]), e[2])
    if t == "conv":
        return "conv(%s)" % f(e[1])
    if t == "field":
        return "%s.%s" % (f(e[1]), e[2])
    if t == "vfield":
        return "(%s as %s).%s" % (f(e[1]), e[2], e[3])
    if t == "vcast":
        return "(%s as %s)" % (f(e[1]), e[2])
    if t == "index":
        return "%s[%s]" % (f(e[1]), f(e[2]))
    if t == "slice":
        return "%s[%s..%s%s]" % (f(e[1]), e[2], "-" if e[4] else "", e[3])
    if t == "len":
        return "len(%s)" % f(e[1])
    if t == "discr":
        return "discr(%s)" % f(e[1])
    if t == "agg":
        return "%s{%s}" % (short(e[1]), ", ".join(f(a) for a in e[2]))
    if t == "closure":
        return "closure %s[%s]" % (short(e[1]), ", ".join(f(a) for a in e[2]))
    if t == "try":
        return "%s?" % f(e[1])
    if t == "residual":
        return "residual(%s)" % f(e[1])
    if t == "phi":
        return "φ%s" % (e[2] or ("_%d" % e[1]))
    if t == "ivc":
        return "%s∈[%s,%s]" % (e[3] if len(e) > 3 else "v", e[1], e[2])
    if t == "cteq":
        return "ct_eq(%s, %s)" % (f(e[1]), f(e[2]))
    if t == "repeat":
        return "[%s; _]" % f(e[1])
    return str(e)


def short(path):
    # drop module prefixes of each path segment for display
    import re
    return re.sub(r"\b(?:[a-z_][a-z_0-9]*::)+", "", path)
