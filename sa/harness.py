"""Check harness: runs the static rules of one property over facts extracted from /repo's current
working tree, prints VIOLATION / KNOWN-FINDING lines, writes the evidence file."""
import importlib, json, os, sys, time, traceback, hashlib

HERE = os.path.dirname(os.path.abspath(__file__))
VERIF = os.path.dirname(HERE)
sys.path.insert(0, HERE)
sys.path.insert(0, VERIF)

import extract
import ir
from guards import FnGuards, fmt_cond, SWAP
from expr import fmt


class Skip(Exception):
    pass


class Ctx:
    def __init__(self, prop, tier, progs):
        self.prop = prop
        self.tier = tier
        self.progs = progs            # config -> Program
        self.prog = progs["K2"]
        self.results = []
        self.floors = {}
        self.notes = []
        self.samples = []
        self._guards = {}
        self.trusted = set()
        self.assumptions = []
        self.counters = {}

    # ---- recording
    def ok(self, rule, key, detail="", loc=None, nontrivial=True, sample=None):
        self.results.append(dict(rule=rule, key=key, status="holds", detail=detail, loc=loc, nontrivial=nontrivial))
        if sample is not None and len(self.samples) < 12:
            self.samples.append(sample)

    def bad(self, rule, key, detail, loc=None, kind="refuted"):
        self.results.append(dict(rule=rule, key=key, status="violated", detail=detail, loc=loc, nontrivial=True,
                                 kind=kind))

    def floor(self, rule, n):
        self.floors[rule] = n

    def count(self, name, n=1):
        self.counters[name] = self.counters.get(name, 0) + n

    def note(self, s):
        self.notes.append(s)

    # ---- anchors
    def fn(self, rule, **kw):
        """anchor lookup; a missing/ambiguous anchor is a violation of the rule (fail closed)"""
        prog = kw.pop("prog", None) or self.prog
        try:
            return prog.find1(**kw)
        except ir.AnchorError as e:
            self.bad(rule, "%s:anchor:%s" % (rule, _kwkey(kw)), "anchor not found: %s" % e, kind="anchor")
            raise Skip()

    def fns(self, rule, floor, **kw):
        prog = kw.pop("prog", None) or self.prog
        r = prog.find(**kw)
        if len(r) < floor:
            self.bad(rule, "%s:anchor-floor:%s" % (rule, _kwkey(kw)),
                     "anchor set %r matched %d functions, floor is %d" % (kw, len(r), floor), kind="anchor")
        return r

    def guards(self, f):
        if f.did not in self._guards:
            self._guards[f.did] = FnGuards(f.prog, f)
        return self._guards[f.did]

    # ---- the GUARD rule
    def require_guard(self, rule, f, when, lhs, rhs, refusal=("err",), dominates=True, every_iteration=False,
                      desc=None, key=None, ct=False, edge_filter=None, bypass=None, _depth=0):
        """Require a branch in f whose *refusing* edge is taken exactly when `lhs <when> rhs`.
        when in Eq/Ne/Lt/Le/Gt/Ge.  Operand order and negation are normalised.  The refusing edge
        must lead only to refusal returns; the branch must dominate all accepting returns (or, with
        every_iteration, lie in a loop, dominate the loop's latches)."""
        g = self.guards(f)
        key = key or "%s:%s:%s" % (rule, f.id, desc or when)
        cands = []
        near = []
        for e in g.edges:
            c = e.cond
            if c[0] != "rel":
                continue
            kinds = set(rd.kind for rd in e.leads)
            op, a, b = c[1], c[2], c[3]
            m = None
            if lhs(a) and rhs(b):
                m = op
            elif lhs(b) and rhs(a):
                m = SWAP[op]
            if m is None:
                continue
            # for unsigned x:  x > 0  ==  x != 0   and   x <= 0  ==  x == 0
            z = b if (lhs(a) and rhs(b)) else a
            if m != when and isinstance(z, tuple) and z[0] == "lit" and z[1] == 0 and str(z[2] if len(z) > 2 else "").startswith("u"):
                if {m, when} <= {"Ne", "Gt"} or {m, when} <= {"Eq", "Le"}:
                    m = when
            if edge_filter is not None and not edge_filter(e):
                continue
            refusing = bool(kinds) and kinds <= set(refusal)
            if m == when and refusing:
                if ct and len(c) < 5:
                    near.append((e, "comparison is not constant-time"))
                    continue
                if every_iteration:
                    if g.covers_every_iteration(e, bypass):
                        cands.append(e)
                    else:
                        near.append((e, "check is not on every iteration of its loop"))
                elif dominates:
                    if g.dominates_accepts(e, refusal, bypass):
                        cands.append(e)
                    else:
                        near.append((e, "check does not dominate every accepting return"))
                else:
                    cands.append(e)
            else:
                near.append((e, "relation is %s (refusing=%s) but %s is required" % (m, refusing, when)))
        if cands:
            e = cands[0]
            self.ok(rule, key, "%s: refuses when %s" % (f.id, fmt_cond(e.cond)), loc="%s:%s" % (f.file, e.line),
                    sample={"rule": rule, "fn": f.id, "guard": fmt_cond(e.cond)[:300], "line": e.line,
                            "refusal": sorted(set(rd.kind for rd in e.leads))})
            return e
        # the guard may have been moved into a helper that is called with `?` (extract-function refactoring): look one
        # level down, with the helper's parameters replaced by the actual arguments
        if not every_iteration and _depth < 2:
            for (cf, mapping, call_edge) in self._try_callees(f, refusal):
                if dominates and not g.dominates_accepts(call_edge, refusal, bypass):
                    continue
                hit = self._guard_in_callee(cf, mapping, when, lhs, rhs, refusal, ct)
                if hit is not None:
                    self.ok(rule, key, "%s: refuses (inside %s, called with `?`) when %s" % (f.id, cf.id, hit), loc="%s:%s" % (f.file, call_edge.line))
                    return call_edge
        # the same refusal spelled differently on the integer's value (`x < 1` for `x == 0`, a `match` with literal / range arms,
        # nested comparisons): decide by value - every value of the operand that satisfies the relation with the literal must
        # reach refusing returns only
        if not every_iteration and not ct:
            hit = self._refused_by_value(f, lhs, when, rhs, refusal)
            if hit:
                self.ok(rule, key, "%s: %s" % (f.id, hit), loc=f.loc)
                return g.edges[0] if g.edges else True
        msg = "%s: required guard `%s` (refuse when %s) not established" % (f.id, desc or "", when)
        if near:
            msg += "; nearest: " + "; ".join("%s @%s: %s" % (fmt_cond(e.cond)[:160], e.line, why) for e, why in near[:3])
        self.bad(rule, key, msg, loc=f.loc)
        return None

    def _refused_by_value(self, f, lhs, when, rhs, refusal):
        """GUARD by value simulation for `lhs <when> literal`: walk the CFG for representative values v of the operand; at a
        branch on the operand against literals only the edges consistent with v are followed, every other branch is followed
        both ways.  The guard holds iff every representative v with `v <when> literal` reaches refusing returns only (and at
        least one such v exists).  The callee of a `?`-propagated helper call is simulated the same way (one level)."""
        g = self.guards(f)
        INTMAX = {"u8": 255, "u16": 65535, "u32": (1 << 32) - 1, "u64": (1 << 64) - 1, "usize": (1 << 64) - 1, "u128": (1 << 128) - 1}
        REL = {"Eq": lambda a, b: a == b, "Ne": lambda a, b: a != b, "Lt": lambda a, b: a < b, "Le": lambda a, b: a <= b,
               "Gt": lambda a, b: a > b, "Ge": lambda a, b: a >= b}

        def litval(e):
            if isinstance(e, tuple) and e[0] == "lit" and isinstance(e[1], int) and not isinstance(e[1], bool):
                return e[1], (e[2] if len(e) > 2 else None)
            if isinstance(e, tuple) and e[0] == "symlit":
                try:
                    return int(e[2]), None
                except (TypeError, ValueError):
                    return None
            return None
        per_block = {}
        lits, tys = set(), set()
        for e in g.edges:
            c = e.cond
            pred = None
            if c[0] == "rel":
                la, lb = litval(c[3]), litval(c[2])
                if lhs(c[2]) and la is not None:
                    pred = (lambda op, k: (lambda v: REL[op](v, k)))(c[1], la[0]); lits.add(la[0]); tys.add(la[1])
                elif lhs(c[3]) and lb is not None:
                    pred = (lambda op, k: (lambda v: REL[op](k, v)))(c[1], lb[0]); lits.add(lb[0]); tys.add(lb[1])
            elif c[0] == "inteq" and lhs(c[1]) and isinstance(c[2], int):
                pred = (lambda k: (lambda v: v == k))(c[2]); lits.add(c[2])
            elif c[0] == "intother" and lhs(c[1]):
                pred = (lambda ks: (lambda v: v not in ks))(tuple(c[2])); lits.update(x for x in c[2] if isinstance(x, int))
            if pred is not None:
                per_block.setdefault(e.block, []).append((e, pred))
        if not per_block:
            return None
        # the literal of the requirement: probe the pattern
        want = [k for k in sorted(lits | set(x + d for x in lits for d in (-1, 1)) | {0, 1, 2, 254, 255, 256, 65535, 65536})
                if k >= 0 and rhs(("lit", k, "usize"))]
        if len(want) != 1:
            return None
        n = want[0]
        # range of the operand's type
        hi = None
        for t in tys:
            if t in INTMAX:
                hi = INTMAX[t] if hi is None else min(hi, INTMAX[t])
        for e in g.edges:
            for x in (e.cond[1:3] if e.cond[0] in ("inteq", "intother") else e.cond[2:4]):
                if isinstance(x, tuple) and lhs(x) and x[0] == "param":
                    ts = self.prog.ty_str(f.body.locals[x[2]]).lstrip("&")
                    if ts in INTMAX:
                        hi = INTMAX[ts] if hi is None else min(hi, INTMAX[ts])
        if hi is None:
            hi = (1 << 64) - 1
        reps = sorted(v for v in (set(lits) | set(x + d for x in lits for d in (-1, 1)) | {0, 1, hi, hi - 1, n, n - 1, n + 1}) if 0 <= v <= hi)
        ret_kind = {}
        for rd in g.retdefs:
            ret_kind.setdefault(rd.block, set()).add(rd.kind)
        b = f.body

        def simulate(v):
            seen, stack, kinds = set(), [0], set()
            while stack:
                bi = stack.pop()
                if bi in seen:
                    continue
                seen.add(bi)
                kinds |= ret_kind.get(bi, set())
                if bi in per_block:
                    nxt = [e.target for (e, pr) in per_block[bi] if pr(v)]
                else:
                    nxt = [x for x in b.blocks[bi].term.targets if x is not None and not b.blocks[x].cleanup]
                stack.extend(nxt)
            return kinds
        sat = [v for v in reps if REL[when](v, n)]
        if not sat:
            return None
        for v in sat:
            k = simulate(v)
            if not k or not (k <= set(refusal) | {"partial"}) or not (k & set(refusal)):
                return None
        return "refuses for every value with `operand %s %d` (decided by value over the branches on the operand: %s)" % (
            when, n, ", ".join(str(v) for v in sat[:6]))

    def value_walker(self, f, lhs):
        """(reach(v) -> set of blocks reachable when the integer operand matched by `lhs` has value v, literals it is compared with).
        At a branch on the operand against literals only the consistent edges are followed; every other branch both ways."""
        g = self.guards(f)
        REL = {"Eq": lambda a, b: a == b, "Ne": lambda a, b: a != b, "Lt": lambda a, b: a < b, "Le": lambda a, b: a <= b,
               "Gt": lambda a, b: a > b, "Ge": lambda a, b: a >= b}

        def litval(e):
            if isinstance(e, tuple) and e[0] == "lit" and isinstance(e[1], int) and not isinstance(e[1], bool):
                return e[1]
            return None
        per_block, lits = {}, set()
        for e in g.edges:
            c = e.cond
            pred = None
            if c[0] == "rel":
                la, lb = litval(c[3]), litval(c[2])
                if lhs(c[2]) and la is not None:
                    pred = (lambda op, k: (lambda v: REL[op](v, k)))(c[1], la); lits.add(la)
                elif lhs(c[3]) and lb is not None:
                    pred = (lambda op, k: (lambda v: REL[op](k, v)))(c[1], lb); lits.add(lb)
            elif c[0] == "inteq" and lhs(c[1]) and isinstance(c[2], int):
                pred = (lambda k: (lambda v: v == k))(c[2]); lits.add(c[2])
            elif c[0] == "intother" and lhs(c[1]):
                pred = (lambda ks: (lambda v: v not in ks))(tuple(c[2])); lits.update(x for x in c[2] if isinstance(x, int))
            if pred is not None:
                per_block.setdefault(e.block, []).append((e, pred))
        b = f.body

        def reach(v):
            seen, stack = set(), [0]
            while stack:
                bi = stack.pop()
                if bi in seen:
                    continue
                seen.add(bi)
                if bi in per_block:
                    stack.extend(e.target for (e, pr) in per_block[bi] if pr(v))
                else:
                    stack.extend(x for x in b.blocks[bi].term.targets if x is not None and not b.blocks[x].cleanup)
            return seen
        return reach, lits, bool(per_block)

    def _try_callees(self, f, refusal=("err",)):
        """crate-local callees of f whose Result is propagated with `?` (or returned as is): (callee fn, {param: actual term}, edge)"""
        g = self.guards(f)
        out = []
        for e in g.edges:
            c = e.cond
            if c[0] != "variant" or c[2] != "Break" or not c[3]:
                continue
            sub = c[1]
            if not (sub[0] == "call" and sub[4] == "std::ops::Try::branch" and sub[2]):
                continue
            kinds = set(rd.kind for rd in e.leads)
            if not (kinds and kinds <= set(refusal)):
                continue
            inner = sub[2][0]
            # look through map_err / ok_or wrappers
            while isinstance(inner, tuple) and inner[0] == "call" and inner[1].split("::")[-1] in ("map_err", "ok_or", "ok_or_else") and inner[2]:
                inner = inner[2][0]
            if not (isinstance(inner, tuple) and inner[0] == "call"):
                continue
            cands = [x for x in self.prog.fns if x.body is not None and (x.id == inner[3] or x.id == inner[1] or x.id.endswith("::" + inner[1].split("::", 1)[-1]) and x.name == inner[1].split("::")[-1])]
            cands = [x for x in cands if x.body.argc == len(inner[2])]
            if len(cands) != 1:
                continue
            out.append((cands[0], {i + 1: a for i, a in enumerate(inner[2])}, e))
        return out

    def _guard_in_callee(self, cf, mapping, when, lhs, rhs, refusal, ct):
        from expr import subst
        g2 = self.guards(cf)
        for e in g2.edges:
            c = e.cond
            if c[0] != "rel":
                continue
            kinds = set(rd.kind for rd in e.leads)
            if not (kinds and kinds <= set(refusal)) or not g2.dominates_accepts(e, refusal):
                continue
            a, b = subst(c[2], mapping), subst(c[3], mapping)
            op = c[1]
            m = op if (lhs(a) and rhs(b)) else (SWAP[op] if (lhs(b) and rhs(a)) else None)
            if m == when and (not ct or len(c) >= 5):
                return fmt_cond(("rel", op, a, b))
        return None

    def require_variant_guard(self, rule, f, subject, variant, positive, refusal=("err",), dominates=True,
                              desc=None, key=None):
        """Require an edge `subject is <variant>` (positive) leading only to refusal."""
        g = self.guards(f)
        key = key or "%s:%s:%s" % (rule, f.id, desc or variant)
        for e in g.edges:
            c = e.cond
            if c[0] != "variant":
                continue
            kinds = set(rd.kind for rd in e.leads)
            if not (kinds and kinds <= set(refusal)):
                continue
            if c[2] == variant and c[3] == positive and subject(c[1]):
                if not dominates or g.dominates_accepts(e, refusal):
                    self.ok(rule, key, "%s: refuses when %s" % (f.id, fmt_cond(c)), loc="%s:%s" % (f.file, e.line))
                    return e
        self.bad(rule, key, "%s: required variant guard `%s` not established" % (f.id, desc or variant), loc=f.loc)
        return None


    def require_try_call(self, rule, f, callee, refusal=("err",), dominates=True, desc=None, key=None, argpats=None):
        """Require `callee(...)?` in f: a call matching pattern `callee` whose error is propagated (the
        Break edge of Try::branch leads only to refusals) and which dominates every accepting return."""
        g = self.guards(f)
        key = key or "%s:%s:try:%s" % (rule, f.id, desc or "call")
        for e in g.edges:
            c = e.cond
            if c[0] != "variant" or c[2] != "Break" or not c[3]:
                continue
            sub = c[1]
            if not (sub[0] == "call" and sub[4] == "std::ops::Try::branch" and sub[2]):
                continue
            inner = sub[2][0]
            if not callee(inner):
                continue
            kinds = set(rd.kind for rd in e.leads)
            if not (kinds and kinds <= set(refusal)):
                continue
            if dominates and not g.dominates_accepts(e, refusal):
                continue
            self.ok(rule, key, "%s: propagates the error of %s" % (f.id, fmt(inner)[:160]),
                    loc="%s:%s" % (f.file, e.line))
            return inner
        # the explicit spelling: `match inner { Err(..)/None => return <refusal>, Ok(v)/Some(v) => v }`
        from pat import synthetic_wrappers
        for e in g.edges:
            c = e.cond
            if c[0] != "variant" or c[2] not in ("Err", "None") or not c[3]:
                continue
            subj = c[1]
            alts = [subj]
            if subj[0] == "phi":
                # `let x = match a { Some(v) => f(v), None => None }; match x { None => return Err(..), .. }`: the merged value's definitions
                from guards import phi_defs
                alts += [de for (de, dc, dbi) in phi_defs(g, subj[1]) if de is not None]
            if not any(callee(x) or any(callee(w) for w in synthetic_wrappers(x)) for x in alts):
                continue
            kinds = set(rd.kind for rd in e.leads)
            if not (kinds and kinds <= set(refusal)):
                continue
            if dominates and not g.dominates_accepts(e, refusal):
                continue
            self.ok(rule, key, "%s: refuses when %s fails (explicit match)" % (f.id, fmt(subj)[:160]), loc="%s:%s" % (f.file, e.line))
            return subj
        # also accept a tail call `return callee(...)` (the callee's Result is returned as is)
        def _unwrapped(x):
            # `callee(..).map_err(f)` returned as is carries callee's refusals
            while isinstance(x, tuple) and x[0] == "call" and str(x[1]).split("::")[-1] in ("map_err", "map", "and_then") and x[2] and not callee(x):
                x = x[2][0]
            return x
        for rd in g.retdefs:
            if rd.kind == "call" and rd.expr is not None and callee(_unwrapped(rd.expr)):
                others = [x for x in g.retdefs if x is not rd and x.kind not in refusal]
                if not others:
                    self.ok(rule, key, "%s: returns the result of %s" % (f.id, fmt(rd.expr)[:160]),
                            loc="%s:%s" % (f.file, rd.line))
                    return rd.expr
        self.bad(rule, key, "%s: required `%s(..)?` dominating every accepting return not found" % (f.id, desc or "call"),
                 loc=f.loc)
        return None

    def loop_source(self, f, edge):
        """initial expression of the iterator driving the innermost loop that contains edge"""
        g = self.guards(f)
        lp = g.loop_of(edge.block)
        if lp is None:
            return None
        h, blocks = lp
        b = f.body
        # the loop's own `next` call (not that of a loop nested inside it, whatever the block numbering): the one whose innermost
        # loop is this loop; block order only breaks ties
        cands = [bi for bi in sorted(blocks) if b.blocks[bi].term.kind == "call" and b.blocks[bi].term.callee.path == "std::iter::Iterator::next"]
        own = [bi for bi in cands if (g.loop_of(bi) or (None,))[0] == h]
        for bi in (own or cands):
            t = b.blocks[bi].term
            if t.kind == "call" and t.callee.path == "std::iter::Iterator::next" and t.args and t.args[0].place:
                # receiver is &mut iter ; find iter local
                e = g.eb.operand(t.args[0])
                if e[0] == "phi":
                    return g.eb.init_expr(e[1])
                return e
        return None


def _kwkey(kw):
    return ",".join("%s=%s" % (k, kw[k]) for k in sorted(kw))


# ----------------------------------------------------------------------

def load_known():
    p = os.path.join(VERIF, "known_findings.json")
    if not os.path.exists(p):
        return {"findings": [], "fixed": []}
    with open(p) as fh:
        return json.load(fh)


def evaluate(mod, prop, tier, progs):
    """run a rule module on the given facts; returns (ctx, violated results after floors)"""
    ctx = Ctx(prop, tier, progs)
    try:
        mod.run(ctx)
    except Skip:
        pass
    per_rule = {}
    for r in ctx.results:
        per_rule.setdefault(r["rule"], []).append(r)
    for rule, n in ctx.floors.items():
        got = len(per_rule.get(rule, []))
        if got < n:
            ctx.bad(rule, "%s:floor" % rule, "rule %s evaluated %d instances, floor is %d (fail closed)" % (rule, got, n), kind="floor")
    return ctx, [r for r in ctx.results if r["status"] == "violated"]


def run_controls(mod, prop, known_keys):
    """Positive controls (thorough tier): every confirmed mutant stored for this property under /verif/seeded is applied to a
    scratch copy of /repo's working tree and the rules must report a violation that is not a known finding.  The scratch
    copy lives under $TMPDIR and is removed afterwards.  A mutant whose patch no longer applies is skipped (noted)."""
    import glob, shutil, subprocess, fcntl, tempfile
    out = []
    dirs = sorted(glob.glob(os.path.join(VERIF, "seeded", prop + "-*m[0-9]*")))
    if not dirs:
        return out
    base = os.path.join(os.environ.get("TMPDIR", "/tmp"), "verif-controls")
    os.makedirs(base, exist_ok=True)
    # one scratch copy (and hence one cargo target directory under /verif/.work) per property, so that the thorough
    # commands of different properties can run in parallel
    lock = open(os.path.join(base, ".lock-%s" % prop), "w")
    fcntl.flock(lock, fcntl.LOCK_EX)
    scratch = os.path.join(base, "repo-%s" % prop)
    try:
        for d in dirs:
            name = os.path.basename(d)
            patch = os.path.join(d, "patch.current.diff")
            if not os.path.exists(patch):
                patch = os.path.join(d, "patch.diff")
            shutil.rmtree(scratch, ignore_errors=True)
            os.makedirs(scratch)
            r = subprocess.run(["rsync", "-a", "--exclude", "target", "--exclude", ".git", extract.REPO + "/", scratch + "/"], capture_output=True, text=True)
            if r.returncode != 0:
                out.append(dict(mutant=name, status="scratch copy failed"))
                continue
            r = subprocess.run(["git", "apply", "--unsafe-paths", "--directory", scratch, patch], capture_output=True, text=True, cwd=scratch)
            if r.returncode != 0:
                r = subprocess.run(["patch", "-p1", "-s", "-i", patch], capture_output=True, text=True, cwd=scratch)
            if r.returncode != 0:
                out.append(dict(mutant=name, status="patch does not apply to the current tree (skipped)"))
                continue
            try:
                facts = extract.extract("K2", repo=scratch)
            except SystemExit:
                out.append(dict(mutant=name, status="mutated tree does not compile (skipped)"))
                continue
            ctx2, viol = evaluate(mod, prop, "control", {"K2": ir.load(facts)})
            new = sorted(set(v["rule"] for v in viol if (prop, v["key"]) not in known_keys))
            out.append(dict(mutant=name, status="detected" if new else "NOT DETECTED", rules=new[:6]))
            try:
                os.remove(facts)
            except OSError:
                pass
    finally:
        shutil.rmtree(scratch, ignore_errors=True)
        fcntl.flock(lock, fcntl.LOCK_UN)
        lock.close()
    return out


def run(prop, tier):
    t0 = time.time()
    seed = int(os.environ.get("VERIF_SEED", "0") or 0)
    try:
        mod = importlib.import_module("rules.%s" % prop.lower())
    except ImportError as e:
        sys.stderr.write("no rules for %s: %s\n" % (prop, e))
        return 2
    configs = ["K2"]
    if tier == "thorough":
        configs = list(getattr(mod, "THOROUGH_CONFIGS", ["K2"]))
    progs = {}
    for c in configs:
        progs[c] = ir.load(extract.extract(c))
    ctx = Ctx(prop, tier, progs)
    try:
        mod.run(ctx)
    except Skip:
        pass
    except Exception as ex:
        # a rule could not evaluate this tree (a code shape its extraction does not handle).  That is not an infrastructure
        # problem - the facts were extracted - and it must not pass silently: fail closed, as one unproved instance that names
        # the place, so that the report is diagnosable.  (On the reviewed tree no rule raises.)
        traceback.print_exc()
        tb = traceback.extract_tb(sys.exc_info()[2])
        where = next(("%s:%d in %s" % (os.path.basename(fr.filename), fr.lineno, fr.name) for fr in reversed(tb) if "/rules/" in fr.filename), "?")
        ctx.bad("R-%s.evaluable" % prop, "R-%s.evaluable:%s" % (prop, where.split(" in ")[-1]),
                "the rules of %s could not be evaluated on this tree (%s: %s at %s); the code has a shape the extraction does not "
                "recognise - reported fail-closed, the remaining rules of this property were not run" % (prop, type(ex).__name__, ex, where), kind="unproved")

    # floors
    per_rule = {}
    for r in ctx.results:
        per_rule.setdefault(r["rule"], []).append(r)
    for rule, n in ctx.floors.items():
        got = len(per_rule.get(rule, []))
        if got < n:
            ctx.bad(rule, "%s:floor" % rule, "rule %s evaluated %d instances, floor is %d (fail closed)" % (rule, got, n),
                    kind="floor")
    per_rule = {}
    for r in ctx.results:
        per_rule.setdefault(r["rule"], []).append(r)

    known = load_known()
    known_keys = {(k["property"], k["key"]): k for k in known.get("findings", [])}
    viol = [r for r in ctx.results if r["status"] == "violated"]
    seen = set()
    new_viol = []
    known_hit = []
    for v in viol:
        if v["key"] in seen:
            continue
        seen.add(v["key"])
        if (prop, v["key"]) in known_keys:
            known_hit.append(v)
        else:
            new_viol.append(v)
    EVROOT = os.environ.get("VERIF_EVIDENCE_DIR") or os.path.join(VERIF, "evidence")
    vdir = os.path.join(EVROOT, "violations")
    os.makedirs(vdir, exist_ok=True)
    # remove stale replay files of this property
    for fn in os.listdir(vdir):
        if fn.startswith(prop + "-"):
            os.remove(os.path.join(vdir, fn))
    for v in known_hit:
        print("KNOWN-FINDING: property=%s %s — %s" % (prop, v["key"], known_keys[(prop, v["key"])].get("what", v["detail"])))
    for i, v in enumerate(new_viol):
        path = os.path.join(vdir, "%s-%d.json" % (prop, i))
        with open(path, "w") as fh:
            json.dump(dict(property=prop, rule=v["rule"], key=v["key"], detail=v["detail"], location=v.get("loc"),
                           kind=v.get("kind"), tier=tier), fh, indent=1)
        print("VIOLATION property=%s replay=%s" % (prop, path))
        print("  rule=%s key=%s\n  %s\n  at %s" % (v["rule"], v["key"], v["detail"], v.get("loc")))

    controls = []
    if tier == "thorough" and not os.environ.get("VERIF_NO_CONTROLS"):
        controls = run_controls(mod, prop, known_keys)
        for c in controls:
            print("CONTROL %s: %s %s" % (c["mutant"], c["status"], ",".join(c.get("rules", []))))
    holds = [r for r in ctx.results if r["status"] == "holds"]
    distinct_nt = len(set(r["key"] for r in ctx.results if r.get("nontrivial")))
    info = getattr(mod, "INFO", {})
    cov = {
        "explanation": info.get("explanation", ""),
        "rule": info.get("rule", "each evaluation is one rule instance (function/site x rule) decided on the MIR facts "
                         "of the current tree; distinct = distinct instance keys; non-trivial = the decision "
                         "needed expression reconstruction, dominance or dependence, not a constant lookup"),
        "evaluations": len(ctx.results),
        "distinct_nontrivial": distinct_nt,
        "obligations": len(ctx.results),
        "discharged": len(holds),
        "known_findings": len(known_hit),
        "violations_new": len(new_viol),
        "rules": {rule: {"instances": len(rs), "holds": sum(1 for r in rs if r["status"] == "holds"),
                         "floor": ctx.floors.get(rule)} for rule, rs in sorted(per_rule.items())},
        "samples": ctx.samples[:12] if ctx.samples else [dict(rule=r["rule"], key=r["key"], detail=r["detail"][:300])
                                                          for r in ctx.results[:8]],
        "checker_cmd": "./check %s --tier %s" % (prop, tier),
        "trusted_base": sorted(ctx.trusted | set(info.get("trusted_base", []))),
        "functions_in_facts": len(ctx.prog.fns),
        "configs": configs,
        "facts": {c: os.path.basename(p.path) for c, p in progs.items()},
        "counters": ctx.counters,
        "positive_controls": controls,
        "exhaustive": bool(info.get("exhaustive", False)),
        "notes": ctx.notes[:40],
        "instances": [dict(rule=r["rule"], key=r["key"], status=r["status"], loc=r.get("loc"),
                           detail=(r["detail"] or "")[:240]) for r in ctx.results][:400],
    }
    ev = {
        "property_id": prop,
        "tier": tier,
        "seed": seed,
        "level": "other",
        "coverage": cov,
        "assumptions": list(info.get("assumptions", [])) + ctx.assumptions,
        "wall_s": round(time.time() - t0, 2),
        "violations": len(new_viol),
    }
    os.makedirs(EVROOT, exist_ok=True)
    evp = os.path.join(EVROOT, "%s.json" % prop)
    tmp = evp + ".tmp.%d" % os.getpid()
    with open(tmp, "w") as fh:
        json.dump(ev, fh, indent=1)
    os.replace(tmp, evp)
    print("%s %s: %d rule instances, %d hold, %d known findings, %d new violations (%.1fs)" % (
        prop, tier, len(ctx.results), len(holds), len(known_hit), len(new_viol), time.time() - t0))
    if new_viol:
        return 1
    if any(c["status"] == "NOT DETECTED" for c in controls):
        sys.stderr.write("INFRA-FAILURE: a positive control (seeded mutant) is no longer detected: the check cannot be trusted\n")
        return 2
    return 0


def main(argv):
    if len(argv) < 2:
        print("usage: check <property-id> [--tier quick|thorough]")
        return 2
    prop = argv[1].upper()
    tier = os.environ.get("VERIF_TIER", "quick")
    if "--tier" in argv:
        tier = argv[argv.index("--tier") + 1]
    if tier not in ("quick", "thorough"):
        tier = "quick"
    return run(prop, tier)


if __name__ == "__main__":
    sys.exit(main(sys.argv))
