"""Rename transparency for private functions: a private, non-trait function of the reviewed tree that is absent from the current
tree, and a function of the current tree that is absent from the reviewed tree, are the same function under a new name when they
live in the same module / impl, have the same signature, and the pairing is unique both ways.  The current function (its id, its
closures' ids, and every call site and function-item reference to it) is then given its reviewed name before any analysis, so
that rules anchored on the reviewed name, obligation keys and the reviewed tables see the same program.  Nothing else is touched:
a function that changed its signature or moved is not paired (its rules fail closed with an anchor violation, as before)."""
import json
import os


def _sig(d, f):
    ts = d["types"]
    try:
        return "(%s) -> %s" % (", ".join(ts[i]["s"] for i in f.get("inputs", [])), ts[f["output"]]["s"] if f.get("output") is not None else "?")
    except (IndexError, KeyError, TypeError):
        return None


def baseline_sigs():
    bp = os.path.join(os.path.dirname(os.path.dirname(os.path.abspath(__file__))), "baseline_sigs.json")
    try:
        return json.load(open(bp))
    except (ValueError, OSError):
        return None


def make_baseline(d):
    out = {}
    for f in d["fns"]:
        if f.get("k") == "Closure":
            continue
        out[f["id"]] = {"sig": _sig(d, f), "private": not f.get("eff_pub") and f.get("impl_trait") is None and f.get("in_trait") is None}
    return out


def canonicalise_renames(d):
    base = baseline_sigs()
    d["renamed_fns"] = []
    if not base:
        return []
    cur = set(f["id"] for f in d["fns"])
    missing = [i for i, v in base.items() if i not in cur and v.get("private") and v.get("sig")]
    if not missing:
        return []
    new = [f for f in d["fns"] if f["id"] not in base and f.get("k") != "Closure" and not f.get("eff_pub")
           and f.get("impl_trait") is None and f.get("in_trait") is None]
    pairs = []
    for f in new:
        prefix = f["id"].rsplit("::", 1)[0]
        sg = _sig(d, f)
        c = [m for m in missing if m.rsplit("::", 1)[0] == prefix and base[m]["sig"] == sg]
        if len(c) == 1:
            pairs.append((f, c[0]))
    # unique both ways
    by_old = {}
    for f, m in pairs:
        by_old.setdefault(m, []).append(f)
    done = []
    for m, fs in by_old.items():
        if len(fs) != 1:
            continue
        f = fs[0]
        old_id, new_id = m, f["id"]
        old_name, new_name = m.rsplit("::", 1)[1], f["name"]
        did = f["did"]
        f["id"], f["name"] = old_id, old_name
        for g in d["fns"]:
            if g["id"].startswith(new_id + "::"):
                g["id"] = old_id + g["id"][len(new_id):]
            mm = g.get("mir")
            if not mm:
                continue
            for b in mm["blocks"]:
                t = b["t"]
                if t["k"] in ("call", "tailcall"):
                    cf = t["f"]
                    if cf.get("did") == did or cf.get("rdid") == did:
                        for k in ("path", "full", "rpath", "rfull"):
                            v = cf.get(k)
                            if isinstance(v, str) and v.endswith("::" + new_name) or (isinstance(v, str) and ("::" + new_name + "::<") in v):
                                cf[k] = v.replace("::" + new_name, "::" + old_name)
                        if cf.get("name") == new_name:
                            cf["name"] = old_name
                    for a in t.get("args", []):
                        if a.get("k") == "const" and a.get("did") == did and isinstance(a.get("fn"), str):
                            a["fn"] = a["fn"].replace("::" + new_name, "::" + old_name)
                for s in b["s"]:
                    r = s.get("r")
                    if not r:
                        continue
                    for a in [r.get("a"), r.get("b")] + list(r.get("ops", [])):
                        if isinstance(a, dict) and a.get("k") == "const" and a.get("did") == did and isinstance(a.get("fn"), str):
                            a["fn"] = a["fn"].replace("::" + new_name, "::" + old_name)
                    if r.get("k") == "agg" and r.get("ak") == "closure" and isinstance(r.get("path"), str) and r["path"].startswith(new_id + "::"):
                        r["path"] = old_id + r["path"][len(new_id):]
        done.append((new_id, old_id))
    d["renamed_fns"] = done
    return done


if __name__ == "__main__":
    import sys
    sys.path.insert(0, os.path.dirname(os.path.abspath(__file__)))
    import extract
    d = json.load(open(extract.extract("K2")))
    out = make_baseline(d)
    p = os.path.join(os.path.dirname(os.path.dirname(os.path.abspath(__file__))), "baseline_sigs.json")
    json.dump(out, open(p, "w"), indent=0, sort_keys=True)
    print("wrote", p, len(out))
