"""Rename transparency for private functions: a private, non-trait function of the reviewed tree that is absent from the current
tree, and a function of the current tree that is absent from the reviewed tree, are the same function under a new name when they
live in the same module / impl, have the same signature, and the pairing is unique both ways.  The current function (its id, its
closures' ids, and every call site and function-item reference to it) is then given its reviewed name before any analysis, so
that rules anchored on the reviewed name, obligation keys and the reviewed tables see the same program.  Nothing else is touched:
a function that changed its signature or moved is not paired (its rules fail closed with an anchor violation, as before)."""
import json
import os


def _sig(d, f):
    ts = d["types"]
    try:
        return "(%s) -> %s" % (", ".join(ts[i]["s"] for i in f.get("inputs", [])), ts[f["output"]]["s"] if f.get("output") is not None else "?")
    except (IndexError, KeyError, TypeError):
        return None


def baseline_sigs():
    bp = os.path.join(os.path.dirname(os.path.dirname(os.path.abspath(__file__))), "baseline_sigs.json")
    try:
        return json.load(open(bp))
    except (ValueError, OSError):
        return None


def make_baseline(d):
    out = {}
    for f in d["fns"]:
        if f.get("k") == "Closure":
            continue
        out[f["id"]] = {"sig": _sig(d, f), "private": not f.get("eff_pub") and f.get("impl_trait") is None and f.get("in_trait") is None}
    return out


def _adt_table(d):
    out = {}
    for a in d.get("adts", []):
        vs = a.get("variants", [])
        if a.get("k") != "Struct" or len(vs) != 1:
            continue
        out[a["path"]] = [[fl["n"], d["types"][fl["t"]]["s"] if isinstance(fl.get("t"), int) else "?", fl.get("vis")] for fl in vs[0]["fields"]]
    return out


def canonicalise_field_renames(d, base_adts):
    """a private struct field that has a new name (same struct, same position, same type, the old name gone, the new name used by
    no other type of the crate) is given its reviewed name in the ADT table, in every place projection and struct literal"""
    done = []
    cur = _adt_table(d)
    all_names = {}
    for path, fl in cur.items():
        for n, t, v in fl:
            all_names.setdefault(n, set()).add(path)
    for a in d.get("adts", []):
        for v in a.get("variants", []):
            if a.get("k") != "Struct":
                for fl in v["fields"]:
                    all_names.setdefault(fl["n"], set()).add(a["path"])
    base_names = set(n for fl in base_adts.values() for (n, t, v) in fl)
    cand = {}
    for path, old in base_adts.items():
        new = cur.get(path)
        if new is None or len(new) != len(old):
            continue
        for (on, ot, ov), (nn, nt, nv) in zip(old, new):
            if on != nn and ot == nt and ov != "pub" and nv != "pub" and on not in [x[0] for x in new] and nn not in base_names \
                    and not nn.isdigit():
                cand.setdefault(nn, []).append((path, on))
    ren = {}
    for nn, lst in cand.items():
        olds = set(on for (_, on) in lst)
        # one consistent renaming: every type that has the new name had the same old name at that position
        if len(olds) == 1 and set(p for (p, _) in lst) == all_names.get(nn, set()):
            ren[nn] = next(iter(olds))
            done.extend((p, nn, ren[nn]) for (p, _) in lst)
    if not ren:
        return done

    def fix(x):
        if isinstance(x, dict):
            if "f" in x and x.get("n") in ren and len(x) <= 4:
                x["n"] = ren[x["n"]]
            if x.get("k") == "agg" and isinstance(x.get("fields"), list):
                x["fields"] = [ren.get(n, n) for n in x["fields"]]
            for v in x.values():
                fix(v)
        elif isinstance(x, list):
            for v in x:
                fix(v)
    for a in d.get("adts", []):
        for v in a.get("variants", []):
            for fl in v["fields"]:
                if fl["n"] in ren and a["path"] in [p for (p, nn, on) in done if nn == fl["n"]]:
                    fl["n"] = ren[fl["n"]]
    for f in d["fns"]:
        if f.get("mir"):
            fix(f["mir"]["blocks"])
            for v in f["mir"].get("vars", []):
                fix(v)
    return done


def canonicalise_renames(d):
    base = baseline_sigs()
    d["renamed_fns"] = []
    if not base:
        return []
    if "__adts__" in base:
        d["renamed_fields"] = canonicalise_field_renames(d, base["__adts__"])
        base = {k: v for k, v in base.items() if k != "__adts__"}
    cur = set(f["id"] for f in d["fns"])
    missing = [i for i, v in base.items() if i not in cur and v.get("private") and v.get("sig")]
    if not missing:
        return []
    new = [f for f in d["fns"] if f["id"] not in base and f.get("k") != "Closure" and not f.get("eff_pub")
           and f.get("impl_trait") is None and f.get("in_trait") is None]
    pairs = []
    for f in new:
        prefix = f["id"].rsplit("::", 1)[0]
        sg = _sig(d, f)
        c = [m for m in missing if m.rsplit("::", 1)[0] == prefix and base[m]["sig"] == sg]
        if len(c) == 1:
            pairs.append((f, c[0]))
    # unique both ways
    by_old = {}
    for f, m in pairs:
        by_old.setdefault(m, []).append(f)
    done = []
    for m, fs in by_old.items():
        if len(fs) != 1:
            continue
        f = fs[0]
        old_id, new_id = m, f["id"]
        old_name, new_name = m.rsplit("::", 1)[1], f["name"]
        did = f["did"]
        f["id"], f["name"] = old_id, old_name
        for g in d["fns"]:
            if g["id"].startswith(new_id + "::"):
                g["id"] = old_id + g["id"][len(new_id):]
            mm = g.get("mir")
            if not mm:
                continue
            for b in mm["blocks"]:
                t = b["t"]
                if t["k"] in ("call", "tailcall"):
                    cf = t["f"]
                    if cf.get("did") == did or cf.get("rdid") == did:
                        for k in ("path", "full", "rpath", "rfull"):
                            v = cf.get(k)
                            if isinstance(v, str) and v.endswith("::" + new_name) or (isinstance(v, str) and ("::" + new_name + "::<") in v):
                                cf[k] = v.replace("::" + new_name, "::" + old_name)
                        if cf.get("name") == new_name:
                            cf["name"] = old_name
                    for a in t.get("args", []):
                        if a.get("k") == "const" and a.get("did") == did and isinstance(a.get("fn"), str):
                            a["fn"] = a["fn"].replace("::" + new_name, "::" + old_name)
                for s in b["s"]:
                    r = s.get("r")
                    if not r:
                        continue
                    for a in [r.get("a"), r.get("b")] + list(r.get("ops", [])):
                        if isinstance(a, dict) and a.get("k") == "const" and a.get("did") == did and isinstance(a.get("fn"), str):
                            a["fn"] = a["fn"].replace("::" + new_name, "::" + old_name)
                    if r.get("k") == "agg" and r.get("ak") == "closure" and isinstance(r.get("path"), str) and r["path"].startswith(new_id + "::"):
                        r["path"] = old_id + r["path"][len(new_id):]
        done.append((new_id, old_id))
    d["renamed_fns"] = done
    return done


if __name__ == "__main__":
    import sys
    sys.path.insert(0, os.path.dirname(os.path.abspath(__file__)))
    import extract
    d = json.load(open(extract.extract("K2")))
    out = make_baseline(d)
    out["__adts__"] = _adt_table(d)
    p = os.path.join(os.path.dirname(os.path.dirname(os.path.abspath(__file__))), "baseline_sigs.json")
    json.dump(out, open(p, "w"), indent=0, sort_keys=True)
    print("wrote", p, len(out))
