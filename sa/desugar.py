"""Canonicalisation of two iterator combinators into loops, on the MIR facts (before any analysis):

    iter.for_each(|x| body)          ==>   for x in iter { body }
    iter.try_for_each(|x| body)      ==>   for x in iter { body? }      (the combinator's value is threaded into the
                                                                         caller's own `?` when it is applied directly)

    iter.find(|x| p)                 ==>   loop { match next { None => break None, Some(x) => if p(&x) { break Some(x) } } }
    iter.any(|x| p) / iter.all(..)   ==>   the same with `true` / `false` results
    vec.extend(iter.map(|x| e))      ==>   for x in iter { vec.push(e) }
    opt.map(|x| e)                   ==>   match opt { None => None, Some(x) => Some(e) }      (branch-free closures only)

so that a loop and its combinator spelling are the same program for every rule (loop coverage, every-iteration guards,
byte counting, panic-edge analysis with the caller's facts).  Only closures constructed in the calling function and
passed directly are desugared; the closure's function is dropped from the program when this was its only use.
The transformation is purely structural (block/locals splicing); nothing is evaluated."""
import copy

FOR_EACH = "std::iter::Iterator::for_each"
TRY_FOR_EACH = "std::iter::Iterator::try_for_each"
FIND = "std::iter::Iterator::find"
ANY = "std::iter::Iterator::any"
ALL = "std::iter::Iterator::all"
OPT_MAP = "std::option::Option::<T>::map"
EXTEND = "std::iter::Extend::extend"
ITER_MAP = "std::iter::Iterator::map"
FOLD = "std::iter::Iterator::fold"
TRY_FOLD = "std::iter::Iterator::try_fold"
COLLECT = "std::iter::Iterator::collect"
UNZIP = "std::iter::Iterator::unzip"
LOOP_MODES = {FOR_EACH: "for_each", TRY_FOR_EACH: "try", FIND: "find", ANY: "any", ALL: "all"}
LN = 0


def _remap_place(p, L):
    if isinstance(p, int):
        return p + L
    q = dict(p)
    q["l"] = p["l"] + L
    proj = []
    for e in p["p"]:
        if isinstance(e, dict) and "ix" in e:
            e = dict(e)
            e["ix"] = e["ix"] + L
        proj.append(e)
    q["p"] = proj
    return q


def _remap_operand(o, L):
    if o.get("k") in ("copy", "move"):
        o = dict(o)
        o["p"] = _remap_place(o["p"], L)
    return o


def _remap_rvalue(r, L):
    r = dict(r)
    k = r["k"]
    if k in ("use", "repeat", "cast", "un"):
        r["a"] = _remap_operand(r["a"], L)
    elif k == "bin":
        r["a"] = _remap_operand(r["a"], L)
        r["b"] = _remap_operand(r["b"], L)
    elif k in ("ref", "rawptr", "discr"):
        r["p"] = _remap_place(r["p"], L)
    elif k == "agg":
        r["ops"] = [_remap_operand(x, L) for x in r["ops"]]
    return r


def _remap_stmt(s, L):
    s = dict(s)
    if "p" in s:
        s["p"] = _remap_place(s["p"], L)
    if "r" in s:
        s["r"] = _remap_rvalue(s["r"], L)
    return s


def _remap_term(t, L, B, ret_to):
    t = dict(t)
    k = t["k"]
    if k == "return":
        return {"k": "goto", "t": ret_to, "ln": t.get("ln", LN)}
    if k == "goto":
        t["t"] = t["t"] + B
    elif k == "switch":
        t["d"] = _remap_operand(t["d"], L)
        t["ts"] = [[v, b + B] for v, b in t["ts"]]
        t["else"] = t["else"] + B
    elif k == "drop":
        t["p"] = _remap_place(t["p"], L)
        t["t"] = t["t"] + B
    elif k in ("call", "tailcall"):
        t["args"] = [_remap_operand(x, L) for x in t["args"]]
        if "dest" in t:
            t["dest"] = _remap_place(t["dest"], L)
        if t.get("t") is not None:
            t["t"] = t["t"] + B
    elif k == "assert":
        t["c"] = _remap_operand(t["c"], L)
        t["ops"] = [_remap_operand(x, L) for x in t["ops"]]
        t["t"] = t["t"] + B
    return t


def _captures(m, cdef):
    """for the closure aggregate `cl = closure{op0, op1, ..}` at cdef: per captured field either ("ref", place, ref local)
    when the operand is a single-definition local holding `&place` / `&mut place`, or ("val", place) otherwise"""
    bi, si, _ = cdef
    ops = m["blocks"][bi]["s"][si]["r"].get("ops", [])
    out = []
    for op in ops:
        r = _local_of(op)
        if r is None:
            out.append(("val", op.get("p")) if op.get("k") in ("copy", "move") else None)
            continue
        defs = [st for b in m["blocks"] for st in b["s"] if st.get("k") == "assign" and st.get("p") == r]
        tdefs = [b for b in m["blocks"] if b["t"]["k"] == "call" and b["t"].get("dest") == r]
        if len(defs) == 1 and not tdefs and defs[0]["r"].get("k") == "ref":
            out.append(("ref", defs[0]["r"]["p"], r))
        else:
            out.append(("val", r))
    return out


def _join_place(base, rest):
    if not rest:
        return base
    if isinstance(base, int):
        return {"l": base, "p": list(rest)}
    return {"l": base["l"], "p": list(base["p"]) + list(rest)}


def _subst_env_place(p, ENV, env_is_ref, caps):
    """a place rooted in the spliced closure's environment, expressed on the caller's own variables"""
    if isinstance(p, int) or p.get("l") != ENV:
        return p
    proj = list(p["p"])
    i = 0
    if env_is_ref:
        if not proj or proj[0] != "*":
            return p
        i = 1
    if i >= len(proj) or not isinstance(proj[i], dict) or "f" not in proj[i]:
        return p
    k = proj[i]["f"]
    i += 1
    if not isinstance(k, int) or k >= len(caps) or caps[k] is None or caps[k][1] is None:
        return p
    c = caps[k]
    if c[0] == "ref":
        if i < len(proj) and proj[i] == "*":
            return _join_place(c[1], proj[i + 1:])       # *(env.k)  is the captured variable itself
        return _join_place(c[2], proj[i:])               # env.k     is the reference the caller took
    return _join_place(c[1], proj[i:])


def _inline_env(m, B, n, ENV, env_is_ref, caps):
    """express the spliced closure body (blocks B..B+n-1) on the caller's variables: environment fields become the
    captured places, and single-definition copies of a captured reference are read through"""
    new = m["blocks"][B:B + n]
    for nb in new:
        _map_places(nb, lambda pl: _subst_env_place(pl, ENV, env_is_ref, caps))
    refmap = dict((c[2], c[1]) for c in caps if c and c[0] == "ref")
    if not refmap:
        return
    ndefs = {}
    for nb in new:
        for st in nb["s"]:
            if st.get("k") == "assign" and isinstance(st.get("p"), int):
                ndefs[st["p"]] = ndefs.get(st["p"], 0) + 1
        if nb["t"]["k"] == "call" and isinstance(nb["t"].get("dest"), int):
            ndefs[nb["t"]["dest"]] = ndefs.get(nb["t"]["dest"], 0) + 2
    alias = {}
    for nb in new:
        for st in nb["s"]:
            if st.get("k") == "assign" and isinstance(st.get("p"), int) and ndefs.get(st["p"]) == 1 and st.get("r", {}).get("k") == "use":
                r = _local_of(st["r"]["a"])
                if r in refmap:
                    alias[st["p"]] = refmap[r]
    if not alias:
        return
    def through(pl):
        if isinstance(pl, dict) and pl.get("l") in alias and pl["p"] and pl["p"][0] == "*":
            return _join_place(alias[pl["l"]], pl["p"][1:])
        return pl
    for nb in new:
        _map_places(nb, through)


def _map_places(blk, fn):
    def op(o):
        if isinstance(o, dict) and o.get("k") in ("copy", "move"):
            o = dict(o)
            o["p"] = fn(o["p"])
        return o
    for st in blk["s"]:
        if "p" in st:
            st["p"] = fn(st["p"])
        r = st.get("r")
        if r:
            k = r["k"]
            if k in ("use", "repeat", "cast", "un"):
                r["a"] = op(r["a"])
            elif k == "bin":
                r["a"], r["b"] = op(r["a"]), op(r["b"])
            elif k in ("ref", "rawptr", "discr"):
                r["p"] = fn(r["p"])
            elif k == "agg":
                r["ops"] = [op(x) for x in r["ops"]]
    t = blk["t"]
    k = t["k"]
    if k == "switch":
        t["d"] = op(t["d"])
    elif k == "drop":
        t["p"] = fn(t["p"])
    elif k in ("call", "tailcall"):
        t["args"] = [op(x) for x in t["args"]]
        if "dest" in t and t["dest"] is not None:
            t["dest"] = fn(t["dest"])
    elif k == "assert":
        t["c"] = op(t["c"])
        t["ops"] = [op(x) for x in t["ops"]]


def _passthrough_stmt(st, ret_local):
    """statements that cannot change what a closure/helper returns: reads of a discriminant and constant stores into other locals
    (drop flags)"""
    r = st.get("r", {})
    if r.get("k") == "discr":
        return True
    if st.get("k") == "assign" and r.get("k") == "use" and r.get("a", {}).get("k") == "const" and isinstance(st.get("p"), int) and st.get("p") != ret_local:
        return True
    return st.get("k") not in ("assign",) and "r" not in st


def _local_of(op):
    if op.get("k") in ("copy", "move") and isinstance(op["p"], int):
        return op["p"]
    return None


def _closure_def(m, local):
    """(block, stmt index, closure did) of the single `local = closure{..}` definition in body m"""
    found = []
    for bi, b in enumerate(m["blocks"]):
        for si, s in enumerate(b["s"]):
            if s.get("k") == "assign" and s.get("p") == local:
                found.append((bi, si, s))
        t = b["t"]
        if t["k"] == "call" and t.get("dest") == local:
            found.append((bi, "term", None))
    if len(found) != 1 or found[0][2] is None:
        return None
    s = found[0][2]
    r = s.get("r", {})
    if r.get("k") == "agg" and r.get("ak") == "closure" and r.get("did") is not None:
        return found[0][0], found[0][1], r["did"]
    return None


def _caller_try(m, dest, target):
    """if block `target` is `x = Try::branch(move dest) -> y` and y is `d = discr(x); switch d [0->cont, 1->brk]`,
    return (x local, cont block, brk block)"""
    if target is None or not isinstance(dest, int):
        return None
    b = m["blocks"][target]
    t = b["t"]
    if b["s"] or t["k"] != "call" or t["f"].get("path") != "std::ops::Try::branch" or len(t["args"]) != 1:
        return None
    if _local_of(t["args"][0]) != dest or not isinstance(t.get("dest"), int) or t.get("t") is None:
        return None
    x = t["dest"]
    y = m["blocks"][t["t"]]
    ds = [st for st in y["s"] if st.get("r", {}).get("k") == "discr" and st["r"]["p"] == x]
    if len(ds) != 1 or any(not _passthrough_stmt(st, -1) for st in y["s"]):        # drop-flag stores may sit beside the discriminant read
        return None
    sw = y["t"]
    if sw["k"] != "switch" or _local_of(sw["d"]) != ds[0]["p"]:
        return None
    tab = dict((v, blk) for v, blk in sw["ts"])
    if 0 in tab and 1 in tab:
        return x, tab[0], tab[1]
    return None


def _env_rvalue(types, cm, cl):
    """the closure's environment argument: `&mut cl` / `&cl` for FnMut / Fn closures, `move cl` for FnOnce"""
    ety = types[cm["locals"][1]]
    if ety.get("k") == "ref":
        return {"k": "ref", "mut": bool(ety.get("mut")), "p": cl}
    return {"k": "use", "a": {"k": "move", "p": cl}}


def _option_map(m, blk, t, cl, cm, types, OPT, isize, cdef=None):
    """splice `dest = Option::map(opt, closure)` as  match opt { None => None, Some(x) => Some(closure(x)) }"""
    ln = t.get("ln", LN)
    dest, target = t["dest"], t["t"]
    L = len(m["locals"])
    m["locals"] = m["locals"] + list(cm["locals"])
    m["locals"].append(OPT)
    OPTL = len(m["locals"]) - 1
    m["locals"].append(isize)
    DSC = len(m["locals"]) - 1
    ENV, ITEM, RET = L + 1, L + 2, L + 0
    item_ty = cm["locals"][2]
    B = len(m["blocks"])
    n = len(cm["blocks"])
    SOME_B, CRET, NONE_B, UNR = B + n, B + n + 1, B + n + 2, B + n + 3
    blk["s"] = blk["s"] + [
        {"k": "assign", "p": OPTL, "r": {"k": "use", "a": t["args"][0]}, "ln": ln},
        {"k": "assign", "p": ENV, "r": _env_rvalue(types, cm, cl), "ln": ln},
        {"k": "assign", "p": DSC, "r": {"k": "discr", "p": OPTL}, "ln": ln},
    ]
    blk["t"] = {"k": "switch", "d": {"k": "move", "p": DSC}, "ts": [[0, NONE_B], [1, SOME_B]], "else": UNR, "ln": ln}
    for cb in cm["blocks"]:
        m["blocks"].append({"s": [_remap_stmt(s, L) for s in cb["s"]], "t": _remap_term(cb["t"], L, B, CRET), "c": cb.get("c", False)})
    if cdef is not None:
        _inline_env(m, B, n, ENV, types[cm["locals"][1]].get("k") == "ref", _captures(m, cdef))
    def optv(vi, ops):
        return {"k": "agg", "ops": ops, "ak": "adt", "path": "std::option::Option", "did": None, "vi": vi, "vn": ("None", "Some")[vi],
                "fields": ["0"] if vi else [], "args": []}
    m["blocks"].append({"s": [{"k": "assign", "p": ITEM, "r": {"k": "use", "a": {"k": "move", "p": {"l": OPTL, "p": [{"dc": 1, "n": "Some"}, {"f": 0, "n": "0", "t": item_ty}]}}}, "ln": ln}],
                        "t": {"k": "goto", "t": B, "ln": ln}, "c": False})                                                   # SOME_B
    m["blocks"].append({"s": [{"k": "assign", "p": dest, "r": optv(1, [{"k": "move", "p": RET}]), "ln": ln}],
                        "t": {"k": "goto", "t": target, "ln": ln}, "c": False})                                              # CRET
    m["blocks"].append({"s": [{"k": "assign", "p": dest, "r": optv(0, []), "ln": ln}], "t": {"k": "goto", "t": target, "ln": ln}, "c": False})   # NONE_B
    m["blocks"].append({"s": [], "t": {"k": "unreachable", "ln": ln}, "c": False})                                          # UNR
    return L


def desugar(d):
    """rewrite d['fns'] in place; returns the number of desugared call sites"""
    by_did = {f["did"]: f for f in d["fns"]}
    types = d["types"]
    isize = next((i for i, t in enumerate(types) if t.get("s") == "isize"), 0)
    BOOL = next((i for i, t in enumerate(types) if t.get("s") == "bool"), 0)
    UNIT_TY = next((i for i, t in enumerate(types) if t.get("s") == "()"), 0)
    # a Vec::push callee descriptor to reuse (any call site of the program)
    PUSH = next((b["t"]["f"] for f in d["fns"] if f.get("mir") for b in f["mir"]["blocks"]
                 if b["t"]["k"] == "call" and b["t"]["f"].get("path") == "std::vec::Vec::<T, A>::push"), None)
    VEC_NEW = next((b["t"]["f"] for f in d["fns"] if f.get("mir") for b in f["mir"]["blocks"]
                    if b["t"]["k"] == "call" and b["t"]["f"].get("path") == "std::vec::Vec::<T>::new"), None)
    types.append({"s": "std::option::Option<{item}>", "k": "adt", "path": "std::option::Option", "did": None, "args": [],
                  "variants": ["None", "Some"], "discrs": ["0", "1"], "ak": "enum"})
    OPT = len(types) - 1
    types.append({"s": "std::ops::ControlFlow<{residual}, ()>", "k": "adt", "path": "std::ops::ControlFlow", "did": None, "args": [],
                  "variants": ["Continue", "Break"], "discrs": ["0", "1"], "ak": "enum"})
    CF = len(types) - 1
    n_sites = 0
    consumed = {}
    for f in d["fns"]:
        m = f.get("mir")
        if not m:
            continue
        changed = True
        guard = 0
        while changed and guard < 8:
            changed = False
            guard += 1
            for bi, blk in enumerate(m["blocks"]):
                t = blk["t"]
                is_fold = t["k"] == "call" and t["f"].get("path") in (FOLD, TRY_FOLD) and len(t["args"]) == 3
                is_try_fold = is_fold and t["f"].get("path") == TRY_FOLD
                is_collect = False
                if t["k"] == "call" and t["f"].get("path") in (COLLECT, UNZIP) and len(t["args"]) == 1 and t.get("t") is not None and not blk.get("c") \
                        and PUSH is not None and VEC_NEW is not None and isinstance(t.get("dest"), int):
                    # vec = iter.map(closure).collect() / (a, b) = iter.map(closure).unzip(): only into plain Vecs (collecting into
                    # a Result/Option short-circuits and is left alone)
                    dty = types[m["locals"][t["dest"]]]
                    if t["f"]["path"] == COLLECT:
                        vec_tys = [m["locals"][t["dest"]]] if dty.get("k") == "adt" and dty.get("path") == "std::vec::Vec" else None
                    else:
                        vec_tys = list(dty.get("ts", [])) if dty.get("k") == "tuple" and len(dty.get("ts", [])) == 2 and \
                            all(types[x].get("k") == "adt" and types[x].get("path") == "std::vec::Vec" for x in dty["ts"]) else None
                    src = _local_of(t["args"][0])
                    if vec_tys and src is not None:
                        ms = [(i2, b2) for i2, b2 in enumerate(m["blocks"]) if b2["t"]["k"] == "call" and b2["t"].get("dest") == src]
                        uses = sum(1 for b2 in m["blocks"] for a in (b2["t"].get("args") or []) if _local_of(a) == src)
                        if len(ms) == 1 and uses == 1 and ms[0][1]["t"]["f"].get("path") == ITER_MAP and len(ms[0][1]["t"]["args"]) == 2 \
                                and ms[0][1]["t"].get("t") is not None and not any(st.get("p") == src for b2 in m["blocks"] for st in b2["s"]):
                            is_collect = True
                            collect_map_site = ms[0][1]
                if t["k"] != "call" or (t["f"].get("path") not in LOOP_MODES and t["f"].get("path") not in (OPT_MAP, EXTEND) and not is_fold and not is_collect) \
                        or (len(t["args"]) != 2 and not is_fold and not is_collect) or t.get("t") is None or blk.get("c"):
                    continue
                cl = _local_of(collect_map_site["t"]["args"][1]) if is_collect else _local_of(t["args"][2 if is_fold else 1])
                if cl is None:
                    continue
                it_op = collect_map_site["t"]["args"][0] if is_collect else t["args"][0]
                map_site = None
                if t["f"]["path"] == EXTEND:
                    # vec.extend(iter.map(closure)): the argument is the single-use result of Iterator::map, the receiver a Vec
                    if not str(t["f"].get("rpath", "")).startswith("<std::vec::Vec<") or PUSH is None:
                        continue
                    ms = [(i2, b2) for i2, b2 in enumerate(m["blocks"]) if b2["t"]["k"] == "call" and b2["t"].get("dest") == cl]
                    uses = sum(1 for b2 in m["blocks"] for a in (b2["t"].get("args") or []) if _local_of(a) == cl)
                    if len(ms) != 1 or uses != 1 or ms[0][1]["t"]["f"].get("path") != ITER_MAP or len(ms[0][1]["t"]["args"]) != 2 \
                            or ms[0][1]["t"].get("t") is None or any(st.get("p") == cl for b2 in m["blocks"] for st in b2["s"]):
                        continue
                    map_site = ms[0][1]
                    it_op = map_site["t"]["args"][0]
                    cl = _local_of(map_site["t"]["args"][1])
                    if cl is None:
                        continue
                cdef = _closure_def(m, cl)
                if cdef is None:
                    continue
                cf = by_did.get(cdef[2])
                if cf is None or not cf.get("mir") or cf["mir"]["argc"] != (3 if is_fold else 2):
                    continue
                cm = cf["mir"]
                if t["f"]["path"] == OPT_MAP:
                    # only expression-like closures (no branches, no loops): splicing them is plain inlining of an expression.
                    # Larger closures stay calls (the dependence engine analyses them as functions with their own summaries).
                    if any(cb["t"]["k"] == "switch" for cb in cm["blocks"] if not cb.get("c")):
                        continue
                    L0 = _option_map(m, blk, t, cl, cm, types, OPT, isize, cdef)
                    for v in cm.get("vars", []):
                        m["vars"].append({"n": v["n"], "p": _remap_place(v["p"], L0)})
                    for g2 in d["fns"]:
                        if g2.get("parent") == cdef[2]:
                            g2["parent"] = f["did"]
                    consumed[cdef[2]] = consumed.get(cdef[2], 0) + 1
                    n_sites += 1
                    changed = True
                    break
                mode = "collect" if is_collect else "try" if is_try_fold else "fold" if is_fold else LOOP_MODES.get(t["f"]["path"], "extend")
                is_try = mode == "try"
                L = len(m["locals"])
                m["locals"] = m["locals"] + list(cm["locals"])
                # extra locals: iterator, &mut iterator, next result, discriminant
                def new_local(ty):
                    m["locals"].append(ty)
                    return len(m["locals"]) - 1
                it_ty = t["f"]["args"][0]["t"] if t["f"].get("args") else 0
                if is_collect:
                    it_ty = collect_map_site["t"]["f"]["args"][0]["t"] if collect_map_site["t"]["f"].get("args") else 0
                    collect_map_site["t"] = {"k": "goto", "t": collect_map_site["t"]["t"], "ln": collect_map_site["t"].get("ln", LN)}
                if map_site is not None:
                    it_ty = map_site["t"]["f"]["args"][0]["t"] if map_site["t"]["f"].get("args") else 0
                    vec_op = dict(t["args"][0], k="copy")
                    map_site["t"] = {"k": "goto", "t": map_site["t"]["t"], "ln": map_site["t"].get("ln", LN)}
                IT = new_local(it_ty)
                m.setdefault("vars", []).append({"n": "iter", "p": IT})      # like a `for` loop's iterator variable
                RIT = new_local(it_ty)
                NXT = new_local(OPT)
                DSC = new_local(isize)
                ENV, ITEM, RET = L + 1, L + 2, L + 0
                item_ty = cm["locals"][2]
                if is_fold:
                    ACC, ITEM = L + 2, L + 3
                    item_ty = cm["locals"][3]
                B = len(m["blocks"])          # closure blocks go to B .. B+n-1
                n = len(cm["blocks"])
                H, S, B0, CRET, DONE, UNR = B + n, B + n + 1, B + n + 2, B + n + 3, B + n + 4, B + n + 5
                ln = t.get("ln", LN)
                dest, target = t["dest"], t["t"]
                thread = _caller_try(m, dest, target) if is_try else None
                # 1. the call site: materialise iterator and environment, jump to the loop header
                blk["s"] = blk["s"] + [
                    {"k": "assign", "p": IT, "r": {"k": "use", "a": it_op}, "ln": ln},
                    {"k": "assign", "p": ENV, "r": _env_rvalue(types, cm, cl), "ln": ln},
                ]
                if is_fold:
                    blk["s"] = blk["s"] + [{"k": "assign", "p": ACC, "r": {"k": "use", "a": t["args"][1]}, "ln": ln}]
                blk["t"] = {"k": "goto", "t": H, "ln": ln}
                # 2. closure body
                for cb in cm["blocks"]:
                    m["blocks"].append({"s": [_remap_stmt(s, L) for s in cb["s"]], "t": _remap_term(cb["t"], L, B, CRET), "c": cb.get("c", False)})
                _inline_env(m, B, n, ENV, types[cm["locals"][1]].get("k") == "ref", _captures(m, cdef))
                # 3. loop skeleton
                nextf = {"path": "std::iter::Iterator::next", "full": "<%s as std::iter::Iterator>::next" % types[it_ty].get("s", "desugared"), "did": None,
                         "args": [{"t": it_ty}],
                         "name": "next", "trait": "std::iter::Iterator"}
                m["blocks"].append({"s": [{"k": "assign", "p": RIT, "r": {"k": "ref", "mut": True, "p": IT}, "ln": ln}],
                                    "t": {"k": "call", "f": nextf, "args": [{"k": "move", "p": RIT}], "dest": NXT, "t": S,
                                                   "fl": [ln if isinstance(ln, int) else ln[0], "desugar:ForLoop"], "ln": ln}, "c": False})          # H
                m["blocks"].append({"s": [{"k": "assign", "p": DSC, "r": {"k": "discr", "p": NXT}, "ln": ln}],
                                    "t": {"k": "switch", "d": {"k": "move", "p": DSC}, "ts": [[0, DONE], [1, B0]], "else": UNR, "ln": ln}, "c": False})   # S
                if mode == "find":
                    pointee = types[item_ty].get("t", 0) if types[item_ty].get("k") == "ref" else 0
                    ITM = new_local(pointee)
                    m["blocks"].append({"s": [{"k": "assign", "p": ITM, "r": {"k": "use", "a": {"k": "move", "p": {"l": NXT, "p": [{"dc": 1, "n": "Some"}, {"f": 0, "n": "0", "t": pointee}]}}}, "ln": ln},
                                              {"k": "assign", "p": ITEM, "r": {"k": "ref", "mut": False, "p": ITM}, "ln": ln}],
                                        "t": {"k": "goto", "t": B, "ln": ln}, "c": False})                                                              # B0
                else:
                    m["blocks"].append({"s": [{"k": "assign", "p": ITEM, "r": {"k": "use", "a": {"k": "move", "p": {"l": NXT, "p": [{"dc": 1, "n": "Some"}, {"f": 0, "n": "0", "t": item_ty}]}}}, "ln": ln},
                                              ],
                                        "t": {"k": "goto", "t": B, "ln": ln}, "c": False})                                                              # B0
                if mode == "extend":
                    UNIT = new_local(UNIT_TY)
                    m["blocks"].append({"s": [], "t": {"k": "call", "f": copy.deepcopy(PUSH), "args": [vec_op, {"k": "move", "p": RET}], "dest": UNIT, "t": H,
                                                       "fl": ln, "ln": ln}, "c": False})                                                                # CRET
                    m["blocks"].append({"s": [{"k": "assign", "p": dest, "r": {"k": "agg", "ops": [], "ak": "tuple"}, "ln": ln}],
                                        "t": {"k": "goto", "t": target, "ln": ln}, "c": False})                                                         # DONE
                    m["blocks"].append({"s": [], "t": {"k": "unreachable", "ln": ln}, "c": False})                                                     # UNR
                elif mode in ("find", "any", "all"):
                    FOUND = UNR + 1
                    tt, ff = {"k": "const", "ty": BOOL, "v": 1}, {"k": "const", "ty": BOOL, "v": 0}
                    def optv(vi, ops):
                        return {"k": "agg", "ops": ops, "ak": "adt", "path": "std::option::Option", "did": None, "vi": vi, "vn": ("None", "Some")[vi],
                                "fields": ["0"] if vi else [], "args": []}
                    if mode == "find":
                        hit, miss = optv(1, [{"k": "move", "p": ITM}]), optv(0, [])
                    elif mode == "any":
                        hit, miss = {"k": "use", "a": tt}, {"k": "use", "a": ff}
                    else:
                        hit, miss = {"k": "use", "a": ff}, {"k": "use", "a": tt}
                    on0, on1 = (FOUND, H) if mode == "all" else (H, FOUND)
                    m["blocks"].append({"s": [], "t": {"k": "switch", "d": {"k": "move", "p": RET}, "ts": [[0, on0]], "else": on1, "ln": ln}, "c": False})  # CRET
                    m["blocks"].append({"s": [{"k": "assign", "p": dest, "r": miss, "ln": ln}], "t": {"k": "goto", "t": target, "ln": ln}, "c": False})     # DONE
                    m["blocks"].append({"s": [], "t": {"k": "unreachable", "ln": ln}, "c": False})                                                         # UNR
                    m["blocks"].append({"s": [{"k": "assign", "p": dest, "r": hit, "ln": ln}], "t": {"k": "goto", "t": target, "ln": ln}, "c": False})      # FOUND
                elif mode == "collect":
                    # CRET: push the mapped value(s); DONE: the vector(s) are the result.  The vectors are created at the call site.
                    VS = [new_local(vt) for vt in vec_tys]
                    UNITS = [new_local(UNIT_TY) for _ in vec_tys]
                    RVS = [new_local(vt) for vt in vec_tys]
                    # creation: chain of Vec::new calls in fresh blocks placed after the fixed tail (CRET.., DONE, UNR)
                    ntail = len(vec_tys)          # CRET blocks
                    # layout: CRET_0 .. CRET_{k-1} (pushes), DONE, UNR, NEW_0 .. NEW_{k-1}
                    k = len(vec_tys)
                    CR = [B + n + 3 + i for i in range(k)]
                    DONE_C, UNR_C = B + n + 3 + k, B + n + 4 + k
                    NEWB = [B + n + 5 + k + i for i in range(k)]
                    # fix the targets fixed earlier under the default layout (H, S, B0 are unchanged; CRET=B+n+3 is CR[0])
                    m["blocks"][S]["t"]["ts"] = [[0, DONE_C], [1, B0]]
                    m["blocks"][S]["t"]["else"] = UNR_C
                    for i in range(k):
                        val = {"k": "move", "p": RET} if k == 1 else {"k": "move", "p": {"l": RET, "p": [{"f": i, "n": str(i), "t": 0}]}}
                        m["blocks"].append({"s": [{"k": "assign", "p": RVS[i], "r": {"k": "ref", "mut": True, "p": VS[i]}, "ln": ln}],
                                            "t": {"k": "call", "f": copy.deepcopy(PUSH), "args": [{"k": "move", "p": RVS[i]}, val], "dest": UNITS[i],
                                                  "t": CR[i + 1] if i + 1 < k else H, "fl": ln, "ln": ln}, "c": False})                                 # CRET_i
                    res = {"k": "use", "a": {"k": "move", "p": VS[0]}} if k == 1 else {"k": "agg", "ops": [{"k": "move", "p": v} for v in VS], "ak": "tuple"}
                    m["blocks"].append({"s": [{"k": "assign", "p": dest, "r": res, "ln": ln}], "t": {"k": "goto", "t": target, "ln": ln}, "c": False})     # DONE
                    m["blocks"].append({"s": [], "t": {"k": "unreachable", "ln": ln}, "c": False})                                                       # UNR
                    # the vector is *defined* as the collection of the iterator (a synthetic `collect(iter)` call, so that its term still
                    # names what it was collected from); the loop below then shows how each element is produced
                    collf = {"path": t["f"]["path"], "full": "<desugared as std::iter::Iterator>::%s" % t["f"]["path"].split("::")[-1], "did": None,
                             "args": [], "name": t["f"]["path"].split("::")[-1], "trait": "std::iter::Iterator"}
                    for i in range(k):
                        m["blocks"].append({"s": [], "t": {"k": "call", "f": copy.deepcopy(collf), "args": [dict(it_op, k="copy") if it_op.get("k") == "move" else it_op],
                                                           "dest": VS[i], "t": NEWB[i + 1] if i + 1 < k else H, "fl": ln, "ln": ln}, "c": False})                        # NEW_i
                    blk["t"] = {"k": "goto", "t": NEWB[0], "ln": ln}
                elif mode == "fold":
                    m["blocks"].append({"s": [{"k": "assign", "p": ACC, "r": {"k": "use", "a": {"k": "move", "p": RET}}, "ln": ln}],
                                        "t": {"k": "goto", "t": H, "ln": ln}, "c": False})                                                              # CRET
                    m["blocks"].append({"s": [{"k": "assign", "p": dest, "r": {"k": "use", "a": {"k": "move", "p": ACC}}, "ln": ln}],
                                        "t": {"k": "goto", "t": target, "ln": ln}, "c": False})                                                         # DONE
                    m["blocks"].append({"s": [], "t": {"k": "unreachable", "ln": ln}, "c": False})                                                     # UNR
                elif not is_try:
                    m["blocks"].append({"s": [], "t": {"k": "goto", "t": H, "ln": ln}, "c": False})                                                    # CRET
                    m["blocks"].append({"s": [{"k": "assign", "p": dest, "r": {"k": "agg", "ops": [], "ak": "tuple"}, "ln": ln}],
                                        "t": {"k": "goto", "t": target, "ln": ln}, "c": False})                                                         # DONE
                    m["blocks"].append({"s": [], "t": {"k": "unreachable", "ln": ln}, "c": False})                                                     # UNR
                else:
                    BR = new_local(CF)
                    DS2 = new_local(isize)
                    SW2, BRK = UNR + 1, UNR + 2
                    ACCSET = UNR + 3
                    branchf = {"path": "std::ops::Try::branch", "full": "<desugared as std::ops::Try>::branch", "did": None, "args": [],
                               "name": "branch", "trait": "std::ops::Try"}
                    m["blocks"].append({"s": [], "t": {"k": "call", "f": branchf, "args": [{"k": "move", "p": RET}], "dest": BR, "t": SW2,
                                                       "fl": [ln if isinstance(ln, int) else ln[0], "desugar:QuestionMark"], "ln": ln}, "c": False})   # CRET
                    done_payload = {"k": "move", "p": ACC} if is_try_fold else {"k": "const", "ty": 8, "d": "()"}
                    if thread is not None:
                        x, cont, brk = thread
                        m["blocks"].append({"s": [{"k": "assign", "p": x, "r": {"k": "agg", "ops": [done_payload], "ak": "adt",
                                                                                   "path": "std::ops::ControlFlow", "did": None, "vi": 0, "vn": "Continue", "fields": ["0"], "args": []}, "ln": ln}],
                                            "t": {"k": "goto", "t": cont, "ln": ln}, "c": False})                                                       # DONE
                    else:
                        outf = {"path": "std::ops::Try::from_output", "full": "<desugared as std::ops::Try>::from_output", "did": None, "args": [],
                                "name": "from_output", "trait": "std::ops::Try"}
                        m["blocks"].append({"s": [], "t": {"k": "call", "f": outf, "args": [done_payload], "dest": dest, "t": target,
                                                           "fl": ln, "ln": ln}, "c": False})                                                          # DONE
                    m["blocks"].append({"s": [], "t": {"k": "unreachable", "ln": ln}, "c": False})                                                     # UNR
                    m["blocks"].append({"s": [{"k": "assign", "p": DS2, "r": {"k": "discr", "p": BR}, "ln": ln}],
                                        "t": {"k": "switch", "d": {"k": "move", "p": DS2}, "ts": [[0, ACCSET if is_try_fold else H], [1, BRK]], "else": UNR, "ln": ln}, "c": False})  # SW2
                    resid = {"k": "move", "p": {"l": BR, "p": [{"dc": 1, "n": "Break"}, {"f": 0, "n": "0", "t": 0}]}}
                    if thread is not None:
                        x, cont, brk = thread
                        m["blocks"].append({"s": [{"k": "assign", "p": x, "r": {"k": "agg", "ops": [resid], "ak": "adt", "path": "std::ops::ControlFlow", "did": None,
                                                                                   "vi": 1, "vn": "Break", "fields": ["0"], "args": []}, "ln": ln}],
                                            "t": {"k": "goto", "t": brk, "ln": ln}, "c": False})                                                        # BRK
                    else:
                        frf = {"path": "std::ops::FromResidual::from_residual", "full": "<desugared as std::ops::FromResidual>::from_residual", "did": None,
                               "args": [], "name": "from_residual", "trait": "std::ops::FromResidual"}
                        m["blocks"].append({"s": [], "t": {"k": "call", "f": frf, "args": [resid], "dest": dest, "t": target, "fl": ln, "ln": ln}, "c": False})  # BRK
                if is_try_fold:
                    m["blocks"].append({"s": [{"k": "assign", "p": ACC, "r": {"k": "use", "a": {"k": "move", "p": {"l": BR, "p": [{"dc": 0, "n": "Continue"}, {"f": 0, "n": "0", "t": cm["locals"][2]}]}}}, "ln": ln}],
                                        "t": {"k": "goto", "t": H, "ln": ln}, "c": False})                                                              # ACCSET
                # path-precise exits of a try_for_each body: a block that builds the error with from_residual leaves the loop
                # as an error directly; a block that builds Ok(())/Continue(())/Some(()) continues with the next item.
                if is_try:
                    rb_set = set(B + i for i, cb in enumerate(cm["blocks"]) if cb["t"]["k"] == "return")
                    # blocks that only fall through (drops / gotos, no statements) into the return block count as the return block
                    grew = True
                    while grew:
                        grew = False
                        for i, cb in enumerate(cm["blocks"]):
                            if (B + i) in rb_set or any(not _passthrough_stmt(st, 0) for st in cb["s"]):
                                continue
                            ct = cb["t"]
                            if ct["k"] in ("goto", "drop") and (ct["t"] + B) in rb_set:
                                rb_set.add(B + i)
                                grew = True
                    for i in range(n):
                        X = m["blocks"][B + i]
                        xt = X["t"]
                        if xt["k"] == "call" and xt["f"].get("path") == "std::ops::FromResidual::from_residual" and xt.get("dest") == RET \
                                and xt.get("t") in rb_set and len(xt["args"]) == 1:
                            if thread is not None:
                                x, cont, brk = thread
                                X["s"] = X["s"] + [{"k": "assign", "p": x, "r": {"k": "agg", "ops": [xt["args"][0]], "ak": "adt", "path": "std::ops::ControlFlow",
                                                                                  "did": None, "vi": 1, "vn": "Break", "fields": ["0"], "args": []}, "ln": ln}]
                                X["t"] = {"k": "goto", "t": brk, "ln": ln}
                            else:
                                xt["dest"] = dest
                                xt["t"] = target
                        elif xt["k"] in ("goto", "drop") and xt["t"] in rb_set and X["s"]:
                            last = X["s"][-1]
                            r = last.get("r", {})
                            if last.get("p") == RET and r.get("k") == "agg" and r.get("ak") == "adt" and r.get("vn") in ("Ok", "Continue", "Some"):
                                if is_try_fold:
                                    if len(r.get("ops", [])) != 1:
                                        continue
                                    X["s"] = X["s"][:-1] + [{"k": "assign", "p": ACC, "r": {"k": "use", "a": r["ops"][0]}, "ln": last.get("ln", ln)}]
                                X["t"] = {"k": "goto", "t": H, "ln": ln}
                            elif last.get("p") == RET and r.get("k") == "agg" and r.get("ak") == "adt" and r.get("vn") in ("Err", "Break", "None"):
                                # an explicit `return Err(e)` / `Err(e)` tail value of the closure body leaves the loop as that error
                                if thread is not None:
                                    x, cont, brk = thread
                                    X["s"] = X["s"] + [{"k": "assign", "p": x, "r": {"k": "agg", "ops": [{"k": "move", "p": RET}], "ak": "adt", "path": "std::ops::ControlFlow",
                                                                                      "did": None, "vi": 1, "vn": "Break", "fields": ["0"], "args": []}, "ln": ln}]
                                    X["t"] = {"k": "goto", "t": brk, "ln": ln}
                                else:
                                    X["s"] = X["s"] + [{"k": "assign", "p": dest, "r": {"k": "use", "a": {"k": "move", "p": RET}}, "ln": ln}]
                                    X["t"] = {"k": "goto", "t": target, "ln": ln}
                # names of the closure's variables (item name etc.) are kept for messages
                for v in cm.get("vars", []):
                    m["vars"].append({"n": v["n"], "p": _remap_place(v["p"], L)})
                for g2 in d["fns"]:
                    if g2.get("parent") == cdef[2]:
                        g2["parent"] = f["did"]
                consumed[cdef[2]] = consumed.get(cdef[2], 0) + 1
                n_sites += 1
                changed = True
                break
    # drop closure functions that are no longer called as closures (they now live inside their callers)
    if consumed:
        d["fns"] = [f for f in d["fns"] if not (f["did"] in consumed)]
    d["desugared_closures"] = sorted(consumed)
    d["threaded_switches"] = 0
    for f in d["fns"]:
        if f.get("mir"):
            for _ in range(4):
                k = thread_variant_switches(f["mir"]) + thread_const_switches(f["mir"])
                d["threaded_switches"] += k
                if not k:
                    break
    return n_sites


def _preds(blocks, bi):
    out = []
    for pi, P in enumerate(blocks):
        pt = P["t"]
        tg = []
        if pt["k"] == "goto":
            tg = [pt["t"]]
        elif pt["k"] == "switch":
            tg = [b for _, b in pt["ts"]] + [pt["else"]]
        elif pt["k"] in ("call", "drop", "assert", "tailcall"):
            tg = [pt.get("t")]
        if bi in tg:
            out.append(pi)
    return out


STD_ENUMS = ("std::option::Option", "std::result::Result", "std::ops::ControlFlow")


def thread_variant_switches(m):
    """a block `[q = move r;] d = discriminant(q); switch d` (only plain statements) all of whose predecessors end
    `r = <Variant>(..); goto B` is bypassed: each predecessor takes B's statements (with `move r` replaced by the
    aggregate it just built) and jumps to the arm of its variant.  Only Option / Result / ControlFlow (variant index =
    discriminant).  This makes `iter.find(..).map(..)`, once spliced, the same control flow as the loop with an early return."""
    blocks = m["blocks"]
    n = 0
    for bi, B in enumerate(blocks):
        t = B["t"]
        if bi == 0 or t["k"] != "switch" or B.get("c") or not B["s"]:
            continue
        dl = _local_of(t["d"])
        if dl is None:
            continue
        if any(st.get("k") != "assign" or not isinstance(st.get("p"), int) or st.get("r", {}).get("k") not in ("use", "discr", "ref", "agg", "cast", "bin", "un") for st in B["s"]):
            continue
        dsc = [st for st in B["s"] if st["p"] == dl]
        if len(dsc) != 1 or dsc[0]["r"]["k"] != "discr" or not isinstance(dsc[0]["r"]["p"], int):
            continue
        q = dsc[0]["r"]["p"]
        r = q
        qd = [st for st in B["s"] if st["p"] == q]
        if len(qd) == 1 and qd[0]["r"]["k"] == "use" and _local_of(qd[0]["r"]["a"]) is not None:
            r = _local_of(qd[0]["r"]["a"])
        elif qd:
            continue
        preds = _preds(blocks, bi)
        plan = []
        for pi in preds:
            P = blocks[pi]
            if P["t"]["k"] != "goto" or pi == bi:
                plan = None
                break
            agg = None
            for st in reversed(P["s"]):
                if st.get("k") == "assign" and st.get("p") == r:
                    rv = st.get("r", {})
                    if rv.get("k") == "agg" and rv.get("ak") == "adt" and rv.get("path") in STD_ENUMS and isinstance(rv.get("vi"), int):
                        agg = rv
                    break
                if st.get("k") == "assign" and isinstance(st.get("p"), dict) and st["p"].get("l") == r:
                    break
            if agg is None:
                plan = None
                break
            plan.append((pi, agg))
        if not plan:
            continue
        for pi, agg in plan:
            P = blocks[pi]
            extra = []
            for st in B["s"]:
                st2 = dict(st)
                if r != q and st["p"] == q:
                    st2["r"] = agg                      # q = <the aggregate just built>
                extra.append(st2)
            P["s"] = P["s"] + extra
            tgt = next((b for val, b in t["ts"] if val == agg["vi"]), t["else"])
            P["t"] = dict(P["t"], t=tgt)
            n += 1
        B["s"] = []
        B["t"] = {"k": "unreachable", "ln": t.get("ln", LN)}
    return n


def _uses_of_local(m, l):
    n = 0
    txt_ops = []
    for B in m["blocks"]:
        for st in B["s"]:
            r = st.get("r", {})
            for a in [r.get("a"), r.get("b")] + list(r.get("ops", [])):
                if isinstance(a, dict) and a.get("k") in ("copy", "move") and (a["p"] == l or (isinstance(a["p"], dict) and a["p"].get("l") == l)):
                    n += 1
            if r.get("k") in ("ref", "rawptr", "discr") and (r.get("p") == l or (isinstance(r.get("p"), dict) and r["p"].get("l") == l)):
                n += 1
        t = B["t"]
        for a in [t.get("d"), t.get("c")] + list(t.get("args", []) or []) + list(t.get("ops", []) or []):
            if isinstance(a, dict) and a.get("k") in ("copy", "move") and (a["p"] == l or (isinstance(a["p"], dict) and a["p"].get("l") == l)):
                n += 1
    return n


def thread_const_switches(m):
    """jump threading of materialised booleans: a block `switch X` (statement-free, or preceded only by `T = copy X` with T used
    by nothing but the switch) that is reached from a block ending `X = const v; goto ..` - directly or through a short chain of
    statement-free `drop`/`goto` blocks (scope ends between a combinator's result and the `if` that tests it) - is bypassed from
    that block; the chain is cloned for the bypassing path, so every drop still happens.  (`matches!(..)` + `if`, `let ok = a < b;
    if ok`, `let all = it.all(..); if all`.)  Control flow only; no value changes.  A bypassed block that loses all
    predecessors becomes unreachable."""
    blocks = m["blocks"]
    n = 0

    def succs(B):
        pt = B["t"]
        if pt["k"] == "goto":
            return [pt["t"]]
        if pt["k"] == "switch":
            return [b for _, b in pt["ts"]] + [pt["else"]]
        if pt["k"] in ("call", "drop", "assert", "tailcall"):
            return [pt.get("t")]
        return []
    for bi in range(len(blocks)):
        B = blocks[bi]
        t = B["t"]
        if t["k"] != "switch" or bi == 0 or B.get("c"):
            continue
        x = _local_of(t["d"])
        if x is None:
            continue
        if B["s"]:
            # only `T = copy X; switch T`
            if len(B["s"]) != 1:
                continue
            st = B["s"][0]
            a = st.get("r", {}).get("a", {})
            if not (st.get("k") == "assign" and st.get("p") == x and st["r"].get("k") == "use" and a.get("k") in ("copy", "move") and isinstance(a.get("p"), int)):
                continue
            if _uses_of_local(m, x) != 1:
                continue
            x = a["p"]
        # chains leading into B: lists of pass-through blocks [C1, .., Ck] with Ck -> B
        def chains_into(target, depth):
            out = [[]]
            if depth >= 4:
                return out
            for ci, C in enumerate(blocks):
                if ci == target or C.get("c") or C["s"] or C["t"]["k"] not in ("goto", "drop") or C["t"].get("t") != target:
                    continue
                for ch in chains_into(ci, depth + 1):
                    out.append(ch + [ci])
            return out
        all_direct_preds = [pi for pi, P in enumerate(blocks) if bi in succs(P)]
        threaded_from = set()
        for chain in chains_into(bi, 0):
            entry = chain[0] if chain else bi
            for pi, P in enumerate(blocks):
                if pi == bi or pi in chain or P.get("c") or P["t"]["k"] != "goto" or P["t"]["t"] != entry:
                    continue
                v = None
                for st in reversed(P["s"]):
                    if st.get("k") == "assign" and st.get("p") == x:
                        a = st.get("r", {}).get("a", {})
                        if st["r"].get("k") == "use" and a.get("k") == "const" and isinstance(a.get("v"), int):
                            v = a["v"]
                        break
                    if st.get("k") == "assign" and isinstance(st.get("p"), dict) and st["p"].get("l") == x:
                        break
                if v is None:
                    continue
                tgt = next((b for val, b in t["ts"] if val == v), t["else"])
                # clone the chain for this path
                nxt = tgt
                for ci in reversed(chain):
                    C = blocks[ci]
                    blocks.append({"s": [], "t": dict(C["t"], t=nxt), "c": False})
                    nxt = len(blocks) - 1
                P["t"] = dict(P["t"], t=nxt)
                threaded_from.add(pi)
                n += 1
        if all_direct_preds and not B["s"] and all(pi in threaded_from for pi in all_direct_preds):
            B["t"] = {"k": "unreachable", "ln": t.get("ln", LN)}
    return n
