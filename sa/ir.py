"""Program representation over the FACTS JSON: functions, CFG, dominators, call graph, lookups."""
import json, re, sys, os
from collections import defaultdict


def norm_place(p):
    """JSON place -> (local, proj tuple).  proj elems: '*', ('f', idx, name), ('ix', local),
    ('cix', off, from_end), ('sub', a, b, end), ('dc', idx, name), other strings."""
    if isinstance(p, int):
        return (p, ())
    proj = []
    for e in p["p"]:
        if isinstance(e, str):
            proj.append(e)
        elif "f" in e:
            proj.append(("f", e["f"], e.get("n"), e.get("t")))
        elif "ix" in e:
            proj.append(("ix", e["ix"]))
        elif "cix" in e:
            proj.append(("cix", e["cix"], e["end"]))
        elif "sub" in e:
            proj.append(("sub", e["sub"], e["to"], e["end"]))
        elif "dc" in e:
            proj.append(("dc", e["dc"], e.get("n")))
        else:
            proj.append(("?", str(e)))
    return (p["l"], tuple(proj))


class Callee:
    __slots__ = ("path", "full", "did", "name", "trait", "rpath", "rdid", "rfull", "args", "impl_self",
                 "rimpl_self", "indirect", "ikind")

    def __init__(self, j):
        self.indirect = j.get("indirect")
        self.path = j.get("path")
        self.full = j.get("full")
        self.did = j.get("did")
        self.name = j.get("name")
        self.trait = j.get("trait")
        self.rpath = j.get("rpath")
        self.rdid = j.get("rdid")
        self.rfull = j.get("rfull")
        self.args = j.get("args", [])
        self.impl_self = j.get("impl_self")
        self.rimpl_self = j.get("rimpl_self")
        self.ikind = j.get("ikind")

    @property
    def best(self):
        """most specific path known"""
        return self.rpath or self.path or "<indirect>"

    @property
    def bestfull(self):
        return self.rfull or self.full or "<indirect>"

    @property
    def local_did(self):
        if self.rpath is not None:
            return self.rdid
        return self.did

    def __repr__(self):
        return "Callee(%s)" % self.bestfull


class Operand:
    __slots__ = ("kind", "place", "ty", "value", "sym", "symdef", "fn", "did", "disp")

    def __init__(self, j):
        k = j["k"]
        self.kind = k
        self.place = None
        self.ty = j.get("ty")
        self.value = None
        self.sym = j.get("sym")
        self.symdef = j.get("symdef")
        self.fn = j.get("fn")
        self.did = j.get("did")
        self.disp = j.get("d")
        if k in ("copy", "move"):
            self.place = norm_place(j["p"])
        elif k == "const":
            if "v" in j:
                self.value = j["v"]
            elif "vs" in j:
                self.value = int(j["vs"])
            elif "pv" in j:
                # promoted reference to a scalar literal (`&0u8`)
                self.value = j["pv"]
                self.sym = None
                self.symdef = None

    @property
    def is_const(self):
        return self.kind == "const"

    def __repr__(self):
        if self.place is not None:
            return "%s(%s)" % (self.kind, fmt_place(self.place))
        if self.fn:
            return "fn(%s)" % self.fn
        if self.sym:
            return "const(%s)" % self.sym
        return "const(%s)" % (self.value if self.value is not None else self.disp)


def fmt_place(p):
    s = "_%d" % p[0]
    for e in p[1]:
        if e == "*":
            s = "(*%s)" % s
        elif isinstance(e, tuple) and e[0] == "f":
            s += ".%s" % (e[2] if e[2] is not None else e[1])
        elif isinstance(e, tuple) and e[0] == "ix":
            s += "[_%d]" % e[1]
        elif isinstance(e, tuple) and e[0] == "dc":
            s = "(%s as %s)" % (s, e[2] if e[2] is not None else e[1])
        elif isinstance(e, tuple) and e[0] == "cix":
            s += "[%s%d]" % ("-" if e[2] else "", e[1])
        elif isinstance(e, tuple) and e[0] == "sub":
            s += "[%d..%s%d]" % (e[1], "-" if e[3] else "", e[2])
        else:
            s += ".<%s>" % (e,)
    return s


class Rvalue:
    __slots__ = ("kind", "ops", "op", "place", "mut", "ty", "cast_kind", "agg", "path", "did", "variant",
                 "vname", "fields", "disp", "args")

    def __init__(self, j):
        k = j["k"]
        self.kind = k
        self.ops = []
        self.op = j.get("op")
        self.place = None
        self.mut = j.get("mut")
        self.ty = j.get("ty")
        self.cast_kind = j.get("ck")
        self.agg = j.get("ak")
        self.path = j.get("path")
        self.did = j.get("did")
        self.variant = j.get("vi")
        self.vname = j.get("vn")
        self.fields = j.get("fields")
        self.disp = j.get("d")
        self.args = j.get("args")
        if k in ("use", "repeat", "cast", "un"):
            self.ops = [Operand(j["a"])]
        elif k == "bin":
            self.ops = [Operand(j["a"]), Operand(j["b"])]
        elif k in ("ref", "rawptr", "discr"):
            self.place = norm_place(j["p"])
        elif k == "agg":
            self.ops = [Operand(x) for x in j["ops"]]

    def __repr__(self):
        if self.kind == "bin":
            return "%s(%r, %r)" % (self.op, self.ops[0], self.ops[1])
        if self.kind in ("ref", "rawptr"):
            return "&%s%s" % ("mut " if self.mut else "", fmt_place(self.place))
        if self.kind == "discr":
            return "discr(%s)" % fmt_place(self.place)
        if self.kind == "agg":
            return "%s%s%r" % (self.path or self.agg, ("::" + self.vname) if self.vname else "", self.ops)
        if self.kind == "cast":
            return "cast:%s(%r)" % (self.cast_kind, self.ops[0])
        if self.kind == "un":
            return "%s(%r)" % (self.op, self.ops[0])
        return "%s%r" % (self.kind, self.ops)


def _ln(x):
    if isinstance(x, list):
        return x[0], x[1]
    return x, None


class Stmt:
    __slots__ = ("kind", "place", "rv", "line", "macro", "variant")

    def __init__(self, j):
        self.kind = j["k"]
        self.place = norm_place(j["p"]) if "p" in j else None
        self.rv = Rvalue(j["r"]) if "r" in j else None
        self.line, self.macro = _ln(j.get("ln", 0))
        self.variant = j.get("vi")

    def __repr__(self):
        if self.kind == "assign":
            return "%s = %r" % (fmt_place(self.place), self.rv)
        return "%s %s" % (self.kind, fmt_place(self.place) if self.place else "")


class Term:
    __slots__ = ("kind", "line", "macro", "targets", "discr", "switch", "otherwise", "callee", "args", "dest",
                 "target", "cond", "expected", "msg", "ops", "place", "fn_line", "fn_macro")

    def __init__(self, j):
        k = j["k"]
        self.kind = k
        self.line, self.macro = _ln(j.get("ln", 0))
        self.targets = []
        self.discr = None
        self.switch = None
        self.otherwise = None
        self.callee = None
        self.args = []
        self.dest = None
        self.target = None
        self.cond = None
        self.expected = None
        self.msg = None
        self.ops = []
        self.place = None
        self.fn_line, self.fn_macro = (None, None)
        if k == "goto":
            self.targets = [j["t"]]
        elif k == "switch":
            self.discr = Operand(j["d"])
            self.switch = [(int(v), b) for v, b in j["ts"]]
            self.otherwise = j["else"]
            self.targets = [b for _, b in self.switch] + [self.otherwise]
        elif k == "drop":
            self.place = norm_place(j["p"])
            self.targets = [j["t"]]
        elif k in ("call", "tailcall"):
            self.callee = Callee(j["f"])
            self.args = [Operand(x) for x in j["args"]]
            if k == "call":
                self.dest = norm_place(j["dest"])
                self.target = j["t"]
                if j["t"] is not None:
                    self.targets = [j["t"]]
                self.fn_line, self.fn_macro = _ln(j.get("fl", 0))
        elif k == "assert":
            self.cond = Operand(j["c"])
            self.expected = j["e"]
            self.msg = j["m"]
            self.ops = [Operand(x) for x in j["ops"]]
            self.targets = [j["t"]]

    def __repr__(self):
        if self.kind == "call":
            return "%s = call %s(%s) -> bb%s" % (fmt_place(self.dest), self.callee.bestfull,
                                                  ", ".join(map(repr, self.args)), self.target)
        if self.kind == "switch":
            return "switch %r %s else bb%d" % (self.discr, self.switch, self.otherwise)
        if self.kind == "assert":
            return "assert(%s %r) -> bb%d" % (self.msg, self.ops, self.targets[0])
        return "%s %s" % (self.kind, self.targets)


class Block:
    __slots__ = ("stmts", "term", "cleanup")

    def __init__(self, j):
        self.stmts = [Stmt(s) for s in j["s"] if s["k"] in ("assign", "setdiscr")]
        self.term = Term(j["t"])
        self.cleanup = j["c"]


class Body:
    def __init__(self, j):
        self.argc = j["argc"]
        self.locals = j["locals"]
        self.blocks = [Block(b) for b in j["blocks"]]
        self.var_names = {}
        self.vars = []
        for v in j["vars"]:
            pl = norm_place(v["p"])
            self.vars.append((v["n"], pl))
            if not pl[1] and pl[0] not in self.var_names:
                self.var_names[pl[0]] = v["n"]
        self._succ = None
        self._pred = None
        self._reach = None
        self._dom = None
        self._pdom = None
        self._defs = None

    # ---- CFG
    @property
    def succ(self):
        if self._succ is None:
            self._succ = [list(dict.fromkeys(b.term.targets)) for b in self.blocks]
        return self._succ

    @property
    def reachable(self):
        if self._reach is None:
            seen = {0}
            st = [0]
            while st:
                b = st.pop()
                for s in self.succ[b]:
                    if s not in seen:
                        seen.add(s)
                        st.append(s)
            self._reach = seen
        return self._reach

    @property
    def pred(self):
        if self._pred is None:
            p = [[] for _ in self.blocks]
            for b in self.reachable:
                for s in self.succ[b]:
                    p[s].append(b)
            self._pred = p
        return self._pred

    def rpo(self):
        seen = set()
        order = []

        def dfs(b):
            stack = [(b, iter(self.succ[b]))]
            seen.add(b)
            while stack:
                n, it = stack[-1]
                adv = False
                for s in it:
                    if s not in seen:
                        seen.add(s)
                        stack.append((s, iter(self.succ[s])))
                        adv = True
                        break
                if not adv:
                    order.append(n)
                    stack.pop()
        dfs(0)
        order.reverse()
        return order

    @property
    def dom(self):
        """dom[b] = set of blocks dominating b (including b)."""
        if self._dom is None:
            order = self.rpo()
            allb = set(order)
            dom = {b: set(allb) for b in order}
            dom[0] = {0}
            changed = True
            while changed:
                changed = False
                for b in order:
                    if b == 0:
                        continue
                    ps = [p for p in self.pred[b] if p in dom]
                    new = set.intersection(*[dom[p] for p in ps]) if ps else set()
                    new = new | {b}
                    if new != dom[b]:
                        dom[b] = new
                        changed = True
            self._dom = dom
        return self._dom

    def dominates(self, a, b):
        return b in self.dom and a in self.dom[b]

    def reach_from(self, start, avoid=()):
        """blocks reachable from start (inclusive), not passing through blocks in avoid."""
        avoid = set(avoid)
        if start in avoid:
            return set()
        seen = {start}
        st = [start]
        while st:
            b = st.pop()
            for s in self.succ[b]:
                if s not in seen and s not in avoid:
                    seen.add(s)
                    st.append(s)
        return seen

    def return_blocks(self):
        return [b for b in self.reachable if self.blocks[b].term.kind == "return"]

    def back_edges(self):
        res = []
        for b in self.reachable:
            for s in self.succ[b]:
                if self.dominates(s, b):
                    res.append((b, s))
        return res

    def loops(self):
        """natural loops: header -> set of blocks"""
        loops = {}
        for (t, h) in self.back_edges():
            body = {h, t}
            st = [t]
            while st:
                n = st.pop()
                if n == h:
                    continue
                for p in self.pred[n]:
                    if p not in body:
                        body.add(p)
                        st.append(p)
            loops.setdefault(h, set()).update(body)
        return loops

    # ---- defs
    @property
    def defs(self):
        """local -> list of (block, stmt_index or 'term', kind) for whole-local definitions;
        partial writes (field/deref/index) recorded with kind 'partial'."""
        if self._defs is None:
            d = defaultdict(list)
            for bi in sorted(self.reachable):
                b = self.blocks[bi]
                for si, s in enumerate(b.stmts):
                    if s.place is None:
                        continue
                    l, pr = s.place
                    d[l].append((bi, si, "whole" if not pr else "partial"))
                t = b.term
                if t.kind == "call" and t.dest is not None:
                    l, pr = t.dest
                    d[l].append((bi, "term", "whole" if not pr else "partial"))
            self._defs = d
        return self._defs

    def iter_stmts(self):
        for bi in sorted(self.reachable):
            b = self.blocks[bi]
            for si, s in enumerate(b.stmts):
                yield bi, si, s

    def iter_terms(self):
        for bi in sorted(self.reachable):
            yield bi, self.blocks[bi].term

    def calls(self):
        for bi, t in self.iter_terms():
            if t.kind in ("call", "tailcall"):
                yield bi, t


class Fn:
    def __init__(self, j, prog):
        self.prog = prog
        self.id = j["id"]
        self.did = j["did"]
        self.name = j["name"]
        self.kind = j["k"]
        self.span = j["span"]
        self.file = j["span"]["f"]
        self.line = j["span"]["l"]
        self.vis = j.get("vis")
        self.eff_pub = j.get("eff_pub", False)
        self.inputs = j.get("inputs", [])
        self.output = j.get("output")
        self.impl = j.get("impl")
        self.impl_self = j.get("impl_self")
        self.impl_trait = j.get("impl_trait")
        self.in_trait = j.get("in_trait")
        self.root = j.get("root")
        self.parent = j.get("parent")
        self.captures = j.get("captures", [])
        self.generics = j.get("generics", [])
        self.preds = j.get("preds", [])
        self.macro = j["span"].get("x")
        self._mirj = j["mir"]
        self._body = None

    @property
    def body(self):
        if self._body is None:
            self._body = Body(self._mirj)
        return self._body

    @property
    def self_adt(self):
        if self.impl_self is None:
            return None
        t = self.prog.types[self.impl_self]
        return t.get("path") if t["k"] == "adt" else t["s"]

    @property
    def loc(self):
        return "%s:%d" % (self.file, self.line)

    def param_name(self, i):
        """i is 1-based local index of the argument"""
        return self.body.var_names.get(i, "_%d" % i)

    def param_index(self, name):
        for i in range(1, self.body.argc + 1):
            if self.body.var_names.get(i) == name:
                return i
        return None

    def __repr__(self):
        return "Fn(%s)" % self.id


TEST_UTIL_PREFIXES = ("vdaf::dummy", "vdaf::prio3_test", "flp::types::higher_degree", "vdaf::test_utils",
                      "flp::test_utils", "vdaf::prio2::test_vector", "idpf::test_utils", "vdaf::poplar1::test_utils",
                      "test_utils", "field::test_utils")


class Program:
    def __init__(self, path):
        with open(path) as fh:
            d = json.load(fh)
        self.path = path
        if not os.environ.get("VERIF_NO_DESUGAR"):
            import desugar
            if not os.environ.get("VERIF_NO_RENAME"):
                import rename
                self.renamed_fns = rename.canonicalise_renames(d)
            if not os.environ.get("VERIF_NO_INLINE"):
                import inline
                self.inlined_helpers = inline.inline_helpers(d)
            self.desugared_sites = desugar.desugar(d)
        self.crate = d["crate"]
        self.features = d["features"]
        self.types = d["types"]
        self.adts = d["adts"]
        self.adt_by_path = {a["path"]: a for a in self.adts}
        self.impls = d["impls"]
        self.impl_by_did = {i["did"]: i for i in self.impls}
        self.traits = d["traits"]
        self.consts = d["consts"]
        self.const_by_path = {c["path"]: c for c in self.consts}
        self.fns = [Fn(f, self) for f in d["fns"]]
        self.by_did = {f.did: f for f in self.fns}
        self.by_id = defaultdict(list)
        for f in self.fns:
            self.by_id[f.id].append(f)
        self._cg = None
        self._closures_of = None
        # private helpers that did not exist when the rules were written (extract-function refactorings): their refusals
        # are attributed to the caller (guards.FnGuards._virtual_edges).  Baseline = function ids of the reviewed tree.
        self.unknown_helpers = []
        bp = os.path.join(os.path.dirname(os.path.dirname(os.path.abspath(__file__))), "baseline_fns.json")
        if os.path.exists(bp):
            try:
                known = set(json.load(open(bp)))
                self.unknown_helpers = [f for f in self.fns if f.id not in known and f.kind != "Closure" and not f.eff_pub
                                        and f.impl_trait is None and f._mirj is not None]
            except (ValueError, OSError):
                pass
        self.unknown_dids = set(f.did for f in self.unknown_helpers)

    # ---- type helpers
    def ty(self, i):
        return self.types[i]

    def ty_str(self, i):
        return self.types[i]["s"]

    def strip_refs(self, i):
        t = self.types[i]
        while t["k"] in ("ref", "ptr"):
            i = t["t"]
            t = self.types[i]
        return i

    def adt_path_of(self, i):
        t = self.types[self.strip_refs(i)]
        return t.get("path") if t["k"] == "adt" else None

    def is_int(self, i):
        return self.types[i]["k"] == "int"

    # ---- lookups
    def is_test_util(self, f):
        ident = f.id
        m = re.sub(r"^<", "", ident)
        for p in TEST_UTIL_PREFIXES:
            if m.startswith(p + "::") or ("<" + p + "::") in ident or (" " + p + "::") in ident and False:
                return True
        # functions whose *self type or path* lives in a test-util module
        for p in ("vdaf::dummy::", "vdaf::prio3_test::", "flp::types::higher_degree::", "::test_utils::",
                  "vdaf::prio2::test_vector::"):
            if p in ident:
                return True
        return False

    def find(self, name=None, trait=None, self_adt=None, id_re=None, kind=None, include_test_util=False):
        """find functions.  trait: suffix match of the impl's trait path; self_adt: exact ADT path of the
        impl's self type (or display string for non-ADTs); name: item name."""
        out = []
        for f in self.fns:
            if name is not None and f.name != name:
                continue
            if kind is not None and f.kind != kind:
                continue
            if trait is not None:
                it = f.impl_trait or f.in_trait
                if trait == "" and it is not None:
                    continue
                if trait != "" and (it is None or not (it == trait or it.endswith("::" + trait))):
                    continue
            if self_adt is not None:
                sa = f.self_adt
                if sa is None or not (sa == self_adt or sa.endswith("::" + self_adt)):
                    continue
            if id_re is not None and not re.search(id_re, f.id):
                continue
            if not include_test_util and self.is_test_util(f):
                continue
            out.append(f)
        return out

    def find1(self, **kw):
        r = self.find(**kw)
        if len(r) != 1:
            raise AnchorError("anchor %r matched %d functions: %s" % (kw, len(r), [f.id for f in r][:6]))
        return r[0]

    def closures_of(self, f):
        """closures whose typeck root is f (transitively nested)"""
        if self._closures_of is None:
            m = defaultdict(list)
            for g in self.fns:
                if g.kind == "Closure" and g.root is not None:
                    m[g.root].append(g)
            self._closures_of = m
        return self._closures_of.get(f.did, [])

    # ---- call graph
    def trait_impl_methods(self, trait_path, name):
        """local impl methods for trait method (CHA)"""
        return [f for f in self.fns if f.impl_trait == trait_path and f.name == name]

    def trait_default_method(self, trait_path, name):
        r = [f for f in self.fns if f.in_trait == trait_path and f.name == name and f.impl is None]
        return r

    def resolve_call(self, callee, cha=True):
        """list of local Fn targets for a callee (possibly empty = external/unknown)"""
        if callee.indirect is not None:
            return []
        if callee.rpath is not None:
            if callee.rdid is not None and callee.rdid in self.by_did:
                return [self.by_did[callee.rdid]]
            return []
        if callee.did is not None and callee.did in self.by_did and callee.trait is None:
            return [self.by_did[callee.did]]
        if callee.trait is not None:
            out = []
            # unresolved trait method: default body (if local) + all local impls
            if callee.did is not None and callee.did in self.by_did:
                out.append(self.by_did[callee.did])
            if cha:
                for m in self.trait_impl_methods(callee.trait, callee.name):
                    if self.trait_args_compatible(callee, m):
                        out.append(m)
            return out
        return []

    def trait_args_compatible(self, callee, m):
        """cheap unification of the call's trait generic arguments / Self with the impl's: concrete
        outermost type constructors must agree (From<u64> never resolves to an impl of From<Foo>)"""
        imp = self.impl_by_did.get(m.impl)
        if imp is None:
            return True
        args = callee.args or []
        tys = [a["t"] for a in args if "t" in a]
        if not tys:
            return True

        def head(tix):
            t = self.types[tix]
            while t["k"] in ("ref", "ptr"):
                t = self.types[t["t"]]
            if t["k"] in ("adt",):
                return t["path"]
            if t["k"] in ("int", "bool", "str", "char", "float"):
                return t["s"]
            if t["k"] in ("slice", "array", "tuple"):
                return t["k"]
            return None
        # Self
        hs = head(tys[0])
        hi = head(imp["self"])
        if hs is not None and hi is not None and hs != hi:
            return False
        # trait generic args
        tf = imp.get("trait_full", "")
        if "<" in tf and len(tys) > 1:
            inner = tf[tf.index("<") + 1:tf.rindex(">")]
            parts = []
            depth = 0
            cur = ""
            for ch in inner:
                if ch in "<([":
                    depth += 1
                elif ch in ">)]":
                    depth -= 1
                if ch == "," and depth == 0:
                    parts.append(cur.strip())
                    cur = ""
                else:
                    cur += ch
            if cur.strip():
                parts.append(cur.strip())
            parts = [x for x in parts if not x.startswith("'")]
            for tix, part in zip(tys[1:], parts):
                h = head(tix)
                if h is None or h in ("slice", "array", "tuple"):
                    continue
                ph = part.lstrip("&").replace("mut ", "").replace("'a ", "").replace("'_ ", "").strip()
                ph = ph.split("<")[0].strip()
                if re.match(r"^[A-Z][A-Za-z0-9_]*$", ph):
                    continue    # a type parameter of the impl
                if ph and not ph.startswith("[") and not ph.startswith("(") and ph != h:
                    return False
        return True

    @property
    def callgraph(self):
        if self._cg is None:
            cg = {}
            for f in self.fns:
                outs = []
                for bi, t in f.body.calls():
                    for g in self.resolve_call(t.callee):
                        outs.append(g.did)
                # closures constructed in f are attributed to f
                for bi, si, s in f.body.iter_stmts():
                    if s.rv is not None and s.rv.kind == "agg" and s.rv.agg == "closure" and s.rv.did in self.by_did:
                        outs.append(s.rv.did)
                cg[f.did] = list(dict.fromkeys(outs))
            self._cg = cg
        return self._cg

    def reachable_fns(self, roots, stop=None):
        seen = set()
        st = [r.did for r in roots]
        while st:
            d = st.pop()
            if d in seen:
                continue
            seen.add(d)
            if stop is not None and stop(self.by_did[d]):
                continue
            for e in self.callgraph.get(d, []):
                if e not in seen:
                    st.append(e)
        return [self.by_did[d] for d in seen]


class AnchorError(Exception):
    pass


def load(path):
    return Program(path)


if __name__ == "__main__":
    import glob
    p = load(sys.argv[1])
    print(len(p.fns), "functions")
    for f in p.find(id_re=sys.argv[2]) if len(sys.argv) > 2 else []:
        print("==", f.id, f.loc)
        b = f.body
        for i in range(len(b.locals)):
            print("  _%d: %s %s" % (i, p.ty_str(b.locals[i]), b.var_names.get(i, "")))
        for bi in sorted(b.reachable):
            blk = b.blocks[bi]
            print(" bb%d:" % bi)
            for s in blk.stmts:
                print("    %r   // %s" % (s, s.line))
            print("    %r   // %s" % (blk.term, blk.term.line))
