"""PPA — panic-precondition analysis over MIR facts.

For every panic edge in a scope (Assert terminators: overflow / bounds / division by zero; calls to
partial std operations: unwrap, expect, range indexing, split_at, copy_from_slice, allocation
sizes, ...), decide whether the failing condition is satisfiable, by interval evaluation of the
*reconstructed expression terms* of its operands under
  * the type range of adversarial values (wire reads, caller-controlled arguments),
  * the instance-field invariant table (constructor-established ranges) and assumption A1
    (in-memory lengths and usize instance fields are < 2^56),
  * the relations contributed by the conditional edges every path to the panic edge must take.
An edge that cannot be discharged in its own function but whose operands mention parameters is
re-evaluated at every call site in the scope with the parameters substituted by the argument
terms (recursively, bounded depth).  What remains is an open obligation (finding).
No code is executed; intervals are computed over terms, not over runs.
"""
import re
from expr import ExprBuilder, fmt, walk, subst
from guards import FnGuards, necessary_edges, SWAP, NEG

INF = 1 << 200
SIZE = 1 << 56          # assumption A1


class Iv:
    __slots__ = ("lo", "hi")

    def __init__(self, lo, hi):
        self.lo = lo
        self.hi = hi

    def __repr__(self):
        def s(x):
            if x >= INF:
                return "+inf"
            if x <= -INF:
                return "-inf"
            if x >= 1 << 20:
                import math
                return "2^%.0f" % math.log2(x) if x & (x - 1) == 0 else ("2^%.0f-1" % math.log2(x + 1) if (x + 1) & x == 0 else str(x))
            return str(x)
        return "[%s, %s]" % (s(self.lo), s(self.hi))

    def meet(self, o):
        return Iv(max(self.lo, o.lo), min(self.hi, o.hi))

    def join(self, o):
        return Iv(min(self.lo, o.lo), max(self.hi, o.hi))

    def within(self, o):
        return self.lo >= o.lo and self.hi <= o.hi


TOP = Iv(-INF, INF)


def ty_range(ty):
    if ty is None:
        return Iv(0, (1 << 64) - 1)
    k = ty["k"]
    if k == "int":
        w = ty["w"] or 64
        if ty["sg"]:
            return Iv(-(1 << (w - 1)), (1 << (w - 1)) - 1)
        return Iv(0, (1 << w) - 1)
    if k == "bool":
        return Iv(0, 1)
    if k in ("ref", "ptr"):
        return None
    return None


INT_TY_RE = re.compile(r"^(u|i)(8|16|32|64|128|size)$")


def tystr_range(s):
    m = INT_TY_RE.match(s or "")
    if not m:
        return None
    w = 64 if m.group(2) == "size" else int(m.group(2))
    if m.group(1) == "i":
        return Iv(-(1 << (w - 1)), (1 << (w - 1)) - 1)
    return Iv(0, (1 << w) - 1)


# instance-field invariants: (ADT path suffix, field) -> (lo, hi, reason)
FIELD_TABLE = {
    ("flp::types::Histogram", "length"): (1, (1 << 32) - 2, "Histogram::new: length == 0 / >= u32::MAX refused"),
    ("flp::types::Histogram", "chunk_length"): (1, SIZE, "Histogram::new: chunk_length == 0 refused"),
    ("flp::types::Histogram", "gadget_calls"): (1, SIZE, "ceil(length/chunk_length) with length >= 1"),
    ("flp::types::MultihotCountVec", "length"): (1, (1 << 32) - 2, "new: num_buckets == 0 / >= u32::MAX refused"),
    ("flp::types::MultihotCountVec", "chunk_length"): (1, SIZE, "new: chunk_length == 0 refused"),
    ("flp::types::MultihotCountVec", "max_weight"): (1, SIZE, "new: max_weight == 0 refused"),
    ("flp::types::MultihotCountVec", "bits_for_weight"): (1, 64, "ilog2(max_weight) + 1"),
    ("flp::types::MultihotCountVec", "gadget_calls"): (1, SIZE, "div_ceil(meas_length, chunk_length), meas_length >= 2"),
    ("flp::types::Sum", "bits"): (1, 128, "checked_ilog2(max_measurement) + 1 with max_measurement in [1, modulus)"),
    ("flp::types::SumVec", "bits"): (1, 128, "checked_ilog2(max_measurement) + 1"),
    ("flp::types::SumVec", "len"): (1, SIZE, "new: len == 0 refused"),
    ("flp::types::SumVec", "chunk_length"): (1, SIZE, "new: chunk_length == 0 refused"),
    ("flp::types::SumVec", "flattened_len"): (1, SIZE, "bits * len (checked_mul), both >= 1"),
    ("flp::types::SumVec", "gadget_calls"): (1, SIZE, "ceil(flattened_len / chunk_length)"),
    ("flp::types::l1boundsum::L1BoundSum", "bits"): (1, 128, "checked_ilog2(max_value) + 1"),
    ("flp::types::l1boundsum::L1BoundSum", "measurement_len"): (1, SIZE, "new: measurement_len == 0 refused"),
    ("flp::types::l1boundsum::L1BoundSum", "chunk_length"): (1, SIZE, "new: chunk_length == 0 refused"),
    ("flp::types::l1boundsum::L1BoundSum", "measurement_len_in_bits"): (1, SIZE, "bits * (measurement_len + 1), checked_mul"),
    ("flp::types::l1boundsum::L1BoundSum", "gadget_calls"): (1, SIZE, "ceil(measurement_len_in_bits / chunk_length)"),
    ("vdaf::prio3::Prio3", "num_aggregators"): (1, 254, "check_num_aggregators"),
    ("vdaf::prio3::Prio3", "num_proofs"): (1, 255, "Prio3::new: num_proofs == 0 refused"),
    ("vdaf::poplar1::Poplar1", "bits"): (0, SIZE, "Poplar1::new accepts any usize (no guard): 0 is possible"),
    ("vdaf::poplar1::Poplar1AggregationParam", "level"): (0, 65535, "u16"),
    ("vdaf::prio2::Prio2", "input_len"): (0, (1 << 19) - 1, "Prio2::new: 2*npo2(input_len+1) <= generator order 2^20"),
    ("flp::gadgets::Mul", "num_calls"): (0, SIZE, "A1"),
    ("flp::gadgets::PolyEval", "num_calls"): (0, SIZE, "A1"),
    ("flp::gadgets::ParallelSum", "chunks"): (0, SIZE, "A1"),
}

LEN_TABLE = {
    ("vdaf::poplar1::Poplar1AggregationParam", "prefixes"): (1, (1 << 32) - 1),   # try_from_prefixes: non-empty, count fits u32
}

SYM_TABLE = {
    "ENCODED_SIZE": (4, 32), "SEED_SIZE": (16, 64), "VERIFY_KEY_SIZE": (0, 64), "NONCE_SIZE": (0, 64),
    "BITS": (8, 128), "N": (0, 1 << 16), "BUFFER_SIZE_IN_ELEMENTS": (32, 32),
}

WIRE_DECODE = re.compile(r"^<(u8|u16|u32|u64) as codec::Decode>::decode$")


class Env:
    """evaluation environment for one function: parameter policy and refinements"""

    def __init__(self, ppa, f, adversarial):
        self.ppa = ppa
        self.f = f
        self.g = ppa.guards(f)
        self.adversarial = adversarial
        self.refine = {}        # term -> Iv

    def param_iv(self, e):
        l = e[2]
        ty = self.f.prog.types[self.f.prog.strip_refs(self.f.body.locals[l])]
        r = ty_range(ty)
        if r is None:
            return None
        if not self.adversarial and ty["k"] == "int" and ty["w"] in (0, 64) and not ty["sg"]:
            return Iv(0, SIZE)
        return r


class PPA:
    def __init__(self, prog, scope_fns, roots, adversarial_roots=True, wire=True, field_table=None):
        self.prog = prog
        self.scope = {f.did: f for f in scope_fns}
        self.roots = set(f.did for f in roots)
        self.adversarial_roots = adversarial_roots
        self.wire = wire
        self._guards = {}
        self.field_table = dict(FIELD_TABLE)
        if field_table:
            self.field_table.update(field_table)
        self._callers = None

    def guards(self, f):
        if f.did not in self._guards:
            self._guards[f.did] = FnGuards(self.prog, f)
        return self._guards[f.did]

    # ------------------------------------------------------------ callers
    def callers(self, f):
        if self._callers is None:
            m = {}
            for g in self.scope.values():
                for bi, t in g.body.calls():
                    for tgt in self.prog.resolve_call(t.callee):
                        m.setdefault(tgt.did, []).append((g, bi, t))
            self._callers = m
        return self._callers.get(f.did, [])

    # ------------------------------------------------------------ term typing
    def adt_of_term(self, f, e):
        """ADT path of the value of a term (through refs), or None"""
        if e[0] == "param":
            return self.prog.adt_path_of(f.body.locals[e[2]])
        if e[0] in ("field", "vfield"):
            base = self.adt_of_term(f, e[1])
            name = e[2] if e[0] == "field" else e[3]
            if base is None:
                # tuple parameter fields: (prio3, agg_id) patterns `_1.0`
                if e[1][0] == "param":
                    ty = self.prog.types[self.prog.strip_refs(f.body.locals[e[1][2]])]
                    if ty["k"] == "tuple" and name.isdigit() and int(name) < len(ty["ts"]):
                        return self.prog.adt_path_of(ty["ts"][int(name)])
                return None
            adt = self.prog.adt_by_path.get(base)
            if adt is None:
                return None
            for v in adt["variants"]:
                for fl in v["fields"]:
                    if fl["n"] == name:
                        return self.prog.adt_path_of(fl["t"])
        return None

    def field_iv(self, f, e):
        name = e[2] if e[0] == "field" else e[3]
        base = self.adt_of_term(f, e[1])
        if base is not None:
            for (adt, fld), (lo, hi, why) in self.field_table.items():
                if fld == name and (base == adt or base.endswith("::" + adt) or adt.endswith(base)):
                    return Iv(lo, hi)
            adt = self.prog.adt_by_path.get(base)
            if adt is not None:
                for v in adt["variants"]:
                    for fl in v["fields"]:
                        if fl["n"] == name:
                            r = ty_range(self.prog.types[fl["t"]])
                            if r is not None:
                                t = self.prog.types[fl["t"]]
                                if t["k"] == "int" and t["w"] in (0, 64) and not t["sg"]:
                                    return Iv(0, SIZE)    # A1: usize instance field
                                return r
        return None

    # ------------------------------------------------------------ intervals
    def iv(self, env, e, depth=0):
        if depth > 30 or not isinstance(e, tuple) or not e:
            return TOP
        r = env.refine.get(e)
        base = self._iv(env, e, depth)
        if r is not None:
            return base.meet(r)
        return base

    def _iv(self, env, e, depth):
        t = e[0]
        f = env.f
        if t == "ivc":
            return Iv(e[1], e[2])
        if t == "lit":
            if isinstance(e[1], int):
                return Iv(e[1], e[1])
            return TOP
        if t == "symlit":
            return Iv(e[2], e[2])
        if t == "sym":
            name = e[1].split("::")[-1]
            if name in SYM_TABLE:
                return Iv(*SYM_TABLE[name])
            return Iv(0, 1 << 16)
        if t == "param":
            r = env.param_iv(e)
            return r if r is not None else TOP
        if t == "upvar":
            tu = getattr(self, "tainted_upvars", {}).get(f.did, set())
            if e[1].lstrip("*") in tu:
                return Iv(0, (1 << 64) - 1)
            return Iv(0, SIZE)     # A1: captured usize accumulators
        if t in ("field", "vfield"):
            # loop induction variable of a Range iterator
            if t == "vfield" and e[2] == "Some" and e[1][0] == "call" and e[1][4] == "std::iter::Iterator::next":
                it = e[1][2][0]
                init = env.g.eb.init_expr(it[1]) if it[0] == "phi" else it
                rr = self.range_of_iter(env, init, depth)
                if rr is not None:
                    return rr
            # index component of `for (i, x) in s.iter().enumerate()`: 0 .. len(s) - 1
            if t == "field" and e[2] == "0" and e[1][0] == "vfield" and e[1][2] == "Some" and e[1][1][0] == "call" and e[1][1][4] == "std::iter::Iterator::next":
                it = e[1][1][2][0]
                init = env.g.eb.init_expr(it[1]) if it[0] == "phi" else it
                if init is not None and init[0] == "call" and init[1].split("::")[-1] == "enumerate" and init[2]:
                    srcs = init[2][0]
                    while srcs[0] == "call" and srcs[1].split("::")[-1] in ("iter", "iter_mut", "into_iter") and srcs[2]:
                        srcs = srcs[2][0]
                    ln = self.iv(env, ("len", srcs), depth + 1)
                    if srcs[0] == "call" and srcs[4] in ("std::ops::Index::index", "std::ops::IndexMut::index_mut") and len(srcs[2]) == 2 and \
                            srcs[2][1][0] == "agg" and str(srcs[2][1][1]).endswith("RangeTo") and len(srcs[2][1][2]) == 1:
                        ln = self.iv(env, srcs[2][1][2][0], depth + 1)       # s[..n] has n elements
                    if ln.hi >= 1:
                        return Iv(0, ln.hi - 1)
            r = self.field_iv(f, e)
            if r is not None:
                return r
            # wire payload of Option/Result
            if t == "vfield" and e[2] in ("Ok", "Some") and e[3] == "0":
                if e[1][0] == "phi":
                    # the payload of an Option/Result held in a re-assigned local (`let x = match .. { .. => Some(a), .. => None }`):
                    # the range of the payload's type, with assumption A1 for usize as for any other usize-valued local
                    pty = f.prog.types[f.body.locals[e[1][1]]]
                    args = pty.get("args") or []
                    if pty.get("k") == "adt" and args and isinstance(args[0], dict) and "t" in args[0]:
                        ity = f.prog.types[args[0]["t"]]
                        r = ty_range(ity)
                        if r is not None and ity.get("k") == "int" and ity.get("w") in (0, 64) and not ity.get("sg"):
                            return Iv(0, SIZE)
                        if r is not None:
                            return r
                return self.iv(env, e[1], depth + 1)
            if t == "field" and e[1][0] == "bin":
                return self.iv(env, e[1], depth + 1)
            # loop induction variable of a Range iterator
            if t == "vfield" and e[2] == "Some" and e[1][0] == "call" and e[1][4] == "std::iter::Iterator::next":
                it = e[1][2][0]
                init = env.g.eb.init_expr(it[1]) if it[0] == "phi" else it
                rr = self.range_of_iter(env, init, depth)
                if rr is not None:
                    return rr
            return Iv(0, (1 << 64) - 1) if True else TOP
        if t == "try":
            return self.iv(env, e[1], depth + 1)
        if t == "len":
            x = e[1]
            if x[0] in ("field", "vfield"):
                base = self.adt_of_term(f, x[1])
                nm = x[2] if x[0] == "field" else x[3]
                for (adt, fld), (lo, hi) in LEN_TABLE.items():
                    if fld == nm and base is not None and (base == adt or base.endswith("::" + adt)):
                        return Iv(lo, hi)
            if x[0] == "phi":
                init = env.g.eb.init_expr(x[1])
                sl = static_len_of_local(f, x[1])
                if sl is not None:
                    return Iv(sl, sl)
                if init is not None:
                    x = init
            if x[0] == "param":
                sl = static_len_of_local(f, x[2])
                if sl is not None:
                    return Iv(sl, sl)
            if x[0] == "call" and x[1].split("::")[-1] == "from_elem" and len(x[2]) == 2:
                return self.iv(env, x[2][1], depth + 1).meet(Iv(0, SIZE))
            if x[0] == "agg" and x[1] in ("vec", "array"):
                return Iv(len(x[2]), len(x[2]))
            if x[0] == "repeat":
                return Iv(0, 1 << 16)
            while x[0] == "call" and x[1].split("::")[-1] in ("as_slice", "as_ref", "as_mut_slice") and x[2]:
                x = x[2][0]
            if x[0] == "call" and x[1].split("::")[-1] in ("to_le_bytes", "to_be_bytes"):
                m = re.search(r"<impl (u8|u16|u32|u64|u128|usize)>", x[1])
                if m:
                    w = {"u8": 1, "u16": 2, "u32": 4, "u64": 8, "u128": 16, "usize": 8}[m.group(1)]
                    return Iv(w, w)
            return Iv(0, SIZE)
        if t == "cast":
            a = self.iv(env, e[1], depth + 1)
            r = tystr_range(e[2])
            if r is None:
                return a
            if a.within(r):
                return a
            return r
        if t == "conv":
            a = self.iv(env, e[1], depth + 1)
            # From/Into between integer types is value-preserving (widening); try_from handled at call
            m = re.search(r"<(u8|u16|u32|u64|u128|usize|i8|i16|i32|i64|i128|isize) as std::convert::From<", e[2] or "")
            if m:
                r = tystr_range(m.group(1))
                if r is not None and a.within(r):
                    return a
                return r or a
            return a
        if t == "un":
            a = self.iv(env, e[2], depth + 1)
            if e[1] == "Neg":
                return Iv(-a.hi, -a.lo)
            if e[1] == "Not":
                return Iv(0, (1 << 64) - 1)
            return a
        if t == "bin":
            op = e[1]
            for suf in ("WithOverflow", "Unchecked"):
                if op.endswith(suf):
                    op = op[:-len(suf)]
            a = self.iv(env, e[2], depth + 1)
            b = self.iv(env, e[3], depth + 1)
            return self.arith(op, a, b)
        if t == "call":
            return self.call_iv(env, e, depth)
        if t == "index":
            return Iv(0, (1 << 64) - 1)
        if t == "phi":
            l = e[1]
            ty = f.prog.types[f.body.locals[l]]
            r = ty_range(ty)
            if r is not None and ty["k"] == "int" and ty["w"] in (0, 64) and not ty["sg"]:
                return Iv(0, SIZE)     # A1: usize accumulators / counters measure in-memory objects
            return r if r is not None else TOP
        if t == "agg":
            return TOP
        return TOP

    def arith(self, op, a, b):
        if op == "Add":
            return Iv(a.lo + b.lo, a.hi + b.hi)
        if op == "Sub":
            return Iv(a.lo - b.hi, a.hi - b.lo)
        if op == "Mul":
            c = [a.lo * b.lo, a.lo * b.hi, a.hi * b.lo, a.hi * b.hi]
            return Iv(min(c), max(c))
        if op == "Div":
            if b.lo >= 1 and a.lo >= 0:
                return Iv(a.lo // max(b.hi, 1), a.hi // b.lo)
            return Iv(min(0, a.lo), max(a.hi, 0))
        if op == "Rem":
            if b.lo >= 1:
                return Iv(0, min(a.hi, b.hi - 1))
            return Iv(0, max(a.hi, 0))
        if op == "BitAnd":
            if a.lo >= 0 and b.lo >= 0:
                return Iv(0, min(a.hi, b.hi))
            return TOP
        if op in ("BitOr", "BitXor"):
            if a.lo >= 0 and b.lo >= 0:
                m = max(a.hi, b.hi)
                return Iv(0, (1 << m.bit_length()) - 1)
            return TOP
        if op == "Shl":
            if a.lo >= 0 and 0 <= b.lo and b.hi < 256:
                return Iv(a.lo << b.lo, a.hi << b.hi)
            return TOP
        if op == "Shr":
            if a.lo >= 0 and 0 <= b.lo and b.hi < 256:
                return Iv(a.lo >> b.hi, a.hi >> b.lo)
            return Iv(0, max(a.hi, 0))
        if op in ("Eq", "Ne", "Lt", "Le", "Gt", "Ge"):
            return Iv(0, 1)
        return TOP

    def range_of_iter(self, env, init, depth):
        """interval of the items of an iterator term"""
        if init is None:
            return None
        e = init
        # strip adapters that do not change the item range
        while e[0] == "call" and e[1].split("::")[-1] in ("rev", "step_by", "into_iter", "skip", "take", "by_ref") and e[2]:
            e = e[2][0]
        if e[0] == "agg" and ("Range" in e[1]) and len(e[2]) == 2:
            a = self.iv(env, e[2][0], depth + 1)
            b = self.iv(env, e[2][1], depth + 1)
            if "RangeInclusive" in e[1]:
                return Iv(a.lo, b.hi)
            return Iv(a.lo, b.hi - 1)
        if e[0] == "call" and e[1].endswith("RangeInclusive::<Idx>::new") and len(e[2]) == 2:
            a = self.iv(env, e[2][0], depth + 1)
            b = self.iv(env, e[2][1], depth + 1)
            return Iv(a.lo, b.hi)
        return None

    def call_iv(self, env, e, depth):
        path, args, full, tpath = e[1], e[2], e[3], e[4]
        name = path.split("::")[-1]
        if WIRE_DECODE.match(full or "") or WIRE_DECODE.match(path or ""):
            m = WIRE_DECODE.match(full) or WIRE_DECODE.match(path)
            return tystr_range(m.group(1))
        if name in ("position",) and "Cursor" in path:
            return Iv(0, SIZE)
        if name == "saturating_sub" and len(args) == 2:
            a, b = self.iv(env, args[0], depth + 1), self.iv(env, args[1], depth + 1)
            return Iv(max(0, a.lo - b.hi), max(0, a.hi - b.lo))
        if name in ("saturating_add", "wrapping_add", "saturating_mul", "wrapping_mul") and len(args) == 2:
            a, b = self.iv(env, args[0], depth + 1), self.iv(env, args[1], depth + 1)
            r = self.arith("Add" if "add" in name else "Mul", a, b)
            return Iv(max(r.lo, 0), min(r.hi, (1 << 64) - 1))
        if name == "min" and len(args) == 2:
            a, b = self.iv(env, args[0], depth + 1), self.iv(env, args[1], depth + 1)
            return Iv(min(a.lo, b.lo), min(a.hi, b.hi))
        if name == "max" and len(args) == 2:
            a, b = self.iv(env, args[0], depth + 1), self.iv(env, args[1], depth + 1)
            return Iv(max(a.lo, b.lo), max(a.hi, b.hi))
        if name == "div_ceil" and len(args) == 2:
            a, b = self.iv(env, args[0], depth + 1), self.iv(env, args[1], depth + 1)
            if b.lo >= 1 and a.lo >= 0:
                return Iv(-(-a.lo // b.hi), -(-a.hi // b.lo))
            return Iv(0, max(a.hi, 0))
        if name == "next_power_of_two" and len(args) == 1:
            a = self.iv(env, args[0], depth + 1)
            hi = 1 << max(a.hi - 1, 0).bit_length() if a.hi < INF else INF
            return Iv(1, max(hi, 1))
        if name in ("ilog2", "checked_ilog2", "leading_zeros", "trailing_zeros", "count_ones", "bits"):
            return Iv(0, 128)
        if name in ("unwrap", "expect", "unwrap_or_default") and args:
            return self.iv(env, args[0], depth + 1)
        if name == "try_from" and len(args) == 1 or name == "try_into" and len(args) == 1:
            a = self.iv(env, args[0], depth + 1)
            m = re.search(r"TryFrom<[a-z0-9]+> for (u8|u16|u32|u64|u128|usize|i8|i16|i32|i64|i128|isize)", full or "") or \
                re.search(r"<(u8|u16|u32|u64|u128|usize) as std::convert::TryFrom", full or "")
            if m:
                r = tystr_range(m.group(1))
                return a.meet(r) if r is not None else a
            return a
        if name in ("map_err", "ok_or", "ok_or_else", "into", "from", "clone", "as_ref", "copied") and args:
            return self.iv(env, args[0], depth + 1)
        if name in ("len", "capacity", "count"):
            return Iv(0, SIZE)
        acc = self.accessor_iv(env, e, depth)
        if acc is not None:
            return acc
        if name in ("proof_len", "verifier_len", "input_len", "output_len", "prove_rand_len", "query_rand_len", "joint_rand_len",
                    "eval_output_len", "arity", "degree", "calls", "num_gadgets", "num_proofs", "num_aggregators", "random_size",
                    "level", "wire_poly_len", "gadget_poly_len", "proof_length", "bits_to_bytes"):
            # instance-determined sizes (A1)
            if name == "num_proofs":
                return Iv(1, 255)
            if name == "num_aggregators":
                return Iv(1, 254)
            if name == "level":
                return Iv(0, 65535)
            return Iv(0, SIZE)
        if name in ("encoded_len", "encoded_len_with_param"):
            return Iv(0, SIZE)      # A1: the encoded size of an in-memory value
        if name == "unwrap_u8" and "Choice" in path:
            return Iv(0, 1)
        if name in ("checked_shl", "wrapping_shl", "overflowing_shl") and len(args) == 2:
            a = self.iv(env, args[0], depth + 1)
            if a.lo >= 0:
                return Iv(a.lo if name == "checked_shl" else 0, max(a.hi, 1) << 127)
        if name in ("checked_sub", "checked_add", "checked_mul"):
            return TOP
        return Iv(0, (1 << 64) - 1) if True else TOP

    def accessor_iv(self, env, e, depth):
        """interval of a call to a crate-local function whose body is a single returned expression
        (length accessors, small helpers): the callee's expression is evaluated in the callee with its
        parameters bound to the argument intervals; trait calls join over all non-test impls"""
        if depth > 12:
            return None
        path, args, full, tpath = e[1], e[2], e[3], e[4]
        name = path.split("::")[-1]
        cands = [g for g in self.prog.by_id.get(path, []) if not self.prog.is_test_util(g)]
        if not cands and tpath and tpath != path:
            cands = [g for g in self.prog.by_id.get(tpath, [])]
        targets = []
        for g in cands:
            if g.impl is None and g.in_trait is not None:
                impls = [m for m in self.prog.trait_impl_methods(g.in_trait, g.name) if not self.prog.is_test_util(m)]
                # the default body is used by impls that do not override
                targets.extend(impls)
                if not impls or g.body.blocks:
                    if any(True for _ in [0]) and g.body.blocks and len(g.body.blocks) > 1:
                        targets.append(g)
            else:
                targets.append(g)
        if not targets or len(targets) > 24:
            return None
        key = (path, tuple(repr(self.iv(env, a, depth + 1)) for a in args[1:]))
        cache = getattr(self, "_acc_cache", None)
        if cache is None:
            cache = self._acc_cache = {}
        if key in cache:
            return cache[key]
        cache[key] = None
        out = None
        for g in targets:
            gg = self.guards(g)
            rds = [rd for rd in gg.retdefs if rd.kind != "partial" and rd.expr is not None]
            if not rds or len(g.body.blocks) > 40:
                cache[key] = None
                return None
            genv = Env(self, g, adversarial=False)
            # bind scalar params to the argument intervals
            for i, a in enumerate(args):
                pl = i + 1
                if pl <= g.body.argc:
                    pe = ("param", g.body.var_names.get(pl, "_%d" % pl), pl)
                    if i == 0 and g.param_name(1) == "self":
                        continue
                    ai = self.iv(env, a, depth + 1)
                    if ai.lo > -INF and ai.hi < INF:
                        genv.refine[pe] = ai
            r = None
            for rd in rds:
                x = rd.expr
                if rd.kind in ("ok", "some") and rd.payload is not None:
                    x = rd.payload
                elif rd.kind in ("err", "none"):
                    continue
                ri = self.iv(genv, x, depth + 2)
                r = ri if r is None else r.join(ri)
            if r is None:
                cache[key] = None
                return None
            out = r if out is None else out.join(r)
        if out is not None and (out.lo <= -INF or out.hi >= INF):
            out = None
        if out is not None and out.hi > SIZE and name in ("proof_len", "verifier_len", "input_len", "output_len", "prove_rand_len",
                                                         "query_rand_len", "joint_rand_len", "eval_output_len", "arity", "degree", "calls",
                                                         "wire_poly_len", "gadget_poly_len", "proof_length", "random_size", "encoded_len"):
            out = Iv(max(out.lo, 0), SIZE)     # A1: instance-determined in-memory sizes
        cache[key] = out
        return out

    # ------------------------------------------------------------ conditions
    def apply_conditions(self, env, conds):
        """refine intervals of terms from relational path conditions (one pass, then a second pass so
        that refinements feed each other)"""
        for _ in range(2):
            for c in conds:
                if c[0] == "rel":
                    op, a, b = c[1], c[2], c[3]
                    self._refine_rel(env, op, a, b)
                    self._refine_rel(env, SWAP[op], b, a)
                elif c[0] == "truth":
                    pass

    def _refine_rel(self, env, op, a, b):
        """a <op> b holds: refine a"""
        ib = self.iv(env, b)
        ia = self.iv(env, a)
        new = None
        if op == "Lt":
            new = Iv(-INF, ib.hi - 1)
        elif op == "Le":
            new = Iv(-INF, ib.hi)
        elif op == "Gt":
            new = Iv(ib.lo + 1, INF)
        elif op == "Ge":
            new = Iv(ib.lo, INF)
        elif op == "Eq":
            new = Iv(ib.lo, ib.hi)
        elif op == "Ne":
            if ib.lo == ib.hi:
                if ia.lo == ib.lo:
                    new = Iv(ia.lo + 1, INF)
                elif ia.hi == ib.lo:
                    new = Iv(-INF, ia.hi - 1)
        if new is not None:
            cur = env.refine.get(a)
            env.refine[a] = new if cur is None else cur.meet(new)
            # strip wrappers: refining `x as usize` / `x?` also refines x when value-preserving
            inner = a
            while inner[0] in ("cast", "conv", "try") :
                inner = inner[1]
                cur = env.refine.get(inner)
                env.refine[inner] = new if cur is None else cur.meet(new)

    # ------------------------------------------------------------ relational facts
    def equal_forms(self, conds, x):
        """terms equal to x by the path conditions: Eq(x, y) and Eq(u + c, y) => u == y - c"""
        out = [x]
        for c in conds:
            if c[0] != "rel" or c[1] != "Eq":
                continue
            for (l, r) in ((c[2], c[3]), (c[3], c[2])):
                if l == x and r not in out:
                    out.append(r)
                if l[0] == "bin" and l[1] == "Add":
                    for (u, k) in ((l[2], l[3]), (l[3], l[2])):
                        if u == x and k[0] in ("lit", "symlit"):
                            y = ("bin", "Sub", r, k)
                            if y not in out:
                                out.append(y)
        return out

    def holds_rel(self, env, conds, op, a, b):
        """is `a <op> b` implied syntactically by a path condition (or by intervals)?"""
        for a2 in self.equal_forms(conds, a):
            for b2 in self.equal_forms(conds, b):
                if self._holds_rel(env, conds, op, a2, b2):
                    return True
        return False

    def _holds_rel(self, env, conds, op, a, b):
        ia, ib = self.iv(env, a), self.iv(env, b)
        if op == "Lt" and ia.hi < ib.lo:
            return True
        if op == "Le" and ia.hi <= ib.lo:
            return True
        for c in conds:
            if c[0] != "rel":
                continue
            for (o2, x, y) in ((c[1], c[2], c[3]), (SWAP[c[1]], c[3], c[2])):
                if x == a and y == b:
                    if o2 == op or (op == "Le" and o2 in ("Lt", "Eq")) or (op == "Ge" and o2 in ("Gt", "Eq")) or (op == "Ne" and o2 in ("Lt", "Gt")):
                        return True
        return False


def static_len_of_local(f, l):
    ty = f.prog.types[f.prog.strip_refs(f.body.locals[l])]
    if ty["k"] == "array":
        if "lenv" in ty:
            return ty["lenv"]
    return None


def strip_wrappers(e):
    while isinstance(e, tuple) and e and e[0] in ("cast", "conv", "try"):
        e = e[1]
    return e


# ======================================================================
# obligations

PARTIAL_CALLS = {
    # name -> kind
    "unwrap": "unwrap", "expect": "unwrap", "unwrap_unchecked": "unwrap",
    "with_capacity": "alloc", "from_elem": "alloc", "resize": "alloc", "reserve": "alloc",
    "split_at": "split", "split_at_mut": "split", "copy_from_slice": "samelen", "clone_from_slice": "samelen",
    "index": "index", "index_mut": "index", "chunks": "nonzero1", "chunks_exact": "nonzero1", "step_by": "nonzero1",
    "chunks_mut": "nonzero1", "ilog2": "nonzero0", "next_power_of_two": "npo2", "div_ceil": "nonzero1",
    "take": "take", "ok": None,
}


class Obl:
    __slots__ = ("fn", "block", "kind", "detail", "terms", "line", "status", "reason", "width")

    def key(self):
        ts = [norm_text(t) for t in self.terms]
        if self.kind in ("overflow:Add", "overflow:Mul"):
            ts = sorted(ts)
        # closures are numbered in source order: adding or removing an unrelated closure must not rename an obligation
        return "%s|%s|%s" % (re.sub(r"\{closure#\d+\}", "{closure}", self.fn.id), self.kind, "|".join(ts))

    def old_key(self):
        return "%s|%s|%s" % (self.fn.id, self.kind, "|".join(norm_text_v1(t) for t in self.terms))

    def __repr__(self):
        return "Obl(%s %s %s @%s: %s)" % (self.fn.id[-60:], self.kind, [fmt(t)[:60] for t in self.terms], self.line, self.status)


def anon(t, ups=None):
    """copy of a term with every local-variable NAME removed: parameters become $<position>, re-assigned locals φ,
    captured variables ^<order of first occurrence>.  Keys built from this text survive renaming of locals/parameters."""
    if ups is None:
        ups = {}
    if not isinstance(t, tuple) or not t:
        return t
    if t[0] == "param":
        return ("param", "$%d" % t[2] if isinstance(t[2], int) else t[1], t[2])
    if t[0] == "phi":
        return ("phi", 0, None)
    if t[0] == "upvar":
        k = ups.setdefault(t[1], len(ups) + 1)
        return ("upvar", "^%d" % k)
    if t[0] == "call" and str(t[1]).split("::")[-1] in ("map_err", "ok_or_else") and len(t) > 2 and len(t[2]) == 2:
        # the error mapper (a closure, a named function, a variant constructor) is not part of a panic edge's identity
        t = t[:2] + ((t[2][0], ("sym", "_")),) + t[3:]
    out = []
    for y in t:
        if isinstance(y, tuple):
            if y and isinstance(y[0], str):
                out.append(anon(y, ups))
            else:
                out.append(tuple(anon(z, ups) if isinstance(z, tuple) else z for z in y))
        else:
            out.append(y)
    # commutative operators: operand order is not semantics
    if out and out[0] == "bin" and len(out) >= 4 and str(out[1]).replace("WithOverflow", "").replace("Unchecked", "") in COMMUTATIVE:
        a, b = out[2], out[3]
        if repr(b) < repr(a):
            out[2], out[3] = b, a
    return tuple(out)


COMMUTATIVE = ("Add", "Mul", "BitAnd", "BitOr", "BitXor", "Eq", "Ne")


def norm_text_v1(t):
    """key text before operand-order canonicalisation (kept for migrating tables)"""
    def anon1(t, ups):
        if not isinstance(t, tuple) or not t:
            return t
        if t[0] == "param":
            return ("param", "$%d" % t[2] if isinstance(t[2], int) else t[1], t[2])
        if t[0] == "phi":
            return ("phi", 0, None)
        if t[0] == "upvar":
            k = ups.setdefault(t[1], len(ups) + 1)
            return ("upvar", "^%d" % k)
        out = []
        for y in t:
            if isinstance(y, tuple):
                if y and isinstance(y[0], str):
                    out.append(anon1(y, ups))
                else:
                    out.append(tuple(anon1(z, ups) if isinstance(z, tuple) else z for z in y))
            else:
                out.append(y)
        return tuple(out)
    s = fmt(anon1(t, {}))
    s = re.sub(r"φ_\d+", "φ", s)
    return s[:160]


def norm_text_named(t):
    """the pre-anonymisation key text (kept for migrating tables)"""
    s = fmt(t)
    s = re.sub(r"φ_\d+", "φ", s)
    return s[:160]


NORM_NEXT = True


def norm_next(s):
    """`<SomeIter<..> as Iterator>::next(` -> `Iterator::next(`: the concrete iterator type is not part of an obligation's
    identity (a loop and its spliced combinator form name it differently)"""
    pat = " as Iterator>::next("
    while True:
        i = s.find(pat)
        if i < 0:
            return s
        depth, j = 0, i
        while j >= 0:
            j -= 1
            if j >= 0 and s[j] == ">" and (j == 0 or s[j - 1] != "-"):
                depth += 1
            elif j >= 0 and s[j] == "<":
                if depth == 0:
                    break
                depth -= 1
        if j < 0:
            return s
        s = s[:j] + "Iterator::next(" + s[i + len(pat):]


def norm_text(t):
    s = fmt(anon(t))
    s = re.sub(r"φ_\d+", "φ", s)
    if NORM_NEXT:
        s = norm_next(s)
    return s[:160]


def enumerate_obligations(ppa, f):
    """all panic edges of f as obligations (undecided)"""
    g = ppa.guards(f)
    eb = g.eb
    out = []
    b = f.body
    for bi in sorted(b.reachable):
        t = b.blocks[bi].term
        if t.kind == "assert":
            if t.macro is not None and t.macro in ("assert", "assert_eq", "debug_assert", "debug_assert_eq"):
                pass
            o = Obl()
            o.fn, o.block, o.line = f, bi, t.line
            o.kind = t.msg
            o.terms = [eb.operand(x) for x in t.ops]
            if t.msg in ("div_zero", "rem_zero"):
                # the assert message operand is the dividend; the divisor is in the condition `d == 0`
                ce = eb.operand(t.cond)
                if ce[0] == "bin" and ce[1] == "Eq":
                    o.terms = [ce[2] if not (ce[2][0] == "lit" and ce[2][1] == 0) else ce[3]]
            o.width = None
            if t.ops and t.ops[0].kind in ("copy", "move"):
                o.width = f.prog.types[f.body.locals[t.ops[0].place[0]]] if not t.ops[0].place[1] else None
            if o.width is None and t.ops:
                for x in t.ops:
                    if x.kind == "const" and x.ty is not None:
                        o.width = f.prog.types[x.ty]
            o.status, o.reason, o.detail = None, None, ""
            out.append(o)
        elif t.kind == "call":
            c = t.callee
            if c.indirect is not None:
                continue
            name = c.name
            if c.did is not None and c.rpath is None and c.trait is None:
                continue    # local non-trait function: analysed on its own
            if c.rdid is not None:
                continue
            m = re.match(r"^<&?(?:'\w+ )?(u8|u16|u32|u64|u128|usize|i8|i16|i32|i64|i128|isize) as std::ops::(Add|Sub|Mul|Div|Rem|Shl|Shr)<", c.full or "")
            if m and len(t.args) == 2:
                # arithmetic on references to primitive integers goes through the std operator impls,
                # which carry the same overflow / division checks
                o = Obl()
                o.fn, o.block, o.line = f, bi, t.line
                opn = m.group(2)
                o.kind = {"Div": "div_zero", "Rem": "rem_zero"}.get(opn, "overflow:" + opn)
                a0, a1 = eb.operand(t.args[0]), eb.operand(t.args[1])
                o.terms = [a1] if opn in ("Div", "Rem") else [a0, a1]
                w = 64 if m.group(1).endswith("size") else int(m.group(1)[1:])
                o.width = {"k": "int", "sg": m.group(1)[0] == "i", "w": w}
                o.status, o.reason, o.detail = None, None, "std operator impl"
                out.append(o)
                continue
            kind = PARTIAL_CALLS.get(name)
            if kind is None:
                # explicit panics
                p = c.path or ""
                if p.startswith("core::panicking::") or p.startswith("std::rt::begin_panic") or p in ("std::process::abort",) \
                        or p.startswith("core::panicking") or name in ("panic_fmt", "panic", "unreachable_display", "panic_explicit", "assert_failed"):
                    o = Obl()
                    o.fn, o.block, o.line = f, bi, t.line
                    o.kind = "panic:" + name
                    o.terms = []
                    o.width = None
                    o.status, o.reason, o.detail = None, None, t.macro or ""
                    out.append(o)
                continue
            ce = eb.call_expr(t)
            if ce[0] != "call":
                # normalised away (e.g. Index::index with a plain index -> ("index", base, i))
                if ce[0] == "index":
                    o = Obl()
                    o.fn, o.block, o.line = f, bi, t.line
                    o.kind = "index-call"
                    o.terms = [ce[1], ce[2]]
                    o.width = None
                    o.status, o.reason, o.detail = None, None, ""
                    out.append(o)
                continue
            full = ce[3] or ""
            if kind == "index" and not ("Range" in fmt(ce[2][1]) if len(ce[2]) > 1 else False):
                if len(ce[2]) == 2:
                    o = Obl()
                    o.fn, o.block, o.line = f, bi, t.line
                    o.kind = "index-call"
                    o.terms = [ce[2][0], ce[2][1]]
                    o.width = None
                    o.status, o.reason, o.detail = None, None, ""
                    out.append(o)
                continue
            if kind == "take" and "Iterator" not in (ce[4] or ""):
                continue
            if name == "with_capacity" and not ("Vec" in full or "BitVec" in full or "String" in full or "VecDeque" in full):
                continue
            o = Obl()
            o.fn, o.block, o.line = f, bi, t.line
            o.kind = "call:" + name
            o.terms = list(ce[2])
            o.width = None
            o.status, o.reason, o.detail = None, None, full[:80]
            out.append(o)
    return out


def decide(ppa, o, env=None, conds=None, depth=0, via=None):
    """try to discharge obligation o in its own function; returns (ok, reason)"""
    f = o.fn
    g = ppa.guards(f)
    if env is None:
        env = Env(ppa, f, adversarial=(f.did in ppa.roots and ppa.adversarial_roots))
        conds = path_conditions(ppa, env, g, o.block)
        ppa.apply_conditions(env, conds)
    if any(definitely_false(ppa, env, c) for c in conds):
        return True, "unreachable: a path condition is infeasible under the intervals"
    return decide_terms(ppa, env, conds, o.kind, o.terms, o.width, o)


def definitely_false(ppa, env, c):
    if c[0] != "rel":
        return False
    op, a, b = c[1], c[2], c[3]
    ia, ib = ppa.iv(env, a), ppa.iv(env, b)
    if op == "Lt":
        return ia.lo >= ib.hi
    if op == "Le":
        return ia.lo > ib.hi
    if op == "Gt":
        return ia.hi <= ib.lo
    if op == "Ge":
        return ia.hi < ib.lo
    if op == "Eq":
        return ia.hi < ib.lo or ib.hi < ia.lo
    if op == "Ne":
        return ia.lo == ia.hi == ib.lo == ib.hi
    return False


def callee_postconditions(ppa, g, conds):
    """for every `h(args)?` whose success edge is among the necessary conditions: the negations of h's
    refusing guards (those that dominate h's accepting returns), with h's parameters replaced by the
    argument terms"""
    out = []
    for c in conds:
        if c[0] != "variant" or c[2] != "Continue" or not c[3]:
            continue
        sub = c[1]
        if not (sub[0] == "call" and sub[4] == "std::ops::Try::branch" and sub[2]):
            continue
        inner = sub[2][0]
        while inner[0] == "call" and inner[1].split("::")[-1] in ("map_err",) and inner[2]:
            inner = inner[2][0]
        if inner[0] != "call":
            continue
        cands = [h for h in ppa.prog.by_id.get(inner[1], [])] or [h for h in ppa.prog.by_id.get(inner[4] or "", [])]
        for h in cands[:1]:
            hg = ppa.guards(h)
            mapping = {i + 1: a for i, a in enumerate(inner[2])}
            for e in hg.refusal_edges(("err",)):
                if e.cond[0] == "rel" and hg.dominates_accepts(e, ("err",)):
                    neg = ("rel", NEG[e.cond[1]], subst(e.cond[2], mapping), subst(e.cond[3], mapping))
                    out.append(neg)
    return out


def sanitised_params(ppa, f, conds):
    """parameters whose length is pinned by an equality with a term that mentions no tainted parameter"""
    tp = getattr(ppa, "tainted_params", {}).get(f.did, set())
    out = set()
    for c in conds:
        if c[0] == "rel" and c[1] == "Eq":
            for (x, y) in ((c[2], c[3]), (c[3], c[2])):
                if x[0] == "len" and x[1][0] == "param":
                    if not any(isinstance(z, tuple) and z[0] == "param" and z[2] in tp for z in walk(y)):
                        out.add(x[1][2])
    return out


def path_conditions(ppa, env, g, block):
    conds = _path_conditions(ppa, env, g, block)
    return conds + callee_postconditions(ppa, g, conds)


def _path_conditions(ppa, env, g, block):
    """conditions of the switch edges every *feasible* path to block must take: edges whose own
    condition is refuted by the intervals (without refinements) are removed first"""
    b = g.body
    dead = set()
    for e in g.edges:
        if definitely_false(ppa, env, e.cond):
            dead.add((e.block, e.target))
    if not dead:
        return [e.cond for e in necessary_edges(g, block)]
    # unreachable once the infeasible edges are gone?
    seen = {0}
    st = [0]
    while st:
        n = st.pop()
        for s in b.succ[n]:
            if (n, s) in dead or s in seen:
                continue
            seen.add(s)
            st.append(s)
    if block not in seen:
        return [("rel", "Lt", ("lit", 1, "usize"), ("lit", 0, "usize"))]
    out = []
    for e in g.edges:
        if (e.block, e.target) in dead:
            continue
        seen = {0}
        st = [0]
        found = block == 0
        while st and not found:
            n = st.pop()
            for s in b.succ[n]:
                if (n == e.block and s == e.target) or (n, s) in dead:
                    continue
                if s not in seen:
                    if s == block:
                        found = True
                        break
                    seen.add(s)
                    st.append(s)
        if not found:
            out.append(e.cond)
    return out


def decide_terms(ppa, env, conds, kind, terms, width, o=None):
    iv = lambda t: ppa.iv(env, t)
    if kind.startswith("overflow:"):
        op = kind.split(":")[1]
        a, b = iv(terms[0]), iv(terms[1])
        rng = ty_range(width) if width is not None else Iv(0, (1 << 64) - 1)
        if rng is None:
            rng = Iv(0, (1 << 64) - 1)
        if op in ("Shl", "Shr"):
            w = (width["w"] or 64) if width is not None and width["k"] == "int" else 64
            # the shifted type's width is that of terms[0]; the amount must be < width
            if b.hi < w and b.lo >= 0:
                return True, "shift amount %r < %d" % (b, w)
            return False, "shift amount %r may reach the bit width %d" % (b, w)
        if op == "Sub" and a.lo >= 0 and b.lo >= 0:
            # unsigned subtraction: need a >= b
            if a.lo >= b.hi:
                return True, "%r - %r cannot underflow" % (a, b)
            if ppa.holds_rel(env, conds, "Ge", terms[0], terms[1]) or ppa.holds_rel(env, conds, "Gt", terms[0], terms[1]):
                return True, "guard %s >= %s on every path" % (fmt(terms[0])[:40], fmt(terms[1])[:40])
            # a - (a % k), a - min(a, ..), len - position patterns
            t1 = strip_wrappers(terms[1])
            if t1[0] == "bin" and t1[1] == "Rem" and b.hi <= a.lo:
                return True, "remainder bounded"
            return False, "%s - %s may underflow: %r - %r" % (fmt(terms[0])[:50], fmt(terms[1])[:50], a, b)
        r = ppa.arith(op, a, b)
        if r.within(rng):
            return True, "%r %s %r = %r within %r" % (a, op, b, r, rng)
        return False, "%s %s %s may overflow: %r %s %r = %r exceeds %r" % (fmt(terms[0])[:50], op, fmt(terms[1])[:50], a, op, b, r, rng)
    if kind == "overflow_neg":
        a = iv(terms[0])
        rng = ty_range(width) if width is not None else None
        lo = rng.lo if rng is not None else -(1 << 63)
        inner = strip_wrappers(terms[0])
        ai = iv(inner)
        if a.lo > lo or (ai.lo >= 0 and ai.hi <= -(lo + 1)):
            return True, "operand %r is never the minimum value" % (ai if ai.lo >= 0 else a)
        return False, "negation of %s may overflow: %r" % (fmt(terms[0])[:50], a)
    if kind in ("div_zero", "rem_zero"):
        d = iv(terms[0])
        if d.lo >= 1 or d.hi <= -1:
            return True, "divisor %r is non-zero" % d
        if ppa.holds_rel(env, conds, "Gt", terms[0], ("lit", 0, "usize")) or ppa.holds_rel(env, conds, "Ne", terms[0], ("lit", 0, "usize")):
            return True, "guarded non-zero"
        return False, "divisor %s may be zero: %r" % (fmt(terms[0])[:60], d)
    if kind in ("bounds", "index-call"):
        if kind == "bounds":
            ln, ix = terms[0], terms[1]
            lni = iv(ln)
        else:
            base, ix = terms[0], terms[1]
            ln = ("len", base)
            lni = iv(ln)
            # array-typed bases
        ixi = iv(ix)
        if ixi.lo >= 0 and ixi.hi < lni.lo:
            return True, "index %r < len %r" % (ixi, lni)
        # a vector created as vec![x; n]: its length is the term n
        lb = ln[1] if ln[0] == "len" else None
        if lb is not None and lb[0] == "phi":
            init = env.g.eb.init_expr(lb[1])
            if init is not None and init[0] == "call" and init[1].split("::")[-1] == "from_elem" and len(init[2]) == 2:
                n = init[2][1]
                if ppa.holds_rel(env, conds, "Lt", ix, n) or ppa.holds_rel(env, conds, "Gt", n, ix):
                    return True, "guard index < %s = len" % fmt(n)[:40]
        if ppa.holds_rel(env, conds, "Lt", ix, ln) or ppa.holds_rel(env, conds, "Gt", ln, ix):
            return True, "guard index < len"
        # induction variable of `0..len(x)` / `0..N` with a guard N <= len(x)
        six = strip_wrappers(ix)
        if six[0] == "vfield" and six[2] == "Some" and six[1][0] == "call" and six[1][4] == "std::iter::Iterator::next":
            it = six[1][2][0]
            init = env.g.eb.init_expr(it[1]) if it[0] == "phi" else it
            e = init
            while e is not None and e[0] == "call" and e[1].split("::")[-1] in ("rev", "into_iter", "by_ref") and e[2]:
                e = e[2][0]
            if e is not None and e[0] == "agg" and "Range" in e[1] and len(e[2]) == 2 and "Inclusive" not in e[1]:
                ub = e[2][1]
                if ub == ln or strip_wrappers(ub) == strip_wrappers(ln):
                    return True, "index ranges over 0..len"
                if ppa.holds_rel(env, conds, "Le", ub, ln) or ppa.holds_rel(env, conds, "Ge", ln, ub):
                    return True, "index < %s <= len by guard" % fmt(ub)[:40]
                ubi = iv(ub)
                if ubi.hi <= lni.lo:
                    return True, "range bound %r <= len %r" % (ubi, lni)
                # guard of the form `ub > len -> Err`
                for c in conds:
                    if c[0] == "rel":
                        for (o2, x, y) in ((c[1], c[2], c[3]), (SWAP[c[1]], c[3], c[2])):
                            if x == ub and y == ln and o2 in ("Le", "Lt", "Eq"):
                                return True, "guard"
        return False, "index %s (%r) may reach len %s (%r)" % (fmt(ix)[:50], ixi, fmt(ln)[:50], lni)
    if kind.startswith("call:"):
        name = kind.split(":")[1]
        k = PARTIAL_CALLS.get(name)
        if k == "unwrap":
            v = terms[0]
            return decide_unwrap(ppa, env, conds, v)
        if k == "alloc":
            n = terms[-1] if name != "resize" else terms[1]
            if name == "from_elem":
                n = terms[1]
            ni = iv(n)
            wire = mentions_wire(n)
            if wire:
                if ni.hi <= (1 << 16):
                    return True, "wire-derived size bounded by %r" % ni
                if guarded_by_remaining(ppa, env, conds, n):
                    return True, "wire-derived size checked against the remaining input"
                return False, "allocation size %s derives from the wire and is not bounded by the input length: %r" % (fmt(n)[:60], ni)
            if ni.hi <= 16 * SIZE:
                return True, "size %r within the memory budget (A1)" % ni
            return False, "allocation size %s unbounded: %r" % (fmt(n)[:60], ni)
        if k == "take":
            n = terms[1] if len(terms) > 1 else None
            if n is None:
                return True, ""
            if mentions_wire(n):
                ni = iv(n)
                if ni.hi <= (1 << 16) or guarded_by_remaining(ppa, env, conds, n):
                    return True, "bounded"
                # take(n) followed by collect of fallible reads stops at the first error and does not
                # pre-allocate: repeat_with(..).take(n) has size_hint (n, Some(n)) but collecting a
                # Result short-circuits through GenericShunt whose lower bound is 0
                src = terms[0]
                if src[0] == "call" and src[1].endswith("repeat_with"):
                    return True, "lazy: repeat_with(fallible read).take(n) collected into Result allocates as items arrive"
                return False, "wire-derived count %s not bounded: %r" % (fmt(n)[:60], ni)
            return True, "trusted count"
        if k == "nonzero1":
            n = terms[1] if len(terms) > 1 else None
            if n is None:
                return True, ""
            ni = iv(n)
            if ni.lo >= 1:
                return True, "argument %r >= 1" % ni
            return False, "%s(%s) panics for 0: %r" % (name, fmt(n)[:50], ni)
        if k == "nonzero0":
            ni = iv(terms[0])
            if ni.lo >= 1:
                return True, "argument %r >= 1" % ni
            return False, "%s(%s) panics for 0: %r" % (name, fmt(terms[0])[:50], ni)
        if k == "npo2":
            ni = iv(terms[0])
            if ni.hi <= (1 << 63):
                return True, "argument %r <= 2^63" % ni
            return False, "next_power_of_two(%s) overflows (debug) / wraps to 0 (release): %r" % (fmt(terms[0])[:50], ni)
        if k == "split":
            base, at = terms[0], terms[1]
            ai, li = iv(at), iv(("len", base))
            if ai.hi <= li.lo or ppa.holds_rel(env, conds, "Le", at, ("len", base)):
                return True, "split point <= len"
            # guard len(base) == f(at) with f >= at  (e.g. len == proof_length(dimension) >= dimension)
            for c in conds:
                if c[0] == "rel" and c[1] == "Eq":
                    for (x, y) in ((c[2], c[3]), (c[3], c[2])):
                        if x == ("len", base) and any(z == at for z in walk(y)):
                            return True, "len(base) == %s which contains the split point as a summand" % fmt(y)[:50]
            # splitting the tail returned by an earlier split
            return False, "split point %s (%r) may exceed len (%r)" % (fmt(at)[:50], ai, li)
        if k == "samelen":
            a, b = terms[0], terms[1]
            la, lb = slice_len(a), slice_len(b)
            if la is not None and lb is not None and la == lb:
                return True, "both slices have length %s" % fmt(la)[:40]
            ia = iv(la) if la is not None else iv(("len", a))
            ib = iv(lb) if lb is not None else iv(("len", b))
            if ia.lo == ia.hi == ib.lo == ib.hi:
                return True, "equal constant lengths %r" % ia
            return False, "copy_from_slice lengths not provably equal: %s vs %s" % (fmt(a)[:50], fmt(b)[:50])
        if k == "index":
            base, rng = terms[0], terms[1]
            return decide_range_index(ppa, env, conds, base, rng)
        return True, "not a partial operation"
    if kind.startswith("panic:"):
        return False, "explicit panic reachable (%s)" % (o.detail if o is not None else "")
    return False, "unhandled edge kind %s" % kind


def slice_len(e):
    """symbolic length of a slice-valued term, if evident"""
    e2 = e
    if e2[0] == "call" and e2[1].split("::")[-1] in ("index", "index_mut") and len(e2[2]) == 2:
        r = e2[2][1]
        if r[0] == "agg" and "RangeTo" in r[1] and "Inclusive" not in r[1] and len(r[2]) == 1:
            return r[2][0]
        if r[0] == "agg" and r[1].endswith("Range") and len(r[2]) == 2:
            return ("bin", "Sub", r[2][1], r[2][0])
    if e2[0] == "call" and e2[1].split("::")[-1] in ("to_le_bytes", "to_be_bytes"):
        return ("len", e2)
    return None


def decide_range_index(ppa, env, conds, base, rng):
    iv = lambda t: ppa.iv(env, t)
    ln = ("len", base)
    li = iv(ln)
    # array of statically known length
    if rng[0] == "agg":
        lab = rng[1]
        ops = rng[2]
        if "RangeFull" in lab:
            return True, "full range"
        if "RangeTo" in lab and len(ops) == 1:
            hi = ops[0]
            inc = 1 if "Inclusive" in lab else 0
            hii = iv(hi)
            if hii.hi + inc <= li.lo or ppa.holds_rel(env, conds, "Le" if not inc else "Lt", hi, ln):
                return True, "end <= len"
            blen = base_static_len(ppa, env, base)
            if blen is not None and hii.hi + inc <= blen:
                return True, "end %r <= static length %d" % (hii, blen)
            return False, "range end %s (%r) may exceed len (%r)" % (fmt(hi)[:50], hii, li)
        if "RangeFrom" in lab and len(ops) == 1:
            lo = ops[0]
            loi = iv(lo)
            if loi.hi <= li.lo or ppa.holds_rel(env, conds, "Le", lo, ln):
                return True, "start <= len"
            blen = base_static_len(ppa, env, base)
            if blen is not None and loi.hi <= blen:
                return True, "start %r <= static length %d" % (loi, blen)
            return False, "range start %s (%r) may exceed len (%r)" % (fmt(lo)[:50], loi, li)
        if lab.endswith("Range") and len(ops) == 2:
            lo, hi = ops
            loi, hii = iv(lo), iv(hi)
            blen = base_static_len(ppa, env, base)
            end_ok = hii.hi <= li.lo or ppa.holds_rel(env, conds, "Le", hi, ln) or (blen is not None and hii.hi <= blen)
            ord_ok = loi.hi <= hii.lo or ppa.holds_rel(env, conds, "Le", lo, hi)
            # hi = lo + k
            shi = strip_wrappers(hi)
            if not ord_ok and shi[0] == "bin" and shi[1] == "Add" and (shi[2] == lo or shi[3] == lo):
                ord_ok = True
            if shi[0] == "bin" and shi[1] == "Mul" and strip_wrappers(lo)[0] == "bin" and strip_wrappers(lo)[1] == "Mul":
                # p*k .. (p+1)*k
                a, b = strip_wrappers(lo), shi
                if a[3] == b[3] and b[2][0] == "bin" and b[2][1] == "Add" and b[2][2] == a[2]:
                    ord_ok = True
            if not ord_ok and shi[0] == "field" and shi[2] == "0" and shi[1][0] == "call" and shi[1][1].endswith("overflowing_add") \
                    and shi[1][2][0] == lo:
                # (end, overflowed) = start.overflowing_add(n) with `overflowed` refused on this path
                flag = ("field", shi[1], "1")
                if any(c[0] == "truth" and c[2] is False and c[1] == flag for c in conds):
                    ord_ok = True
            if not ord_ok and shi[0] == "vfield" and shi[2] == "Some" and shi[1][0] == "call" and shi[1][1].split("::")[-1] == "checked_add" \
                    and len(shi[1][2]) == 2 and (shi[1][2][0] == lo or shi[1][2][1] == lo):
                # end = start.checked_add(n) on its Some side: end = start + n without wrap-around
                ord_ok = True
            if end_ok and ord_ok:
                return True, "start <= end <= len"
            return False, "range %s..%s may be out of bounds / inverted: %r..%r, len %r" % (fmt(lo)[:40], fmt(hi)[:40], loi, hii, li)
    return False, "unrecognised index operand %s" % fmt(rng)[:60]


def base_static_len(ppa, env, base):
    """length of an array-typed base, when the term is a local/param of array type"""
    f = env.f
    e = base
    l = None
    if e[0] == "param":
        l = e[2]
    elif e[0] == "phi":
        l = e[1]
    if l is None:
        return None
    ty = f.prog.types[f.prog.strip_refs(f.body.locals[l])]
    if ty["k"] == "array":
        if "lenv" in ty:
            return ty["lenv"]
        name = ty["len"].split("::")[-1]
        if name in SYM_TABLE:
            return SYM_TABLE[name][0]
    return None


def decide_unwrap(ppa, env, conds, v):
    iv = lambda t: ppa.iv(env, t)
    e = v
    # unwrap(try_from(x)): x within the target range
    if e[0] == "call" and e[1].split("::")[-1] in ("try_from", "try_into") and len(e[2]) == 1:
        a = iv(e[2][0])
        full = e[3] or ""
        m = re.search(r"TryFrom<[a-z0-9]+> for (u8|u16|u32|u64|u128|usize|i8|i16|i32|i64|i128|isize)", full) or \
            re.search(r"<(u8|u16|u32|u64|u128|usize) as std::convert::TryFrom", full)
        if m:
            r = tystr_range(m.group(1))
            if a.within(r):
                return True, "%r fits %s" % (a, m.group(1))
            return False, "conversion of %s (%r) to %s may fail" % (fmt(e[2][0])[:50], a, m.group(1))
        # slice -> array conversions of a fixed-length slice
        sl = slice_len(e[2][0])
        if sl is not None:
            return True, "fixed-length slice to array"
        return False, "try_from(%s).unwrap() may fail" % fmt(e[2][0])[:60]
    if e[0] == "call" and e[1].split("::")[-1] in ("checked_ilog2",):
        a = iv(e[2][0])
        if a.lo >= 1:
            return True, "argument >= 1"
        if ppa.holds_rel(env, conds, "Ne", e[2][0], None):
            return True, ""
        # guard `x == zero() -> Err`
        for c in conds:
            if c[0] == "rel" and c[1] in ("Ne", "Gt"):
                if c[2] == e[2][0] or c[3] == e[2][0]:
                    return True, "guarded non-zero"
        return False, "checked_ilog2(%s).unwrap() may fail for 0" % fmt(e[2][0])[:50]
    if e[0] == "call" and e[1].split("::")[-1] in ("last", "first", "pop", "next", "next_back", "split_last", "split_first"):
        base = e[2][0]
        if e[1].split("::")[-1] in ("last", "first", "split_last", "split_first") and iv(("len", base)).lo >= 1:
            return True, "len %r >= 1" % iv(("len", base))
        for c in conds:
            if c[0] == "rel":
                for (o2, x, y) in ((c[1], c[2], c[3]), (SWAP[c[1]], c[3], c[2])):
                    if x == ("len", base) and ((o2 in ("Gt", "Ne") and iv(y).lo >= 0 and iv(y).hi == 0) or (o2 == "Ge" and iv(y).lo >= 1)):
                        return True, "guarded non-empty"
        return False, "%s(%s).unwrap() may be None" % (e[1].split("::")[-1], fmt(base)[:50])
    if e[0] == "call" and e[1].split("::")[-1] in ("downcast_mut", "downcast_ref"):
        return True, "downcast of a shim constructed in the same function (type-level)"
    if e[0] == "call" and e[1].split("::")[-1] in ("new_from_slice",):
        return True, "Hmac::new_from_slice accepts any key length"
    return False, "unwrap of %s may fail" % fmt(e)[:80]


def mentions_wire(e):
    for x in walk(e):
        if isinstance(x, tuple) and x[0] == "call" and (WIRE_DECODE.match(x[3] or "") or WIRE_DECODE.match(x[1] or "")):
            return True
    return False


def guarded_by_remaining(ppa, env, conds, n):
    """a dominating relation compares (something containing) n against a term built from the cursor's
    remaining length (len / position)"""
    def is_remaining(t):
        return any(isinstance(x, tuple) and ((x[0] == "len") or (x[0] == "call" and x[1].split("::")[-1] in ("position", "remaining", "get_ref")))
                   for x in walk(t))
    sn = strip_wrappers(n)
    for c in conds:
        if c[0] != "rel":
            continue
        for (o2, x, y) in ((c[1], c[2], c[3]), (SWAP[c[1]], c[3], c[2])):
            if o2 in ("Le", "Lt") and any(z == sn or z == n for z in walk(x)) and is_remaining(y) and ppa.iv(env, y).hi <= SIZE:
                return True
    return False


def decide_at_callers(ppa, o, depth=0, seen=None):
    """re-evaluate an undischarged obligation at every call site of its function (parameters replaced by
    the argument terms, the caller's path conditions added).  All call sites must discharge it."""
    f = o.fn
    if depth > 3 or f.did in ppa.roots:
        return False, ""
    params = [x for t in o.terms for x in walk(t) if isinstance(x, tuple) and x[0] == "param"]
    if not params:
        return False, ""
    sites = ppa.callers(f)
    if not sites:
        return False, ""
    g = ppa.guards(f)
    own_conds = [e.cond for e in necessary_edges(g, o.block)]
    # callee-local values (mutable locals, loop variables) cannot be expressed in the caller: freeze
    # them to their interval in the callee
    cenv = Env(ppa, f, adversarial=False)
    ppa.apply_conditions(cenv, own_conds)

    def freeze(e):
        if not isinstance(e, tuple) or not e:
            return e
        if e[0] in ("phi", "upvar") or (e[0] == "vfield" and e[2] == "Some" and e[1][0] == "call" and e[1][4] == "std::iter::Iterator::next"):
            r = ppa.iv(cenv, e)
            return ("ivc", r.lo, r.hi, fmt(e)[:30])
        out = []
        for y in e:
            if isinstance(y, tuple):
                if y and isinstance(y[0], str):
                    out.append(freeze(y))
                else:
                    out.append(tuple(freeze(z) if isinstance(z, tuple) else z for z in y))
            else:
                out.append(y)
        return tuple(out)
    o_terms = [freeze(x) for x in o.terms]
    own_conds = [("rel", c[1], freeze(c[2]), freeze(c[3])) + tuple(c[4:]) for c in own_conds if c[0] == "rel"]
    reasons = []
    for (caller, bi, t) in sites:
        cg = ppa.guards(caller)
        mapping = {}
        for i, a in enumerate(t.args):
            mapping[i + 1] = cg.eb.operand(a)
        terms = [subst(x, mapping) for x in o_terms]
        conds = []
        for c in own_conds:
            if c[0] == "rel":
                conds.append(("rel", c[1], subst(c[2], mapping), subst(c[3], mapping)) + tuple(c[4:]))
        env = Env(ppa, caller, adversarial=(caller.did in ppa.roots and ppa.adversarial_roots))
        cc = path_conditions(ppa, env, cg, bi)
        allc = cc + conds
        ppa.apply_conditions(env, allc)
        if any(definitely_false(ppa, env, c) for c in cc):
            reasons.append("unreachable call site in %s" % caller.name)
            continue
        ok, why = decide_terms(ppa, env, allc, o.kind, terms, o.width, o)
        if not ok:
            o2 = Obl()
            o2.fn, o2.block, o2.kind, o2.terms, o2.width, o2.line, o2.detail = caller, bi, o.kind, terms, o.width, t.line, o.detail
            o2.status = o2.reason = None
            ok, why = decide_at_callers(ppa, o2, depth + 1)
            if not ok:
                return False, "at call site %s:%s: %s" % (caller.id[-50:], t.line, why)
        reasons.append("%s: %s" % (caller.name, why[:60]))
    return True, "discharged at all %d call site(s): %s" % (len(sites), "; ".join(reasons)[:160])


# ======================================================================
# adversarial taint of parameters (for the api-source analysis)

def propagate_taint(ppa, roots, root_policy):
    """tainted[f.did] = set of parameter locals that syntactically carry caller-controlled data:
    adversarial parameters of the roots, and parameters of callees whose argument term at some call
    site mentions a tainted parameter.  Mutable accumulators (phi terms) are deliberately not
    tainted: index arithmetic over internal buffers is out of the analysis' scope."""
    tainted = {}
    upv = {}
    work = []
    for f in roots:
        tainted[f.did] = set(root_policy(f))
        work.append(f)
    n = 0
    while work and n < 50000:
        n += 1
        f = work.pop()
        if f.did not in ppa.scope:
            continue
        tp = tainted.get(f.did, set())
        tu = upv.get(f.did, set())
        if not tp and not tu:
            continue
        g0 = ppa.guards(f)

        def term_tainted(e):
            for x in walk(e):
                if isinstance(x, tuple):
                    if x[0] == "param" and x[2] in tp:
                        return True
                    if x[0] == "upvar" and x[1].lstrip("*") in tu:
                        return True
            return False
        for bi, t in f.body.calls():
            targets = [g for g in ppa.prog.resolve_call(t.callee) if g.did in ppa.scope]
            if not targets:
                continue
            argt = [term_tainted(g0.eb.operand(a)) for a in t.args]
            for g in targets:
                cur = tainted.setdefault(g.did, set())
                new = set(i + 1 for i, v in enumerate(argt) if v and i < g.body.argc)
                if not new <= cur:
                    cur |= new
                    work.append(g)
        for c in ppa.prog.closures_of(f):
            if c.did in ppa.scope:
                names = set(f.param_name(i) for i in tp) | tu
                cur = upv.setdefault(c.did, set())
                # closure's own arguments are tainted when the closure is handed to an iterator over
                # tainted data; approximated by tainting them whenever the parent has tainted params
                curp = tainted.setdefault(c.did, set())
                newp = set(range(2, c.body.argc + 1))
                if not names <= cur or not newp <= curp:
                    cur |= names
                    curp |= newp
                    work.append(c)
    ppa.tainted_params = tainted
    ppa.tainted_upvars = upv
    return tainted


def obligation_tainted(ppa, o):
    f = o.fn
    tp = set(ppa.tainted_params.get(f.did, set()))
    tu = ppa.tainted_upvars.get(f.did, set())
    if tp:
        g = ppa.guards(f)
        env = Env(ppa, f, adversarial=False)
        conds = path_conditions(ppa, env, g, o.block)
        tp -= sanitised_params(ppa, f, conds)
    for t in o.terms:
        if mentions_wire(t):
            return True
        for x in walk(t):
            if isinstance(x, tuple):
                if x[0] == "param" and x[2] in tp:
                    return True
                if x[0] == "upvar" and x[1].lstrip("*") in tu:
                    return True
    return False


NARROW = (8, 16, 32)


def always_obligation(o):
    """edges that are obligations even on untainted operands: narrow-integer arithmetic, subtraction
    underflow, division by zero, narrowing conversions (try_from(..).unwrap())"""
    if o.kind in ("div_zero", "rem_zero"):
        return True
    if o.kind.startswith("overflow:"):
        if o.kind in ("overflow:Sub", "overflow:Shl", "overflow:Shr"):
            return True
        w = o.width
        if w is not None and w.get("k") == "int" and w.get("w") in NARROW:
            return True
        return False
    if o.kind == "call:unwrap" or o.kind == "call:expect":
        e = o.terms[0] if o.terms else None
        if e is not None and e[0] == "call" and e[1].split("::")[-1] in ("try_from", "try_into"):
            return True
    return False
