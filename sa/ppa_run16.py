import sys,glob,collections,re
sys.path.insert(0,'/verif/sa')
import ir, ppa
from expr import fmt, walk
p=ir.load(sorted(glob.glob('/verif/.work/facts/*-K2.json'))[-1])
MODS=('vdaf::prio3','vdaf::poplar1','vdaf::prio2','flp::','flp::types','dp::','dp','idpf::','topology::ping_pong','vdaf::','codec::')
def is_result(f):
    return f.output is not None and p.types[f.output]['s'].startswith('std::result::Result<')
roots=[f for f in p.fns if f.eff_pub and f.kind!='Closure' and is_result(f) and not p.is_test_util(f)
       and re.search(r'(vdaf::prio3|vdaf::poplar1|vdaf::prio2|flp::|flp::types|dp::|idpf::|topology::ping_pong|^vdaf::|<vdaf::)', f.id) and f.name not in ('decode','decode_with_param','get_decoded','get_decoded_with_param','fmt','deserialize','serialize')]
print(len(roots),'roots')
EXCL=('ntt::','polynomial::','fp::','field::','prng::','vdaf::xof::','dp::distributions','dp::rand_bigint','flp::gadgets')
def stop(f):
    return any(f.id.startswith(x) or ('<'+x) in f.id for x in EXCL)
scope=[f for f in p.reachable_fns(roots, stop=stop) if not p.is_test_util(f) and not stop(f)]
print(len(scope),'scope fns')
P=ppa.PPA(p, scope, roots, adversarial_roots=True)
import dep as depmod
D=depmod.Dep(p)
def policy(f):
    s=set()
    for i in range(1,f.body.argc+1):
        if f.param_name(i)=='self': continue
        s.add(i)
    return s
tainted=ppa.propagate_taint(P,roots,policy)
print('tainted fns',sum(1 for v in tainted.values() if v))
tot=0; bad=[]; skipped=0
for f in sorted(scope,key=lambda f:f.id):
    for o in ppa.enumerate_obligations(P,f):
        if not ppa.obligation_tainted(P,o) and not ppa.always_obligation(o):
            skipped+=1; continue
        tot+=1
        ok,why=ppa.decide(P,o)
        if not ok:
            ok2,why2=ppa.decide_at_callers(P,o)
            if not ok2: bad.append((o,why))
print(tot,'obligations',skipped,'skipped (untainted, out of scope)',len(bad),'open')
cnt=collections.Counter((o.fn.file) for o,w in bad); print(cnt)
for o,why in bad: print(' -', o.fn.id[:90], o.kind, '@%s'%o.line, '::', why[:160])
